"""Virtual-time laboratory: probe sources, probe observers, callback probes, scheduler-action hook.

Everything is recorded into one totally ordered event list `Lab.ev`:
    (seq, time, kind, *data)
kinds: sub/unsub/emit/escaped (probe sources), recv (probe observers), cb (callback probes),
       dispose_call/dispose_ret, action (scheduler action hook), note.
"""
from __future__ import annotations

import datetime as _dt
from typing import Any, Callable

import reactivex as rx
from reactivex import Observable, abc
from reactivex.disposable import Disposable
from reactivex.scheduler import HistoricalScheduler
from reactivex.scheduler.scheduleditem import ScheduledItem
from reactivex.testing import TestScheduler

UTC = _dt.timezone.utc
EPOCH = _dt.datetime(2020, 1, 1, tzinfo=UTC)


class SrcErr(Exception):
    """error notifications of generated sources"""


class FalsySrcErr(SrcErr):
    """an error object whose truth value is False (exception classes may define __bool__/__len__): libraries must test
    'is not None', never the truth value, to know whether an error is present"""

    def __bool__(self) -> bool:
        return False


class Injected(Exception):
    """exception injected into a user callback"""


class Lab:
    def __init__(self, clock: str = "num") -> None:
        self.clock_kind = clock
        self.ts = TestScheduler() if clock == "num" else HistoricalScheduler(EPOCH)
        self.ev: list[tuple] = []
        self.sources: list[ProbeSource] = []
        self.observers: list[ProbeObserver] = []
        self.nactions = 0
        self.action_hook: Callable[[int], None] | None = None
        self.same_instant = 0
        self.max_same_instant = 0
        self._last_clock: Any = None
        self.escaped_to_scheduler: list[BaseException] = []

    # ---- time helpers
    def now(self) -> float:
        c = self.ts._clock
        if isinstance(c, _dt.datetime):
            return (c - EPOCH).total_seconds()
        return float(c)

    def rel(self, t: float) -> Any:
        return t if self.clock_kind == "num" else _dt.timedelta(seconds=t)

    def abs(self, t: float) -> Any:
        return float(t) if self.clock_kind == "num" else EPOCH + _dt.timedelta(seconds=t)

    def add(self, kind: str, *data: Any) -> int:
        self.ev.append((len(self.ev), self.now(), kind) + data)
        return len(self.ev) - 1

    def at(self, t: float, fn: Callable[[], Any]) -> None:
        self.ts.schedule_absolute(self.abs(t), lambda s, st: fn())

    # ---- factories
    def cold(self, name: str, msgs: list, **kw: Any) -> "ProbeSource":
        return ProbeSource(self, name, msgs, "cold", **kw)

    def hot(self, name: str, msgs: list, **kw: Any) -> "ProbeSource":
        return ProbeSource(self, name, msgs, "hot", **kw)

    def sync(self, name: str, msgs: list, **kw: Any) -> "ProbeSource":
        return ProbeSource(self, name, msgs, "sync", **kw)

    def observer(self, name: str = "top", **kw: Any) -> "ProbeObserver":
        return ProbeObserver(self, name, **kw)

    def fn(self, name: str, impl: Callable[..., Any], raise_at: int | None = None, exc: BaseException | None = None) -> "CallbackProbe":
        return CallbackProbe(self, name, impl, raise_at, exc)

    # ---- running
    def run(self, until: float | None = None) -> None:
        """Run the virtual-time scheduler; exceptions escaping start() are recorded and the run resumes."""
        orig = ScheduledItem.invoke
        lab = self

        def invoke(item: ScheduledItem) -> None:
            if item.scheduler is lab.ts:
                lab.nactions += 1
                c = lab.ts._clock
                if c == lab._last_clock:
                    lab.same_instant += 1
                    lab.max_same_instant = max(lab.max_same_instant, lab.same_instant)
                else:
                    lab._last_clock = c
                    lab.same_instant = 1
                if lab.action_hook is not None:
                    lab.action_hook(lab.nactions)
            return orig(item)

        ScheduledItem.invoke = invoke  # type: ignore[method-assign]
        try:
            for _ in range(50):
                try:
                    if until is None:
                        self.ts.start()
                    else:
                        self.ts.advance_to(self.abs(until))
                    break
                except Exception as e:  # an exception escaped into the scheduler
                    self.escaped_to_scheduler.append(e)
                    self.add("escaped_sched", repr(e))
                    self.ts.stop()
        finally:
            ScheduledItem.invoke = orig  # type: ignore[method-assign]

    # ---- queries
    def events(self, kind: str) -> list[tuple]:
        return [e for e in self.ev if e[2] == kind]

    def open_subscriptions(self) -> dict:
        """(src, sid) -> [sub_event, unsub_event or None]"""
        subs: dict = {}
        for e in self.ev:
            if e[2] == "sub":
                subs[(e[3], e[4])] = [e, None]
            elif e[2] == "unsub":
                if subs[(e[3], e[4])][1] is None:
                    subs[(e[3], e[4])][1] = e
        return subs


class ProbeSource(Observable):
    """Logged source. kind: cold (timeline relative to each subscription), hot (absolute timeline),
    sync (emits everything synchronously inside subscribe).
    nonconf=True: ignores dispose (keeps emitting) -- timelines may also contain notifications
    after the terminal one."""

    def __init__(self, lab: Lab, name: str, msgs: list, kind: str, nonconf: bool = False, alt_msgs: list | None = None) -> None:
        """alt_msgs (cold/sync only): timelines for the 2nd, 3rd ... subscription (a source that yields different
        data per subscription, like defer over changing state)"""
        super().__init__()
        self.lab, self.name, self.msgs, self.kind, self.nonconf = lab, name, list(msgs), kind, nonconf
        self.alt_msgs = alt_msgs
        self.nsub = 0
        self.live: dict[int, Any] = {}
        lab.sources.append(self)
        if kind == "hot":
            for (t, k, v) in self.msgs:
                lab.ts.schedule_absolute(lab.abs(t), self._hot_action(k, v))

    def _deliver(self, sid: int, obs: Any, k: str, v: Any) -> None:
        self.lab.add("emit", self.name, sid, k, v)
        try:
            if k == "N":
                obs.on_next(v)
            elif k == "E":
                obs.on_error(v)
            else:
                obs.on_completed()
        except Exception as e:
            self.lab.add("escaped", self.name, sid, e)

    def _hot_action(self, k: str, v: Any) -> Any:
        def act(s: Any, st: Any) -> None:
            for sid, obs in list(self.live.items()):
                if sid in self.live or self.nonconf:
                    self._deliver(sid, obs, k, v)
        return act

    def _subscribe_core(self, observer: Any, scheduler: Any = None) -> abc.DisposableBase:
        sid = self.nsub
        self.nsub += 1
        lab = self.lab
        lab.add("sub", self.name, sid)
        self.live[sid] = observer
        state = {"disposed": False}

        def dispose() -> None:
            if not state["disposed"]:
                state["disposed"] = True
                if not (self.nonconf and self.kind == "hot"):
                    self.live.pop(sid, None)
                lab.add("unsub", self.name, sid)

        msgs = self.msgs
        if self.alt_msgs and sid >= 1 and self.kind != "hot":
            msgs = self.alt_msgs[min(sid - 1, len(self.alt_msgs) - 1)]
        if self.kind == "cold":
            for (t, k, v) in msgs:
                def act(s: Any, st: Any, k: str = k, v: Any = v) -> None:
                    if not state["disposed"] or self.nonconf:
                        self._deliver(sid, observer, k, v)
                lab.ts.schedule_relative(lab.rel(t), act)
        elif self.kind == "sync":
            for (t, k, v) in msgs:
                if state["disposed"] and not self.nonconf:
                    break
                self._deliver(sid, observer, k, v)
        return Disposable(dispose)


class ProbeObserver(abc.ObserverBase):
    """Records what it receives. Options:
    raise_at=(kind, k): raise Injected at the k-th call of that kind (1-based)
    dispose_at=k: call the subscription's dispose() from inside the k-th on_next
    inner=True: subscribe a child probe to every Observable value (window, group)
    on_recv: extra hook(kind, value, obs)"""

    def __init__(self, lab: Lab, name: str, raise_at: tuple | None = None, dispose_at: int | None = None,
                 inner: bool = True, inner_opts: dict | None = None, on_recv: Any = None) -> None:
        self.lab, self.name = lab, name
        self.raise_at, self.dispose_at, self.inner = raise_at, dispose_at, inner
        self.inner_opts = inner_opts or {}
        self.on_recv = on_recv
        self.recv: list[tuple] = []        # (kind, value, time, seq)
        self.counts = {"N": 0, "E": 0, "C": 0}
        self.subscription: abc.DisposableBase | None = None
        self.children: list[ProbeObserver] = []
        self.dispose_seq: int | None = None   # seq of dispose_ret
        self.pending_dispose = False
        self.raised: BaseException | None = None
        lab.observers.append(self)

    # -- subscription handling
    def subscribe_to(self, source: Any, as_callbacks: bool = False, scheduler: Any = None) -> None:
        sch = self.lab.ts if scheduler is None else scheduler
        if as_callbacks:
            sub = source.subscribe(self.on_next, self.on_error, self.on_completed, scheduler=sch)
        else:
            sub = source.subscribe(self, scheduler=sch)
        self.subscription = sub
        if self.pending_dispose:
            self.dispose()

    def dispose(self) -> None:
        if self.subscription is None:
            self.pending_dispose = True   # dispose requested before subscribe() returned
            return
        if self.dispose_seq is not None:
            return
        self.lab.add("dispose_call", self.name)
        self.subscription.dispose()
        self.dispose_seq = self.lab.add("dispose_ret", self.name)

    @property
    def kinds(self) -> str:
        return "".join(r[0] for r in self.recv)

    @property
    def values(self) -> list:
        return [r[1] for r in self.recv if r[0] == "N"]

    @property
    def terminal(self) -> tuple | None:
        for r in self.recv:
            if r[0] in "EC":
                return r
        return None

    def timed(self) -> list[tuple]:
        return [(r[2], r[0], r[1]) for r in self.recv]

    def _got(self, kind: str, value: Any) -> None:
        seq = self.lab.add("recv", self.name, kind, value)
        self.recv.append((kind, value, self.lab.now(), seq))
        self.counts[kind] += 1
        if self.on_recv is not None:
            self.on_recv(kind, value, self)
        if kind == "N" and self.inner and isinstance(value, abc.ObservableBase):
            child = ProbeObserver(self.lab, "%s/%d" % (self.name, len(self.children)), **self.inner_opts)
            self.children.append(child)
            child.subscribe_to(value)
        if kind == "N" and self.dispose_at is not None and self.counts["N"] == self.dispose_at:
            self.dispose()
        if self.raise_at is not None and self.raise_at[0] == kind and self.raise_at[1] == self.counts[kind]:
            self.raised = Injected("observer %s %s#%d" % (self.name, kind, self.counts[kind]))
            self.lab.add("inject", "observer:" + self.name)
            raise self.raised

    def on_next(self, value: Any) -> None:
        self._got("N", value)

    def on_error(self, error: Exception) -> None:
        self._got("E", error)

    def on_completed(self) -> None:
        self._got("C", None)

    def tree(self) -> list["ProbeObserver"]:
        out = [self]
        for c in self.children:
            out.extend(c.tree())
        return out


class CallbackProbe:
    """Wraps a user callback: records every invocation, raises Injected at call k when told to."""

    def __init__(self, lab: Lab, name: str, impl: Callable[..., Any], raise_at: int | None, exc: BaseException | None) -> None:
        self.lab, self.name, self.impl, self.raise_at = lab, name, impl, raise_at
        self.exc = exc
        self.calls = 0
        self.injected: BaseException | None = None

    def __call__(self, *a: Any, **kw: Any) -> Any:
        self.calls += 1
        self.lab.add("cb", self.name, self.calls, a)
        if self.raise_at is not None and self.calls == self.raise_at:
            self.injected = self.exc or Injected("callback %s #%d" % (self.name, self.calls))
            self.lab.add("inject", "cb:" + self.name)
            raise self.injected
        return self.impl(*a, **kw)


# ---------------------------------------------------------------------------------- monitors

def grammar_ok(kinds: str) -> bool:
    """N* (E|C)?"""
    seen_term = False
    for k in kinds:
        if seen_term:
            return False
        if k in "EC":
            seen_term = True
    return True


# ---------------------------------------------------------------------------------- generators

FALSY = [None, 0, 0.0, False, "", (), [], {}]
HASHABLE_FALSY = [None, 0, 0.0, False, "", ()]


def gen_value(r: Any, domain: str, uniq: list | None = None) -> Any:
    if domain == "ints":
        return r.randint(-3, 9)
    if domain == "dups":
        return r.choice([0, 1, 1, 2, 2, 3])
    if domain == "falsy":
        if r.random() < 0.55:
            v = r.choice(FALSY)
            return type(v)() if isinstance(v, (list, dict)) else v
        return r.choice([1, 2, "a", (1,), [0], True, 3.5, -1])
    if domain == "hfalsy":
        if r.random() < 0.55:
            return r.choice(HASHABLE_FALSY)
        return r.choice([1, 2, "a", (1,), True, 3.5, -1])
    if domain == "numeric":
        return r.choice([0, 1, -1, 2, 5, 0.5, -2.5, 3, 7, 0.0])
    if domain == "uniq":
        assert uniq is not None
        uniq[0] += 1
        return uniq[0]
    raise ValueError(domain)


def gen_timeline(r: Any, domain: str = "ints", maxlen: int = 6, start: float = 0, term: str | None = "auto",
                 nonconf: bool = False, uniq: list | None = None, steps: tuple = (0, 5, 5, 10, 10, 15, 1, 4, 6)) -> list:
    """[(t, kind, value)] on a coarse grid so that ties and exact-boundary gaps are frequent."""
    n = r.randint(0, maxlen)
    t = start
    out = []
    for _ in range(n):
        t += r.choice(steps)
        if out and domain in ("falsy", "hfalsy", "dups") and r.random() < 0.25:
            # contiguous runs of one value (None, 0, "" ... included): what de-duplicating and comparing operators key on
            v = out[-1][2]
            v = type(v)() if isinstance(v, (list, dict)) and not v else v
        else:
            v = gen_value(r, domain, uniq)
        out.append((t, "N", v))
    if term == "auto":
        term = r.choice(["C", "C", "C", "E", None])
    t += r.choice(steps)
    if term == "C":
        out.append((t, "C", None))
    elif term == "E":
        out.append((t, "E", (FalsySrcErr if r.random() < 0.12 else SrcErr)("src@%s" % t)))
    if nonconf and term:
        for _ in range(r.randint(1, 3)):
            t += r.choice((0, 5))
            k = r.choice("NNCE")
            out.append((t, k, SrcErr("late@%s" % t) if k == "E" else gen_value(r, domain, uniq)))
    return out


def show_timeline(msgs: list) -> list:
    from .common import show
    return [[t, k, show(v)] for (t, k, v) in msgs]
