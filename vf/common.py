"""Shared helpers: seeded RNGs, type-strict comparison, JSON-safe rendering, unit results."""
from __future__ import annotations

import hashlib
import json
import os
import random
from collections import Counter
from typing import Any, Iterable

REPO = os.environ.get("VERIF_REPO", "/repo")
HERE = os.path.dirname(os.path.dirname(os.path.abspath(__file__)))


def case_rng(*parts: Any) -> random.Random:
    """Deterministic RNG from a tuple of parts (VERIF_SEED, property, shard, case index ...)."""
    return random.Random("|".join(str(p) for p in parts))


def strict(v: Any) -> Any:
    """Type-strict canonical form: 0, False and 0.0 are different, tuples and lists are different."""
    if isinstance(v, (list, tuple)):
        return (type(v).__name__, tuple(strict(x) for x in v))
    if isinstance(v, dict):
        return ("dict", tuple((strict(k), strict(x)) for k, x in v.items()))
    if isinstance(v, (set, frozenset)):
        return (type(v).__name__, tuple(sorted((strict(x) for x in v), key=repr)))
    if isinstance(v, BaseException):
        return ("exc", id(v))
    if isinstance(v, float) and v != v:
        return ("float", "nan")
    if v is None or isinstance(v, (bool, int, float, str, bytes)):
        return (type(v).__name__, v)
    if type(v).__module__ == "reactivex.notification":
        kind = getattr(v, "kind", "?")
        if kind == "N":
            return ("notification", "N", strict(v.value))
        if kind == "E":
            return ("notification", "E", id(v.exception))
        return ("notification", kind)
    conv = getattr(v, "__strict__", None)
    if conv is not None:
        return conv()
    return ("obj", id(v))


def seq_eq(a: Iterable[Any], b: Iterable[Any]) -> bool:
    return [strict(x) for x in a] == [strict(x) for x in b]


def show(v: Any, depth: int = 0) -> Any:
    """JSON-safe, human-readable rendering that keeps type distinctions visible."""
    if depth > 6:
        return "..."
    if v is None or isinstance(v, (bool, int, str)):
        return v
    if isinstance(v, float):
        return v if v == v and abs(v) != float("inf") else repr(v)
    if isinstance(v, tuple):
        return {"tuple": [show(x, depth + 1) for x in v]}
    if isinstance(v, list):
        return [show(x, depth + 1) for x in v]
    if isinstance(v, dict):
        if v and all(isinstance(k, str) for k in v):
            return {k: show(x, depth + 1) for k, x in v.items()}
        return {"dict": [[show(k, depth + 1), show(x, depth + 1)] for k, x in v.items()]}
    if isinstance(v, (set, frozenset)):
        return {"set": sorted((show(x, depth + 1) for x in v), key=repr)}
    if isinstance(v, BaseException):
        return "%s(%s)" % (type(v).__name__, ", ".join(repr(a) for a in v.args))
    return repr(v)[:200]


def digest(obj: Any) -> str:
    return hashlib.sha1(json.dumps(obj, sort_keys=True, default=repr).encode()).hexdigest()[:16]


class UnitResult:
    """What one work unit (a shard running in a child process) observed."""

    def __init__(self) -> None:
        self.evaluations = 0
        self.keys: set[str] = set()          # digests of distinct non-trivial cases
        self.violations: list[dict] = []
        self.samples: list[Any] = []
        self.counters: Counter = Counter()
        self.sets: dict[str, set] = {}       # named sets (operators reached, lines switched at ...)
        self.inconclusive: list[str] = []
        self.max_samples = 3
        self.max_violations = 40

    def case(self, key: Any = None, nontrivial: bool = True, sample: Any = None) -> None:
        self.evaluations += 1
        if nontrivial and key is not None:
            self.keys.add(key if isinstance(key, str) and len(key) == 16 else digest(key))
        if sample is not None and len(self.samples) < self.max_samples:
            self.samples.append(sample)

    def count(self, name: str, n: int = 1) -> None:
        self.counters[name] += n

    def note(self, setname: str, item: Any) -> None:
        self.sets.setdefault(setname, set()).add(item)

    def violation(self, mech: str, detail: Any, replay: dict) -> None:
        """mech: mechanism key (stable, value-free) used to match known findings."""
        self.counters["violations_seen"] += 1
        if len(self.violations) < self.max_violations:
            self.violations.append({"mech": mech, "detail": show(detail), "replay": replay})
        else:
            # keep at least one witness per mechanism
            if not any(v["mech"] == mech for v in self.violations):
                self.violations.append({"mech": mech, "detail": show(detail), "replay": replay})

    def to_json(self) -> dict:
        return {
            "evaluations": self.evaluations,
            "keys": sorted(self.keys),
            "violations": self.violations,
            "samples": self.samples,
            "counters": dict(self.counters),
            "sets": {k: sorted(map(str, v)) for k, v in self.sets.items()},
            "inconclusive": self.inconclusive,
        }


def chunks(total: int, n_units: int) -> list[tuple[int, int]]:
    """Split range(total) in up to n_units contiguous [lo, hi) chunks."""
    n_units = max(1, min(n_units, total))
    step = (total + n_units - 1) // n_units
    return [(lo, min(total, lo + step)) for lo in range(0, total, step)]
