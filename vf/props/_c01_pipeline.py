"""Random operator pipelines over probe sources: shared by C01, C02 and C03.

A case is a pure function of its RNG: `build(r, **opts)` draws the sources and the stages (every stage is built,
so the RNG consumption does not depend on which stages are later kept), `Built.observable(keep)` composes the
kept stages, `execute` subscribes a probe observer at SUB_AT and runs the virtual clock up to END.
`minimize` drops stages greedily while a predicate keeps failing (used only to name a violation's mechanism).
"""
from __future__ import annotations

from typing import Any, Callable

from reactivex import abc
from reactivex.scheduler import CurrentThreadScheduler
from reactivex.scheduler.scheduleditem import ScheduledItem

from ..catalog import BY_NAME, CATALOG, SUB_AT, Entry, Gen
from ..vlab import Lab, ProbeObserver

END = 600.0          # the virtual clock is run up to here (periodic timers of never-ending pipelines are unbounded)
CHILD_END = 500.0    # window/group probes still subscribed are unsubscribed here (only when the top is finished)
LIVELOCK = 3000      # same-instant scheduler actions after which a run is cut and the case discarded


class Stage:
    def __init__(self, idx: int, entry: Entry, op: Any, desc: str) -> None:
        self.idx, self.entry, self.op, self.desc = idx, entry, op, desc


def step_nested(nested: bool, e: Entry) -> bool | None:
    """nested-state after entry e, or None when e may not follow."""
    if "flatten" in e.flags:
        return False if nested else None
    if nested:
        return True if "agnostic" in e.flags else None
    return "nested" in e.flags


class Built:
    def __init__(self, r: Any, lab: Lab, g: Gen, main: Any, stages: list[Stage], opts: dict) -> None:
        self.r, self.lab, self.g, self.main, self.stages, self.opts = r, lab, g, main, stages, opts
        self.sub_action: int | None = None     # number of scheduler actions started when subscribe() was called
        self.term_action: int | None = None
        self.livelock = False

    def kept(self, keep: list | None) -> list[Stage]:
        return [s for s in self.stages if keep is None or s.idx in keep]

    def valid(self, keep: list | None) -> bool:
        nested: bool | None = False
        for s in self.kept(keep):
            nested = step_nested(bool(nested), s.entry)
            if nested is None:
                return False
        return True

    def nested_stage(self, keep: list | None) -> int | None:
        """index of the stage whose windows/groups reach the subscriber (None: the subscriber gets plain values)"""
        nested, at = False, None
        for s in self.kept(keep):
            n = bool(step_nested(nested, s.entry))
            if n and not nested:
                at = s.idx
            if not n:
                at = None
            nested = n
        return at

    def observable(self, keep: list | None = None) -> Any:
        o = self.main
        for s in self.kept(keep):
            o = o.pipe(s.op)
        return o

    def opnames(self, keep: list | None = None) -> list[str]:
        return [s.entry.name for s in self.kept(keep)]

    def describe(self, keep: list | None = None) -> dict:
        subscribed = {e[3] for e in self.lab.ev if e[2] == "sub"}
        return {"clock": self.lab.clock_kind,
                "sources": [d for d in self.g.source_desc if d["name"] in subscribed or d["role"] == "main"],
                "pipeline": ["%d:%s" % (s.idx, s.desc) for s in self.kept(keep)]}


def build(r: Any, depth: int, clock: str = "num", p_nonconf: float = 0.0, exclude: tuple = (), plan: dict | None = None,
          term_policy: dict | None = None, kinds: tuple | None = None, explicit_sched: bool = False,
          main_kind: str | None = None, max_sources: int | None = None, maxlen: int = 5) -> Built:
    """plan: {stage_index: flag-or-entry-name} forces the entry drawn at that position (when structurally possible)."""
    lab = Lab(clock)
    kw: dict = {}
    if kinds is not None:
        kw["kinds"] = kinds
    g = Gen(r, lab, p_nonconf=p_nonconf, max_sources=max_sources or r.choice([1, 2, 2, 3, 3]), explicit_sched=explicit_sched,
            term_policy=term_policy, maxlen=maxlen, **kw)
    main = g.new_source("main", kind=main_kind)
    stages: list[Stage] = []
    nested = False
    plan = plan or {}
    for i in range(depth):
        cands = [e for e in CATALOG if step_nested(nested, e) is not None and not (set(exclude) & e.flags)]
        want = plan.get(i)
        if want is not None:
            forced = [e for e in cands if e.name == want or want in e.flags]
            if forced:
                cands = forced
        if nested and i == depth - 1 and r.random() < 0.5:
            flat = [e for e in cands if "flatten" in e.flags]
            cands = flat or cands
        e = r.choice(cands)
        g.stage, g.opname = i, e.name
        op, desc = e.make(g)
        stages.append(Stage(i, e, op, desc))
        nested = bool(step_nested(nested, e))
    g.stage, g.opname = -1, "-"
    return Built(r, lab, g, main, stages, {"depth": depth, "clock": clock})


def execute(b: Built, keep: list | None = None, top: ProbeObserver | None = None, as_callbacks: bool = False,
            trampoline: bool = False, end_children: bool = True, end: float = END,
            after_action: Callable[[int, Any], None] | None = None) -> ProbeObserver:
    lab = b.lab
    o = b.observable(keep)
    top = top or lab.observer("top")

    def note_terminal(kind: str, value: Any, obs: Any) -> None:
        if kind in "EC" and b.term_action is None:
            b.term_action = lab.nactions

    if top.on_recv is None:
        top.on_recv = note_terminal

    def do_sub() -> None:
        b.sub_action = lab.nactions
        if trampoline:
            cts = CurrentThreadScheduler.singleton()
            cts.schedule(lambda s, st: top.subscribe_to(o, as_callbacks, scheduler=cts))
        else:
            top.subscribe_to(o, as_callbacks)

    def finish_children() -> None:
        if top.terminal is not None or top.dispose_seq is not None:
            for c in top.tree()[1:]:
                if c.terminal is None and c.subscription is not None:
                    c.dispose()

    prev_hook = lab.action_hook

    def hook(n: int) -> None:
        if lab.same_instant > LIVELOCK and not b.livelock:
            b.livelock = True           # a same-instant loop (advance_to has no spin protection): cut the run
            lab.ts.stop()
        if prev_hook is not None:
            prev_hook(n)

    lab.action_hook = hook
    lab.at(SUB_AT, do_sub)
    if end_children:
        lab.at(CHILD_END, finish_children)
    if after_action is None:
        lab.run(until=end)
        return top
    # Lab.action_hook runs inside ScheduledItem.invoke, i.e. after the scheduler has already found the item not
    # cancelled: a dispose made there could never cancel that very item. `after_action(n, item)` runs when action n is over.
    real = ScheduledItem.invoke

    def invoke(item: Any) -> None:
        mine = item.scheduler is lab.ts
        try:
            real(item)
        finally:
            if mine:
                after_action(lab.nactions, item)

    ScheduledItem.invoke = invoke  # type: ignore[method-assign]
    try:
        lab.run(until=end)
    finally:
        ScheduledItem.invoke = real  # type: ignore[method-assign]
    return top


def child_intervals(lab: Lab, top: ProbeObserver) -> list[tuple]:
    """(probe, start_seq, end_seq or None, end_time or None) for every window/group probe below `top`."""
    out: list[tuple] = []

    def walk(p: ProbeObserver) -> None:
        starts = [r[3] for r in p.recv if r[0] == "N" and isinstance(r[1], abc.ObservableBase)]
        for c, s in zip(p.children, starts):
            term = c.terminal
            ends = []
            if term is not None:
                ends.append((term[3], term[2]))
            if c.dispose_seq is not None:
                ends.append((c.dispose_seq, lab.ev[c.dispose_seq][1]))
            e = min(ends) if ends else (None, None)
            out.append((c, s, e[0], e[1]))
            walk(c)

    walk(top)
    return out


def subscriptions(lab: Lab) -> list[tuple]:
    """[(key, sub_event, unsub_event|None)] in subscription order"""
    return [(k, v[0], v[1]) for k, v in lab.open_subscriptions().items()]


def self_terminated(lab: Lab) -> set:
    """(src, sid) whose source emitted a terminal notification to that subscription"""
    return {(e[3], e[4]) for e in lab.ev if e[2] == "emit" and e[5] in "EC"}


def minimize(b_factory: Callable[[], Built], fails: Callable[[list], bool]) -> list:
    """Greedy one-at-a-time stage removal. `fails(keep)` must rebuild the case itself."""
    b = b_factory()
    keep = [s.idx for s in b.stages]
    changed = True
    while changed:
        changed = False
        for i in list(keep):
            cand = [k for k in keep if k != i]
            if not b.valid(cand):
                continue
            try:
                bad = fails(cand)
            except Exception:
                bad = False
            if bad:
                keep = cand
                changed = True
                break
    return keep


__all__ = ["END", "CHILD_END", "SUB_AT", "Built", "Stage", "build", "execute", "child_intervals", "subscriptions",
           "self_terminated", "minimize", "BY_NAME", "CATALOG"]
