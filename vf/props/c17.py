"""C17 Time-window operators respect their window boundaries (virtual time, model differential + metamorphic pair).

Oracles are written from the property statement (DESIGN.md §5 C17, tie policy §4 rule 2):
  take_with_time(d) / take_until_with_time(end)   notifications strictly before the boundary B (t0+d, or the absolute
                        datetime) pass, none strictly after; completes at B unless the source terminated before; a burst
                        at exactly B races with the timer (any prefix of it may pass)
  skip_with_time(d) / skip_until_with_time(start)  the complement; the terminal notification always passes
  take_last_with_time(d)  at completion T exactly the elements with age T - t <  d, in order, then C (EXACT)
  skip_last_with_time(d)  exactly the elements with age T - t >= d, each no earlier than t + d, in order, then C (EXACT)
        metamorphic pair: the same timeline plus one unrelated element at the completion instant selects the same
        elements of the original timeline
  timeout(d[, other])   switches to `other` (or fails) at (subscription or last element) + d -- an absolute datetime is
                        that instant itself -- if no notification arrived strictly before; a notification at exactly the
                        deadline is a tie; nothing of this after the source terminated
  timeout_with_mapper   the same with observable deadlines: the first N or C of the timeout observable of the latest
                        element (or of first_timeout) switches, decided by the OBSERVED trace order
"""
from __future__ import annotations

from typing import Any

import reactivex.operators as ops

from ..common import UnitResult, case_rng, chunks, show, strict
from ..single import SUB_AT, cut_after_terminal, make_input, match_expected, run_single, show_timed
from ..vlab import Lab, SrcErr, gen_timeline, show_timeline
from . import _c15_time as T

ID = "C17"
LEVEL = "exploration"
RULE = ("seeded random cases: operator (take_with_time, skip_with_time, take_until_with_time, skip_until_with_time, "
        "take_last_with_time, skip_last_with_time, timeout with/without fallback, timeout_with_mapper) x clock "
        "(TestScheduler / HistoricalScheduler) x due-time shape (int, float, timedelta, absolute datetime where accepted) "
        "x scheduler given to the operator or to subscribe x hot/cold coarse-grid timeline (0..7 elements placed before, "
        "at and after every boundary, same-instant bursts, C/E/never); every completing *_last_with_time case is run "
        "twice (with and without an unrelated element at the completion instant); timeout observables and fallbacks are "
        "probe sources; non-trivial = the subscriber is offered >= 1 notification; distinct = digest of (operator, "
        "parameters, clock, timeline)")
ASSUMPTIONS = ["TestScheduler / HistoricalScheduler are the clock (their ordering is checked independently by C28)",
               "probe sources and probe observers are harness code (conforming here)",
               "an absolute datetime given to timeout() is the deadline itself (only deadlines >= subscription time are generated)"]
CASES = {"quick": 21600, "thorough": 612000}
OPS = ["take_with_time", "skip_with_time", "take_until_with_time", "take_until_with_time", "skip_until_with_time",
       "skip_until_with_time", "take_last_with_time", "take_last_with_time", "take_last_with_time",
       "skip_last_with_time", "skip_last_with_time", "skip_last_with_time", "timeout", "timeout", "timeout", "timeout",
       "timeout_with_mapper", "timeout_with_mapper"]
OPSET = sorted(set(OPS))
REQUIRED = {"set:ops": len(OPSET), "set:clocks": 2, "set:shapes": 4,
            "ties": {"quick": 100, "thorough": 2000},
            "boundary_hits": {"quick": 200, "thorough": 4000},
            "last_age_equals_duration": {"quick": 40, "thorough": 800},
            "metamorphic_pairs": {"quick": 200, "thorough": 4000},
            "timeout_fired": {"quick": 100, "thorough": 2000},
            "timeout_source_terminated_first": {"quick": 50, "thorough": 1000},
            "timeout_notification_at_deadline": {"quick": 30, "thorough": 600},
            "twm_coinciding": {"quick": 20, "thorough": 400}}
DURS = [0, 1, 4, 5, 5, 6, 10, 10, 15, 20, 30, 2.5]
EXTRA = "EXTRA"


def units(tier: str, seed: int) -> list[dict]:
    return [{"lo": lo, "hi": hi, "seed": seed} for lo, hi in chunks(CASES[tier], 16 if tier == "quick" else 64)]


def gen_case(r: Any, idx: int) -> dict:
    op = OPS[idx % len(OPS)]
    clock = r.choice(["num", "dt"])
    last_ops = op in ("take_last_with_time", "skip_last_with_time")
    domain = "uniq" if last_ops else r.choice(["ints", "falsy", "dups"])
    hot = r.random() < 0.4
    tl = gen_timeline(r, domain, maxlen=7, uniq=[0])
    n = sum(1 for m in tl if m[1] == "N")
    P: dict = {"sched": r.choice(["arg", "sub", "both"]), "d": r.choice(DURS)}
    if op in ("take_until_with_time", "skip_until_with_time"):
        P["shape"] = r.choice(["int", "float", "td", "abs", "abs"])
        if P["shape"] == "abs" and r.random() < 0.12:
            P["d"] = -5              # absolute boundary already in the past at subscription
    elif op == "timeout":
        P["shape"] = r.choice(["int", "float", "td", "abs"])
        if P["shape"] == "abs":
            P["d"] = r.choice([0, 5, 10, 15, 20, 30, 45, 60])
        P["other"] = gen_timeline(r, "ints", maxlen=2, steps=(0, 5, 10)) if r.random() < 0.6 else None
    elif op == "timeout_with_mapper":
        del P["d"]
        del P["sched"]
        P["first"] = T.gen_fire_spec(r) if r.random() < 0.75 else None
        P["timeouts"] = [T.gen_fire_spec(r) for _ in range(n)] if r.random() < 0.85 else None
        P["other"] = gen_timeline(r, "ints", maxlen=2, steps=(0, 5, 10)) if r.random() < 0.6 else None
    else:
        P["shape"] = r.choice(T.SHAPES_REL)
    return {"op": op, "P": P, "tl": tl, "hot": hot, "clock": clock, "domain": domain}


def build(case: dict, lab: Lab, src: Any) -> Any:
    op, P = case["op"], case["P"]
    T.arm(lab)
    sch = lab.ts if P.get("sched") in ("arg", "both") else None
    if op == "timeout_with_mapper":
        calls = [0]

        def mapper(x: Any) -> Any:
            i = calls[0]
            calls[0] += 1
            return T.make_probe(lab, "tm%d" % i, P["timeouts"][i])
        first = T.make_probe(lab, "ft", P["first"]) if P["first"] is not None else None
        other = lab.cold("other", P["other"]) if P["other"] is not None else None
        return src.pipe(ops.timeout_with_mapper(first, mapper if P["timeouts"] is not None else None, other))
    due = T.due(lab, P["shape"], rel=P["d"], at=SUB_AT + P["d"])
    if op == "take_with_time":
        return src.pipe(ops.take_with_time(due, scheduler=sch))
    if op == "skip_with_time":
        return src.pipe(ops.skip_with_time(due, scheduler=sch))
    if op == "take_until_with_time":
        return src.pipe(ops.take_until_with_time(due, scheduler=sch))
    if op == "skip_until_with_time":
        return src.pipe(ops.skip_until_with_time(due, scheduler=sch))
    if op == "take_last_with_time":
        return src.pipe(ops.take_last_with_time(due, scheduler=sch))
    if op == "skip_last_with_time":
        return src.pipe(ops.skip_last_with_time(due, scheduler=sch))
    if op == "timeout":
        other = lab.cold("other", P["other"]) if P["other"] is not None else None
        return src.pipe(ops.timeout(due, other, scheduler=sch))
    raise KeyError(op)


# ------------------------------------------------------------------------------------------- models

def model_take(seen: list, B: float, t0: float, tie: T.Tie, marks: dict) -> list:
    evs = cut_after_terminal(seen)
    if B < t0:
        marks["boundary_in_past"] = True
        return [(t0, "C", None)]
    out = [e for e in evs if e[0] < B]
    if out and out[-1][1] in "EC":
        return out
    at = [e for e in evs if e[0] == B]
    if at:
        marks["at_boundary"] = True
    for e in at[:tie.choose(len(at) + 1)]:
        out.append(e)
        if e[1] in "EC":
            return out
    out.append((B, "C", None))
    return out


def model_skip(seen: list, B: float, tie: T.Tie, marks: dict) -> list:
    evs = cut_after_terminal(seen)
    n_at = sum(1 for e in evs if e[0] == B and e[1] == "N")
    if n_at:
        marks["at_boundary"] = True
    p = tie.choose(n_at + 1)      # the first p elements of the burst at B still fall into the skipped part
    out: list = []
    seen_at = 0
    for e in evs:
        if e[1] in "EC":
            out.append(e)
            return out
        if e[0] < B:
            continue
        if e[0] == B:
            seen_at += 1
            if seen_at <= p:
                continue
        out.append(e)
    return out


def split(seen: list) -> tuple[list, tuple | None]:
    evs = cut_after_terminal(seen)
    term = evs[-1] if evs and evs[-1][1] in "EC" else None
    return [(t, v) for (t, k, v) in evs if k == "N"], term


def model_take_last(seen: list, d: float) -> list:
    elems, term = split(seen)
    if term is None:
        return []
    if term[1] == "E":
        return [term]
    return [(term[0], "N", v) for (t, v) in elems if term[0] - t < d] + [term]


def check_skip_last(seen: list, d: float, actual: list) -> str | None:
    """completion at T: exactly the elements with T - t >= d (a prefix, in order), each no earlier than t + d and no
    later than T.  Error / no terminal: the statement fixes no set; emitted elements still form a prefix in order and
    none is emitted before it is d old."""
    elems, term = split(seen)
    outs = [(t, v) for (t, k, v) in actual if k == "N"]
    terms = [m for m in actual if m[1] in "EC"]
    if term is None:
        if terms:
            return "terminal %r although the source did not terminate" % (terms[0][1],)
    else:
        if len(terms) != 1 or actual[-1][1] != term[1] or abs(actual[-1][0] - term[0]) > 1e-9:
            return "terminal notifications %s, expected %s at %s as last notification" % (
                [(m[0], m[1]) for m in terms], term[1], term[0])
        if term[1] == "E" and actual[-1][2] is not term[2]:
            return "error object differs"
    if len(outs) > len(elems):
        return "more elements emitted (%d) than received (%d)" % (len(outs), len(elems))
    for i, (te, v) in enumerate(outs):
        if strict(v) != strict(elems[i][1]):
            return "emitted element %d is %r, expected %r (elements must come out in order, none left out)" % (i, v, elems[i][1])
        if te < elems[i][0] + d - 1e-9:
            return "element %d (arrived %s) emitted at %s, earlier than arrival + duration %s" % (i, elems[i][0], te, elems[i][0] + d)
    if term is not None and term[1] == "C":
        want = [v for (t, v) in elems if term[0] - t >= d]
        if len(outs) != len(want):
            return "at completion %s elements with age >= %s are %r, emitted %r" % (term[0], d, want, [v for (_, v) in outs])
    return None


def model_timeout(seen: list, t0: float, d: float, absolute: bool, other: list | None, tie: T.Tie, marks: dict) -> list:
    out: list = []
    deadline = t0 + d
    for (t, k, v) in cut_after_terminal(seen):
        if t > deadline:
            break
        if t == deadline:
            marks["at_deadline"] = True
            if tie.choose(2) == 1:     # the timer wins the race at this instant
                break
        out.append((t, k, v))
        if k in "EC":
            marks["source_first"] = True
            return out
        if not absolute:
            deadline = t + d
    marks["fired"] = True
    if other is None:
        out.append((deadline, "E", Exception))
    else:
        out.extend(cut_after_terminal([(deadline + t, k, v) for (t, k, v) in other]))
    return out


def model_twm(lab: Lab, has_other: bool, marks: dict) -> list:
    """Observed trace: the timeout observable of the latest element (first_timeout before any) switches by its first
    N or C unless the source produced something before it."""
    out: list = []
    cur = "ft"
    n = 0
    switched = False
    for (seq, t, name, sid, k, v) in T.emits(lab):
        if not switched:
            if name == "s":
                out.append((t, k, v))
                if k in "EC":
                    marks["source_first"] = True
                    return out
                cur = "tm%d" % n
                n += 1
            elif name == cur and k in "NC":
                switched = True
                marks["fired"] = True
                if not has_other:
                    out.append((t, "E", Exception))
                    return out
            elif name != "other":
                marks["stale_timer_seen"] = True
        elif name == "other":
            out.append((t, k, v))
            if k in "EC":
                return out
    return out


def model_twm_desc(seen: list, t0: float, P: dict) -> list | None:
    """The same rule computed from the case description (timeout observable of element i is subscribed when the
    element arrives and fires `offset` later; a synchronous one fires before anything else can arrive).  Returns None
    as soon as a source notification coincides with the current deadline: that order is only known from the trace."""
    out: list = []

    def switch(at: float) -> list:
        if P["other"] is None:
            return out + [(at, "E", Exception)]
        return out + cut_after_terminal([(at + t, k, v) for (t, k, v) in P["other"]])

    def arm_(spec: dict | None, base: float) -> tuple[float | None, bool]:
        if spec is None or T.fires_at(spec) is None:
            return None, False
        return base + T.fires_at(spec), spec["kind"] == "sync"

    deadline, now_ = arm_(P["first"], t0)
    if now_:
        return switch(t0)
    n = 0
    for (t, k, v) in cut_after_terminal(seen):
        if deadline is not None:
            if t == deadline:
                return None
            if t > deadline:
                return switch(deadline)
        out.append((t, k, v))
        if k in "EC":
            return out
        deadline, now_ = arm_(P["timeouts"][n] if P["timeouts"] is not None else None, t)
        n += 1
        if now_:
            return switch(t)
    return switch(deadline) if deadline is not None else out


def describe(case: dict) -> dict:
    P = dict(case["P"])
    if "timeouts" in P:
        P["timeouts"] = [T.show_spec(s) for s in P["timeouts"]] if P["timeouts"] is not None else None
        P["first"] = T.show_spec(P["first"])
    if P.get("other") is not None:
        P["other"] = show_timeline(P["other"])
    return {"op": case["op"], "params": show(P), "clock": case["clock"], "hot": case["hot"],
            "timeline": show_timeline(case["tl"])}


def selection(actual: list) -> list:
    return [v for (t, k, v) in actual if k == "N" and v != EXTRA]


def run_last_pair(case: dict, seed: int, idx: int, res: UnitResult, desc: dict) -> None:
    """take_last_with_time / skip_last_with_time: age rule on the timeline, on the timeline + one unrelated element at
    the completion instant, and equality of the two selections."""
    op, P = case["op"], case["P"]
    d = P["d"]
    tl = case["tl"]
    runs = [("base", tl)]
    if tl and tl[-1][1] == "C":
        runs.append(("with-extra", tl[:-1] + [(tl[-1][0], "N", EXTRA), tl[-1]]))
    results = []
    failed: list[dict] = []
    eq_only = True
    for tag, tline in runs:
        msgs, seen = make_input(case_rng(seed, ID, idx, "input"), tline, case["hot"])
        lab, obs, src = run_single(lambda lab, s: build(case, lab, s), msgs, case["hot"], clock=case["clock"],
                                   sub_scheduler=T.frozen_scheduler if case["P"].get("sched") == "both" else None)
        if T.spun(lab):
            res.violation("C17:%s:same-instant-livelock" % op, {"case": desc, "run": tag}, {"seed": seed, "idx": idx})
            return
        actual = obs.timed()
        elems, term = split(seen)
        if op == "take_last_with_time":
            expected = model_take_last(seen, d)
            why = match_expected(expected, actual)
        else:
            expected = None
            why = check_skip_last(seen, d, actual)
        if why is None and lab.escaped_to_scheduler:
            why = "exception escaped to scheduler: %r" % (lab.escaped_to_scheduler[0],)
        results.append((tag, seen, actual))
        completes = term is not None and term[1] == "C"
        if completes and any(term[0] - t == d for (t, v) in elems if v != EXTRA):
            if tag == "base":
                res.count("last_age_equals_duration")
                res.count("boundary_hits")
        if why is not None:
            # is the whole discrepancy about elements that are exactly `duration` old at completion?
            only_eq = False
            if completes:
                rule = (lambda age: age < d) if op == "take_last_with_time" else (lambda age: age >= d)
                want = [v for (t, v) in elems if rule(term[0] - t)]
                got = [v for (t, k, v) in actual if k == "N"]
                eq_vals = [v for (t, v) in elems if term[0] - t == d]
                diff = [v for v in want if v not in got] + [v for v in got if v not in want]
                shape_ok = [m[1] for m in actual] == ["N"] * len(got) + ["C"] and actual[-1][0] == term[0] and \
                    all(v in [x for (_, x) in elems] for v in got)
                only_eq = bool(diff) and shape_ok and all(v in eq_vals for v in diff)
            eq_only = eq_only and only_eq
            failed.append({"check": "age-rule:" + tag, "why": why, "offered": show_timed(cut_after_terminal(seen)),
                           "expected": show_timed(expected) if expected is not None else "see why",
                           "observed": show_timed(actual)})
    if len(results) == 2:
        if split(results[0][1])[1] is not None:
            res.count("metamorphic_pairs")
        s0, s1 = selection(results[0][2]), selection(results[1][2])
        if s0 != s1:
            elems, term = split(results[0][1])
            eq_vals = [v for (t, v) in elems if term is not None and term[0] - t == d]
            diff = [v for v in s0 if v not in s1] + [v for v in s1 if v not in s0]
            eq_only = eq_only and all(v in eq_vals for v in diff)
            failed.append({"check": "metamorphic", "why": "the elements of the original timeline selected without (%r) and with "
                           "(%r) an unrelated element at the completion instant differ" % (s0, s1),
                           "offered": show_timed(cut_after_terminal(results[0][1])),
                           "observed_without": show_timed(results[0][2]), "observed_with": show_timed(results[1][2])})
    seen0 = results[0][1]
    res.case(key=desc, nontrivial=bool(seen0),
             sample={"case": desc, "offered": show_timed(cut_after_terminal(seen0)), "observed": show_timed(results[0][2]),
                     "observed_with_extra": show_timed(results[1][2]) if len(results) == 2 else None} if idx % 11 == 0 else None)
    res.count("outputs_compared", sum(len(a) for (_, _, a) in results))
    if failed:
        mech = "C17:%s:age-equals-duration" % op if eq_only else "C17:%s" % op
        res.violation(mech, {"case": desc, "duration": d, "failed_checks": failed}, {"seed": seed, "idx": idx})


def run_case(seed: int, idx: int, res: UnitResult) -> None:
    r = case_rng(seed, ID, idx)
    case = gen_case(r, idx)
    op, P = case["op"], case["P"]
    desc = describe(case)
    res.note("ops", op)
    res.note("clocks", case["clock"])
    if "shape" in P:
        res.note("shapes", P["shape"])
    if op in ("take_last_with_time", "skip_last_with_time"):
        run_last_pair(case, seed, idx, res, desc)
        return
    msgs, seen = make_input(r, case["tl"], case["hot"])
    lab, obs, src = run_single(lambda lab, s: build(case, lab, s), msgs, case["hot"], clock=case["clock"],
                                   sub_scheduler=T.frozen_scheduler if case["P"].get("sched") == "both" else None)
    if T.spun(lab):
        res.count("same_instant_livelocks")
        res.case(key=desc, nontrivial=False)
        res.violation("C17:%s:same-instant-livelock" % op,
                      {"why": "more than %d scheduler actions at one virtual instant (%d)" % (T.SPIN_GUARD, lab.max_same_instant),
                       "case": desc, "observed_so_far": show_timed(obs.timed())}, {"seed": seed, "idx": idx})
        return
    actual = obs.timed()
    marks: dict = {}
    points = 0
    extra: dict = {}
    by_desc = None
    if op in ("take_with_time", "take_until_with_time"):
        alts, points = T.alternatives(lambda tie: model_take(seen, SUB_AT + P["d"], SUB_AT, tie, marks))
    elif op in ("skip_with_time", "skip_until_with_time"):
        alts, points = T.alternatives(lambda tie: model_skip(seen, SUB_AT + P["d"], tie, marks))
    elif op == "timeout":
        alts, points = T.alternatives(
            lambda tie: model_timeout(seen, SUB_AT, P["d"], P["shape"] == "abs", P["other"], tie, marks))
    else:
        alts = [model_twm(lab, P["other"] is not None, marks)]
        by_desc = model_twm_desc(seen, SUB_AT, P)
        if by_desc is not None:
            # no coincidence on the way: the trace-driven expectation must agree with the description-driven one,
            # otherwise the operator did not run the timeout observables as specified (never subscribed, disposed early)
            res.count("twm_checked_against_description")
        em = T.emits(lab)
        stimes = {t for (seq, t, name, sid, k, v) in em if name == "s"}
        if any(name not in ("s", "other") and t in stimes for (seq, t, name, sid, k, v) in em):
            res.count("twm_coinciding")
            res.count("ties")
            res.count("boundary_hits")
    why = T.match_any(alts, actual)
    if why is None and op == "timeout_with_mapper" and by_desc is not None:
        why = match_expected(by_desc, actual)
        if why is not None:
            why = "expectation from the case description: " + why
            alts = [by_desc]
    if op in ("timeout", "timeout_with_mapper"):
        if why is None:
            # "or fails": the failure must not be the source's own error object
            fired_alt = next(a for a in alts if match_expected(a, actual) is None)
            for e, a in zip(fired_alt, actual):
                if e[1] == "E" and e[2] is Exception and isinstance(a[2], SrcErr):
                    why = "timeout failure expected, a source error object was delivered"
        nsub_other = len(T.subs(lab, "other"))
        extra["other_subscriptions"] = nsub_other
        if why is None and P["other"] is not None:
            src_term = [e for e in T.emits(lab) if e[2] == "s" and e[4] in "EC"]
            first_other = T.subs(lab, "other")
            if src_term and first_other and first_other[0][0] > src_term[0][0]:
                why = "fallback subscribed after the source had terminated"
            elif nsub_other > 1:
                why = "fallback subscribed %d times" % nsub_other
        for m, c in (("fired", "timeout_fired"), ("source_first", "timeout_source_terminated_first"),
                     ("at_deadline", "timeout_notification_at_deadline")):
            if marks.get(m):
                res.count(c)
        if marks.get("at_deadline"):
            res.count("boundary_hits")
    else:
        if marks.get("at_boundary"):
            res.count("boundary_hits")
        if marks.get("boundary_in_past"):
            res.count("boundary_in_past")
    if points:
        res.count("ties")
        res.count("tie_points", points)
    times = [t for (t, k, v) in cut_after_terminal(seen)]
    if len(times) != len(set(times)):
        res.count("same_instant_bursts")
    res.case(key=desc, nontrivial=bool(seen),
             sample={"case": desc, "expected": show_timed(alts[0]), "accepted_alternatives": len(alts),
                     "observed": show_timed(actual)} if idx % 11 == 0 else None)
    res.count("outputs_compared", len(alts[0]))
    if why is None and lab.escaped_to_scheduler:
        why = "exception escaped to scheduler: %r" % (lab.escaped_to_scheduler[0],)
    if why is not None:
        detail = {"why": why, "case": desc, "accepted": [show_timed(a) for a in alts[:4]],
                  "accepted_alternatives": len(alts), "observed": show_timed(actual)}
        detail.update(extra)
        res.violation("C17:%s" % op, detail, {"seed": seed, "idx": idx})


def run_unit(unit: dict, res: UnitResult) -> None:
    for idx in range(unit["lo"], unit["hi"]):
        run_case(unit["seed"], idx, res)


def replay(rep: dict, res: UnitResult) -> None:
    run_case(rep["seed"], rep["idx"], res)
