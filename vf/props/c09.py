"""C09 Exceptions raised by user callbacks are delivered as on_error (fault enumeration, virtual time).

One case = (slot, k, source kind, variant).  A *slot* is one user-callback position of one operator / factory
(table SLOTS below).  The callback under test is a `CallbackProbe` that raises `vlab.Injected` at its k-th real
invocation (for the two "natural" slots -- pluck / pluck_attr on a missing key -- the k-th element makes the library's own
lookup raise).  The pipeline is built so that the operator under test is the LAST stage, optionally followed by one
error-transparent element-wise stage (map(ident) / filter(always)) -- see DESIGN.md C09 for why the shape is restricted.
No dispose is injected.

Source kinds (whoever emits the notification during which the callback runs):
  hot      hot ProbeSource: the emitter is a scheduler action that does not catch; an exception coming back out of
           observer.on_xxx is logged as an `escaped` event
  subject  a reactivex Subject driven by the harness (subject.on_next(v) inside try/except that logs `escaped`)
  cold     cold ProbeSource (same logging, one timeline per subscription)
  iter     reactivex.from_iterable on the test scheduler (its own loop catches: an escape is turned into on_error by the
           *source*, so this kind mostly shows that nothing else breaks; pulls from the iterable are logged)
Secondary sources (boundaries, right sides, openings ...) follow the kind of the main source (iter -> cold).

Oracle, only for cases whose injection actually happened (statement of C09, release read as in C02):
  escaped        no `escaped` event (source / Subject driver / subscribe() / factory call) whose origin is the injected
                 exception;
  escaped_sched  nothing in lab.escaped_to_scheduler whose origin is the injected exception;
  not_delivered  the top subscriber's terminal notification is E ... / wrong_exception ... carrying that very object;
  continued      after that E: no call of any callback probe, no further notification to the top subscriber, no new source
                 subscription, no further pull from the iterable; N*(E|C)? at every probe observer (windows/groups too);
  window_left_open  every window/group observable the failing operator had handed to the subscriber has received a terminal
                 by the time E reaches the subscriber (the operator fails its open windows before its subscriber);
  not_released   every source subscription (main, secondary, inner, duration) has an unsub event at a virtual time <= the
                 time of that E.  As in C02 the windows/groups handed to the subscriber that are still open are
                 unsubscribed by the harness first (same instant, scheduled from inside the E delivery).
"""
from __future__ import annotations

from typing import Any, Callable

import reactivex as rx
import reactivex.operators as ops
from reactivex import Observer
from reactivex.disposable import Disposable
from reactivex.subject import Subject

from .. import registry as R
from ..common import UnitResult, case_rng, chunks, show
from ..vlab import Injected, Lab, SrcErr, gen_value, grammar_ok, show_timeline

ID = "C09"
LEVEL = "fault_enumeration"
RULE = ("complete enumeration of the table (slot = operator/factory x user-callback position) x injection position k in "
        "1..maxk(slot) (4 for per-notification callbacks, 1 for once-per-subscription factories) x source kind "
        "{hot probe, harness-driven Subject, cold probe, from_iterable}; variant 0 = fixed timeline of 6 distinct elements, "
        "operator last; further variants = seeded timeline (2..8 elements, gaps 0/5/10 so that same-instant elements occur, "
        "terminal C/E/never unless the slot needs one, value domain uniq/ints/dups/hashable-falsy) and an optional "
        "error-transparent tail stage map(ident)/filter(always). quick = variants 0-1, thorough = variants 0-47. "
        "non-trivial = the k-th invocation happened and the exception was raised into the library; "
        "distinct = (slot, k, kind, variant); a slot counts as reached when at least one of its injections happened")
ASSUMPTIONS = ["reactivex.testing.TestScheduler is used as the clock (its ordering is checked independently by C28)",
               "probe sources, the Subject driver, probe observers and callback probes are harness code (conforming here)",
               "Observable.subscribe's auto-detach (terminal notification => subscription disposed) is part of the system under test",
               "windows/groups still open when the error reaches the subscriber are unsubscribed by the harness in that instant "
               "before release is judged (C02 reading of 'released')"]
SUB_AT = 200.0
KINDS = ["hot", "subject", "cold", "iter"]
VARIANTS = {"quick": 2, "thorough": 48}
SYMPTOMS = ["escaped", "escaped_sched", "not_delivered", "wrong_exception", "continued", "not_released", "window_left_open", "foreign_escape"]


# ---------------------------------------------------------------------------------- harness sources
class LoggedSubject(Subject):
    """A reactivex Subject whose subscriptions are logged like a ProbeSource's (emission path untouched)."""

    def __init__(self, lab: Lab, name: str) -> None:
        super().__init__()
        self.vlab, self.vname, self.nsub = lab, name, 0

    def _subscribe_core(self, observer: Any, scheduler: Any = None) -> Any:
        sid = self.nsub
        self.nsub += 1
        lab, name = self.vlab, self.vname
        lab.add("sub", name, sid)
        inner = super()._subscribe_core(observer, scheduler)
        done = [False]

        def dispose() -> None:
            if not done[0]:
                done[0] = True
                inner.dispose()
                lab.add("unsub", name, sid)
        return Disposable(dispose)


def drive(lab: Lab, subj: LoggedSubject, k: str, v: Any) -> Callable[[], None]:
    def act() -> None:
        lab.add("emit", subj.vname, 0, k, v)
        try:
            if k == "N":
                subj.on_next(v)
            elif k == "E":
                subj.on_error(v)
            else:
                subj.on_completed()
        except Exception as e:  # came back out of the subject: whoever emits would be hit
            lab.add("escaped", subj.vname, 0, e)
    return act


class LoggedIterable:
    def __init__(self, lab: Lab, name: str, msgs: list) -> None:
        self.lab, self.name, self.msgs = lab, name, msgs

    def __iter__(self) -> Any:
        for (_, k, v) in self.msgs:
            if k == "N":
                self.lab.add("pull", self.name, v)
                yield v
            elif k == "E":
                raise v
            else:
                return


def make_source(lab: Lab, kind: str, name: str, msgs: list) -> Any:
    """msgs: [(t_rel, kind, value)] relative to SUB_AT (hot, subject) / to each subscription (cold); iter ignores times."""
    if kind == "hot":
        return lab.hot(name, [(SUB_AT + t, k, v) for (t, k, v) in msgs])
    if kind == "cold":
        return lab.cold(name, list(msgs))
    if kind == "subject":
        s = LoggedSubject(lab, name)
        for (t, k, v) in msgs:
            lab.at(SUB_AT + t, drive(lab, s, k, v))
        return s
    if kind == "iter":
        return rx.from_iterable(LoggedIterable(lab, name, list(msgs)))
    raise KeyError(kind)


class Box:
    def __init__(self, a: Any) -> None:
        self.a = a

    def __repr__(self) -> str:
        return "Box(%r)" % (self.a,)


class Bad:
    """marker element: the library's own lookup (pluck / pluck_attr) raises on it"""

    def __getitem__(self, key: Any) -> Any:
        raise KeyError(key)

    def __repr__(self) -> str:
        return "Bad()"


# ---------------------------------------------------------------------------------- case context
class Ctx:
    def __init__(self, lab: Lab, slot: "Slot", k: int, kind: str, tl: list, exc_class: str = "Injected") -> None:
        self.lab, self.slot, self.k, self.kind, self.tl = lab, slot, k, kind, tl
        self.exc = None if exc_class == "Injected" else getattr(__import__("builtins"), exc_class)("injected into %s" % slot.id)
        self.probe: Any = None
        self._shared: dict = {}

    @property
    def akind(self) -> str:
        return "cold" if self.kind == "iter" else self.kind

    # sources
    def main(self) -> Any:
        if "main" not in self._shared:
            self._shared["main"] = make_source(self.lab, self.kind, "s", self.tl)
        return self._shared["main"]

    def aux(self, name: str, msgs: list) -> Any:
        return make_source(self.lab, self.akind, name, msgs)

    def shifted(self, name: str, dt: float) -> Any:
        """copy of the main timeline, every message dt later (earlier if negative)"""
        return self.aux(name, [(max(0.5, t + dt), k, v) for (t, k, v) in self.tl])

    def ticks(self, name: str, n: int = 6, first: float = 3.0, step: float = 10.0, end: bool = True) -> Any:
        msgs = [(first + i * step, "N", "%s%d" % (name, i)) for i in range(n)]
        if end:
            msgs.append((first + n * step, "C", None))
        return self.aux(name, msgs)

    def dur(self, t: float = 12.0) -> Any:
        key = ("dur", t)
        if key not in self._shared:
            self._shared[key] = self.lab.cold("dur%g" % t, [(t, "N", 0), (t, "C", None)])
        return self._shared[key]

    def inner(self) -> Any:
        if "inner" not in self._shared:
            self._shared["inner"] = self.lab.cold("inner", [(1, "N", "i1"), (2, "N", "i2"), (3, "C", None)])
        return self._shared["inner"]

    def seq(self, n: int) -> list:
        """n sources meant to run one after the other (for_in): the i-th is active in the i-th slice of 10"""
        out = []
        for i in range(n):
            if self.akind == "cold":
                out.append(make_source(self.lab, self.kind, "q%d" % i, [(3, "N", i), (8, "C", None)]))
            else:
                out.append(make_source(self.lab, self.kind, "q%d" % i, [(10 * i + 3, "N", i), (10 * i + 8, "C", None)]))
        return out

    # callbacks
    def cb(self, impl: Callable[..., Any]) -> Any:
        assert self.probe is None, "one injected callback per case"
        self.probe = self.lab.fn(self.slot.id, impl, raise_at=self.k, exc=self.exc)
        return self.probe

    def fn(self, name: str, impl: Callable[..., Any]) -> Any:
        return self.lab.fn(name, impl)


class Slot:
    def __init__(self, sid: str, build: Callable[[Ctx], Any], term: str | None = None, maxk: int = 4,
                 when: str = "notification", vals: Any = None, natural: Any = None, mech: str | None = None,
                 src: bool = True) -> None:
        self.id, self.build, self.term, self.maxk, self.when = sid, build, term, maxk, when
        self.vals, self.natural, self.mech, self.src = vals, natural, mech or sid, src


SLOTS: list[Slot] = []


def S(sid: str, build: Callable[[Ctx], Any], **kw: Any) -> None:
    SLOTS.append(Slot(sid, build, **kw))


def P(sid: str, opf: Callable[[Ctx], Any], **kw: Any) -> None:
    """single-source slot: main.pipe(opf(ctx))"""
    S(sid, lambda c: c.main().pipe(opf(c)), **kw)


def limit(n: int) -> Callable[..., bool]:
    state = [0]

    def cond(*_: Any) -> bool:
        state[0] += 1
        return state[0] <= n
    return cond


def _pair(v: Any, i: int, k: int) -> Any:
    return (v, i)


# -- element-wise: mappers, predicates (plain and indexed)
P("map:mapper", lambda c: ops.map(c.cb(R.inc)))
P("map_indexed:mapper_indexed", lambda c: ops.map_indexed(c.cb(R.with_index)))
P("filter:predicate", lambda c: ops.filter(c.cb(R.always)))
P("filter_indexed:predicate_indexed", lambda c: ops.filter_indexed(c.cb(lambda v, i: True)))
P("take_while:predicate", lambda c: ops.take_while(c.cb(R.always)))
P("take_while:predicate:inclusive", lambda c: ops.take_while(c.cb(R.always), inclusive=True))
P("take_while_indexed:predicate", lambda c: ops.take_while_indexed(c.cb(lambda v, i: True)))
P("skip_while:predicate", lambda c: ops.skip_while(c.cb(R.always)))
P("skip_while_indexed:predicate", lambda c: ops.skip_while_indexed(c.cb(lambda v, i: True)))
P("starmap:mapper", lambda c: ops.starmap(c.cb(lambda a, b: (b, a))), vals=_pair)
P("starmap_indexed:mapper", lambda c: ops.starmap_indexed(c.cb(lambda a, i: (i, a))), vals=_pair)
P("pluck:missing_key", lambda c: ops.pluck("a"), natural=KeyError,
  vals=lambda v, i, k: Bad() if i == k - 1 else {"a": v})
P("pluck_attr:missing_attribute", lambda c: ops.pluck_attr("a"), natural=AttributeError,
  vals=lambda v, i, k: Bad() if i == k - 1 else Box(v))
P("do_action:on_next", lambda c: ops.do_action(on_next=c.cb(lambda v: None)))
P("do_action:on_error", lambda c: ops.do_action(on_error=c.cb(lambda e: None)), term="E", maxk=1)
P("do_action:on_completed", lambda c: ops.do_action(on_completed=c.cb(lambda: None)), term="C", maxk=1)
P("do:observer.on_next", lambda c: ops.do(Observer(c.cb(lambda v: None))))
P("do:observer.on_error", lambda c: ops.do(Observer(None, c.cb(lambda e: None))), term="E", maxk=1)
P("do:observer.on_completed", lambda c: ops.do(Observer(None, None, c.cb(lambda: None))), term="C", maxk=1)

# -- keys and comparers
P("distinct:key_mapper", lambda c: ops.distinct(c.cb(R.key_repr)))
P("distinct:comparer", lambda c: ops.distinct(None, c.cb(R.eq_never)))
P("distinct:comparer:with_key_mapper", lambda c: ops.distinct(R.key_repr, c.cb(R.eq_never)), mech="distinct:comparer")
P("distinct_until_changed:key_mapper", lambda c: ops.distinct_until_changed(c.cb(R.key_repr)))
P("distinct_until_changed:comparer", lambda c: ops.distinct_until_changed(None, c.cb(R.eq_never)))
P("distinct_until_changed:comparer:with_key_mapper", lambda c: ops.distinct_until_changed(R.key_repr, c.cb(R.eq_default)))
P("min_by:key_mapper", lambda c: ops.min_by(c.cb(R.num)))
P("min_by:comparer", lambda c: ops.min_by(R.num, c.cb(R.cmp_num)))
P("max_by:key_mapper", lambda c: ops.max_by(c.cb(R.num)))
P("max_by:comparer", lambda c: ops.max_by(R.num, c.cb(R.cmp_num)))
P("min:comparer", lambda c: ops.min(c.cb(R.cmp_num)))
P("max:comparer", lambda c: ops.max(c.cb(R.cmp_num)))
P("to_dict:key_mapper", lambda c: ops.to_dict(c.cb(R.key_repr)))
P("to_dict:element_mapper", lambda c: ops.to_dict(R.key_repr, c.cb(R.wrap)))
P("contains:comparer", lambda c: ops.contains("absent", c.cb(R.eq_never)))
S("sequence_equal:comparer:first_driven",
  lambda c: c.main().pipe(ops.sequence_equal(c.shifted("second", -2), c.cb(lambda a, b: True))))
S("sequence_equal:comparer:second_driven",
  lambda c: c.main().pipe(ops.sequence_equal(c.shifted("second", +2), c.cb(lambda a, b: True))))
S("sequence_equal:comparer:iterable",
  lambda c: c.main().pipe(ops.sequence_equal([v for (_, k, v) in c.tl if k == "N"], c.cb(lambda a, b: True))))

# -- aggregates: predicates, key mappers, accumulators
P("average:key_mapper", lambda c: ops.average(c.cb(R.num)))
P("sum:key_mapper", lambda c: ops.sum(c.cb(R.num)))
P("count:predicate", lambda c: ops.count(c.cb(R.always)))
P("first:predicate", lambda c: ops.first(c.cb(R.never_)))
P("first_or_default:predicate", lambda c: ops.first_or_default(c.cb(R.never_), 0))
P("last:predicate", lambda c: ops.last(c.cb(R.always)))
P("last_or_default:predicate", lambda c: ops.last_or_default(0, c.cb(R.always)))
P("single:predicate", lambda c: ops.single(c.cb(R.never_)))
P("single_or_default:predicate", lambda c: ops.single_or_default(c.cb(R.never_), 0))
P("find:predicate", lambda c: ops.find(c.cb(lambda v, i, s: False)))
P("find_index:predicate", lambda c: ops.find_index(c.cb(lambda v, i, s: False)))
P("some:predicate", lambda c: ops.some(c.cb(R.never_)))
P("all:predicate", lambda c: ops.all(c.cb(R.always)))
P("scan:accumulator", lambda c: ops.scan(c.cb(R.acc_pair)))
P("scan:accumulator:seed", lambda c: ops.scan(c.cb(R.acc_pair), seed=0))
P("reduce:accumulator", lambda c: ops.reduce(c.cb(R.acc_pair)))
P("reduce:accumulator:seed", lambda c: ops.reduce(c.cb(R.acc_pair), seed=0))
S("partition:predicate:true_branch", lambda c: c.main().pipe(ops.partition(c.cb(R.always)))[0])
S("partition:predicate:false_branch", lambda c: c.main().pipe(ops.partition(c.cb(R.always)))[1])
S("partition_indexed:predicate:true_branch", lambda c: c.main().pipe(ops.partition_indexed(c.cb(lambda v, i: True)))[0])
S("partition_indexed:predicate:false_branch", lambda c: c.main().pipe(ops.partition_indexed(c.cb(lambda v, i: True)))[1])


# -- mappers that return observables
def _inner1(c: Ctx) -> Callable[[Any], Any]:
    inner = c.inner()
    return lambda v: inner


def _inner2(c: Ctx) -> Callable[[Any, Any], Any]:
    inner = c.inner()
    return lambda v, i: inner


P("flat_map:mapper", lambda c: ops.flat_map(c.cb(_inner1(c))))
P("flat_map_indexed:mapper_indexed", lambda c: ops.flat_map_indexed(c.cb(_inner2(c))))
P("flat_map_latest:mapper", lambda c: ops.flat_map_latest(c.cb(_inner1(c))))
P("concat_map:project", lambda c: ops.concat_map(c.cb(_inner1(c))))
P("switch_map:project", lambda c: ops.switch_map(c.cb(_inner1(c))))
P("switch_map_indexed:project", lambda c: ops.switch_map_indexed(c.cb(_inner2(c))))
P("expand:mapper", lambda c: ops.expand(c.cb(lambda v: rx.empty())))

# -- result mapper behind multi-source combinators
S("zip+starmap:mapper", lambda c: rx.zip(c.main(), c.shifted("other", +1)).pipe(ops.starmap(c.cb(lambda a, b: (b, a)))))
S("combine_latest+starmap:mapper",
  lambda c: rx.combine_latest(c.main(), c.ticks("other", 5, first=1.0)).pipe(ops.starmap(c.cb(lambda a, b: (b, a)))))
S("with_latest_from+starmap:mapper",
  lambda c: c.main().pipe(ops.with_latest_from(c.ticks("other", 1, first=1.0, end=False)), ops.starmap(c.cb(lambda a, b: (b, a)))))
S("zip(operator)+starmap:mapper",
  lambda c: c.main().pipe(ops.zip(c.shifted("other", +1)), ops.starmap(c.cb(lambda a, b: (b, a)))))


# -- grouping: key / element / duration / subject mappers
def _dur1(c: Ctx, t: float = 12.0) -> Callable[[Any], Any]:
    d = c.dur(t)
    return lambda v: d


def _dur0(c: Ctx, t: float = 12.0) -> Callable[[], Any]:
    d = c.dur(t)
    return lambda: d


P("group_by:key_mapper", lambda c: ops.group_by(c.cb(R.key_mod3)))
P("group_by:element_mapper", lambda c: ops.group_by(R.key_mod3, c.cb(R.wrap)))
P("group_by:subject_mapper", lambda c: ops.group_by(R.key_repr, None, c.cb(lambda: Subject())))
P("group_by_until:key_mapper", lambda c: ops.group_by_until(c.cb(R.key_mod3), None, _dur1(c, 25.0)))
P("group_by_until:element_mapper", lambda c: ops.group_by_until(R.key_mod3, c.cb(R.wrap), _dur1(c, 25.0)))
P("group_by_until:duration_mapper", lambda c: ops.group_by_until(R.key_repr, None, c.cb(_dur1(c, 25.0))))
P("group_by_until:subject_mapper", lambda c: ops.group_by_until(R.key_repr, None, _dur1(c, 25.0), c.cb(lambda: Subject())))

# -- duration / closing / timeout / throttle / delay selectors
P("delay_with_mapper:delay_duration_mapper", lambda c: ops.delay_with_mapper(c.cb(_dur1(c, 3.0))))
P("delay_with_mapper:delay_duration_mapper:with_subscription_delay",
  lambda c: ops.delay_with_mapper(c.ticks("subdelay", 1, first=1.0), c.cb(_dur1(c, 3.0))))
P("timeout_with_mapper:timeout_duration_mapper", lambda c: ops.timeout_with_mapper(rx.never(), c.cb(lambda v: rx.never())))
P("throttle_with_mapper:throttle_duration_mapper", lambda c: ops.throttle_with_mapper(c.cb(_dur1(c, 3.0))))
P("window_when:closing_mapper", lambda c: ops.window_when(c.cb(_dur0(c, 12.0))))
P("buffer_when:closing_mapper", lambda c: ops.buffer_when(c.cb(_dur0(c, 12.0))))
P("window_toggle:closing_mapper", lambda c: ops.window_toggle(c.ticks("open", 6), c.cb(_dur1(c, 7.0))))
P("buffer_toggle:closing_mapper", lambda c: ops.buffer_toggle(c.ticks("open", 6), c.cb(_dur1(c, 7.0))))
P("join:left_duration_mapper", lambda c: ops.join(c.ticks("right", 6), c.cb(_dur1(c)), _dur1(c)))
P("join:right_duration_mapper", lambda c: ops.join(c.ticks("right", 6), _dur1(c), c.cb(_dur1(c))))
P("group_join:left_duration_mapper", lambda c: ops.group_join(c.ticks("right", 6), c.cb(_dur1(c)), _dur1(c)))
P("group_join:right_duration_mapper", lambda c: ops.group_join(c.ticks("right", 6), _dur1(c), c.cb(_dur1(c))))

# -- multicast family: subject factories and mappers (called once per subscription, at subscribe time)
P("multicast:subject_factory", lambda c: ops.multicast(subject_factory=c.cb(lambda sch: Subject()), mapper=lambda o: o),
  maxk=1, when="subscribe")
P("multicast:mapper", lambda c: ops.multicast(subject_factory=lambda sch: Subject(), mapper=c.cb(lambda o: o)),
  maxk=1, when="subscribe")
P("publish:mapper", lambda c: ops.publish(c.cb(lambda o: o)), maxk=1, when="subscribe")
P("publish_value:mapper", lambda c: ops.publish_value(0, c.cb(lambda o: o)), maxk=1, when="subscribe")
P("replay:mapper", lambda c: ops.replay(buffer_size=2, mapper=c.cb(lambda o: o)), maxk=1, when="subscribe")

# -- error handling / sequencing: handlers, factories, conditions
P("catch:handler", lambda c: ops.catch(c.cb(lambda e, s: rx.empty())), term="E", maxk=1)


def _oern(c: Ctx, first: bool = False) -> Any:
    f = c.cb(lambda e: rx.empty())
    if first:
        return rx.on_error_resume_next(f, c.main())
    return rx.on_error_resume_next(c.main(), f, f, f, f)


S("on_error_resume_next:factory:after_error", _oern, term="E", mech="on_error_resume_next:factory")
S("on_error_resume_next:factory:after_completion", _oern, term="C", mech="on_error_resume_next:factory")
S("on_error_resume_next:factory:first", lambda c: _oern(c, True), maxk=1, when="subscribe", mech="on_error_resume_next:factory")
P("while_do:condition", lambda c: ops.while_do(c.cb(limit(6))), term="C")
P("do_while:condition", lambda c: ops.do_while(c.cb(limit(6))), term="C")


def _for_in(c: Ctx) -> Any:
    srcs = c.seq(5)
    return rx.for_in(range(5), c.cb(lambda i: srcs[i]))


S("for_in:mapper", _for_in)


def _main_factory(c: Ctx, nargs: int) -> Callable[..., Any]:
    m = c.main()
    return (lambda: m) if nargs == 0 else (lambda a: m)


S("defer:factory", lambda c: rx.defer(c.cb(_main_factory(c, 1))), maxk=1, when="subscribe")
S("using:resource_factory", lambda c: rx.using(c.cb(lambda: Disposable()), _main_factory(c, 1)), maxk=1, when="subscribe")
S("using:observable_factory", lambda c: rx.using(lambda: Disposable(), c.cb(_main_factory(c, 1))), maxk=1, when="subscribe")


def _case(c: Ctx) -> Any:
    m = c.main()
    return rx.case(c.cb(lambda: 1), {1: m})


S("case:mapper", _case, maxk=1, when="subscribe")
S("if_then:condition", lambda c: rx.if_then(c.cb(lambda: True), c.main()), maxk=1, when="subscribe")

# -- source factories driven by the scheduler / a callback (no upstream source)
S("generate:condition", lambda c: rx.generate(0, c.cb(lambda s: s < 8), lambda s: s + 1), src=False)
S("generate:iterate", lambda c: rx.generate(0, lambda s: s < 8, c.cb(lambda s: s + 1)), src=False)
S("generate_with_relative_time:condition",
  lambda c: rx.generate_with_relative_time(0, c.cb(lambda s: s < 8), lambda s: s + 1, lambda s: 5.0), src=False)
S("generate_with_relative_time:iterate",
  lambda c: rx.generate_with_relative_time(0, lambda s: s < 8, c.cb(lambda s: s + 1), lambda s: 5.0), src=False)
S("generate_with_relative_time:time_mapper",
  lambda c: rx.generate_with_relative_time(0, lambda s: s < 8, lambda s: s + 1, c.cb(lambda s: 5.0)), src=False)


def _from_callback(c: Ctx) -> Any:
    lab = c.lab

    def func(a: Any, handler: Callable[..., None]) -> None:
        def fire() -> None:
            lab.add("emit", "callback", 0, "N", a)
            try:
                handler(a, 2)
            except Exception as e:
                lab.add("escaped", "callback", 0, e)
        lab.at(SUB_AT + 10, fire)
    return rx.from_callback(func, c.cb(lambda args: args))(7)


S("from_callback:mapper", _from_callback, src=False, maxk=1)
S("start:func", lambda c: rx.start(c.cb(lambda: 1), c.lab.ts), src=False, maxk=1)
S("to_async:func", lambda c: rx.to_async(c.cb(lambda a, b: a + b), c.lab.ts)(1, 2), src=False, maxk=1)
S("from_callable:supplier", lambda c: rx.from_callable(c.cb(lambda: 1)), src=False, maxk=1)
S("start_async:function_async", lambda c: rx.start_async(c.cb(lambda: None)), src=False, maxk=1, when="build")

N_SLOTS = 115   # literal on purpose: if the table shrinks, REQUIRED makes the run inconclusive
assert len({s.id for s in SLOTS}) == len(SLOTS)

BASE: list[tuple[int, int, str]] = [(si, k, kind) for si, s in enumerate(SLOTS) for k in range(1, s.maxk + 1)
                                    for kind in (KINDS if s.src else ["none"])]
REQUIRED = {
    "set:slots": N_SLOTS,
    "set:slot_kind": 400,
    "set:kinds": 5,
    "injections": {"quick": 2400, "thorough": 56000},
    "subscriptions_judged_for_release": {"quick": 3000, "thorough": 70000},
}


def exhaustive(tier: str) -> bool:
    return True   # every (slot, k, source kind) of the table is executed at least in variant 0


def units(tier: str, seed: int) -> list[dict]:
    total = len(BASE) * VARIANTS[tier]
    return [{"lo": lo, "hi": hi, "seed": seed} for lo, hi in chunks(total, 16 if tier == "quick" else 64)]


# ---------------------------------------------------------------------------------- one case
def gen_case(seed: int, idx: int) -> dict:
    variant, b = divmod(idx, len(BASE))
    si, k, kind = BASE[b]
    slot = SLOTS[si]
    r = case_rng(seed, ID, idx)
    if variant == 0:
        n, gaps, term, domain, tail = 6, [10] * 7, slot.term or "C", "uniq", None
    else:
        n = r.choice([2, 3, 4, 5, 5, 6, 6, 7, 8])
        gaps = [r.choice((0, 5, 10, 10)) for _ in range(n + 1)]
        term = slot.term or r.choice(["C", "C", "E", None])
        domain = r.choice(["uniq", "uniq", "ints", "dups", "hfalsy"])
        tail = r.choice([None, None, "map", "filter"])
    if kind == "iter" and term is None:
        term = "C"
    uniq = [0]
    t = 5.0
    tl: list = []
    for i in range(n):
        t += gaps[i]
        v = gen_value(r, domain, uniq)
        if slot.vals is not None:
            v = slot.vals(v, i, k)
        tl.append((t, "N", v))
    t += max(gaps[n], 5)
    if term == "C":
        tl.append((t, "C", None))
    elif term == "E":
        tl.append((t, "E", SrcErr("src@%g" % t)))
    # the class of the injected exception: library code written in EAFP style (try: d[key] / next(it) / getattr ... except KeyError /
    # StopIteration / AttributeError) must not mistake the CALLBACK's exception for its own control flow
    exc_class = "Injected" if variant == 0 else r.choice(["Injected", "Injected", "KeyError", "IndexError", "AttributeError", "TypeError",
                                                          "ValueError", "StopIteration", "LookupError", "AssertionError", "RuntimeError",
                                                          "ArithmeticError", "ZeroDivisionError"])
    return {"slot": slot, "k": k, "kind": kind, "variant": variant, "tl": tl, "tail": tail, "domain": domain, "exc_class": exc_class}


def origin_is(e: Any, target: Any, natural: Any) -> bool:
    seen: set = set()
    while e is not None and id(e) not in seen:
        seen.add(id(e))
        if target is not None and e is target:
            return True
        if natural is not None and isinstance(e, natural):
            return True
        e = e.__cause__ or e.__context__
    return False


def run_case(seed: int, idx: int, res: UnitResult) -> None:
    case = gen_case(seed, idx)
    slot, k, kind, tl = case["slot"], case["k"], case["kind"], case["tl"]
    lab = Lab()
    ctx = Ctx(lab, slot, k, kind, tl, case.get("exc_class", "Injected"))
    pipeline: Any = None
    try:
        pipeline = slot.build(ctx)
    except Exception as e:          # a factory invoked while the observable is built let the exception out to its caller
        if not (isinstance(e, Injected) or e is ctx.exc):
            raise
        lab.add("escaped", "build()", 0, e)
    if pipeline is not None and case["tail"] == "map":
        pipeline = pipeline.pipe(ops.map(ctx.fn("tail:map", R.ident)))
    elif pipeline is not None and case["tail"] == "filter":
        pipeline = pipeline.pipe(ops.filter(ctx.fn("tail:filter", R.always)))

    state: dict = {"cleanup": False, "cleaned": 0}

    def cleanup() -> None:
        for ch in top.tree()[1:]:
            if ch.terminal is None and ch.dispose_seq is None:
                state["cleaned"] += 1
                ch.dispose()

    def on_recv(kind_: str, value: Any, obs: Any) -> None:
        if kind_ == "E" and not state["cleanup"]:
            state["cleanup"] = True
            lab.at(lab.now(), cleanup)

    top = lab.observer("top", on_recv=on_recv)

    def do_sub() -> None:
        try:
            top.subscribe_to(pipeline)
        except Exception as e:     # came out of subscribe(): the subscribing caller is hit
            lab.add("escaped", "subscribe()", 0, e)
    if pipeline is not None:
        lab.at(SUB_AT, do_sub)
    lab.run()

    # ---- did the fault happen?
    probe = ctx.probe
    injected: Any = None
    inj_seq: int | None = None
    if slot.natural is None:
        assert probe is not None, "slot %s built no injected callback" % slot.id
        injected = probe.injected
        if injected is not None:
            inj_seq = next(e[0] for e in lab.ev if e[2] == "inject" and e[3] == "cb:" + probe.name)
    else:
        hit = [e for e in lab.ev if (e[2] == "emit" and isinstance(e[6], Bad)) or (e[2] == "pull" and isinstance(e[4], Bad))]
        if hit:
            inj_seq = hit[0][0]
    desc = {"slot": slot.id, "k": k, "kind": kind, "variant": case["variant"], "tail": case["tail"], "exception_class": case.get("exc_class", "Injected"),
            "timeline": show_timeline(tl) if slot.src else None}
    if inj_seq is None:
        res.case(key=None, nontrivial=False)
        res.count("kth_call_not_reached")
        return

    def mine(e: Any) -> bool:
        return origin_is(e, injected, slot.natural)

    found: list[tuple[str, Any]] = []
    for e in lab.ev:
        if e[2] == "escaped" and e[0] > inj_seq:
            if mine(e[5]):
                found.append(("escaped", "exception came back out of %s (sid %s) at t=%g: %r" % (e[3], e[4], e[1], e[5])))
            else:
                found.append(("foreign_escape", "another exception came out of %s at t=%g: %r" % (e[3], e[1], e[5])))
    for e in lab.escaped_to_scheduler:
        if mine(e):
            found.append(("escaped_sched", "exception escaped into the scheduler (TestScheduler.start()): %r" % (e,)))
        else:
            found.append(("foreign_escape", "another exception escaped into the scheduler: %r" % (e,)))
    term = top.terminal
    t_err: float | None = None
    if term is None or term[0] != "E":
        found.append(("not_delivered", "top subscriber's terminal notification is %s, expected E(%r)" % (
            "absent" if term is None else "C", injected if injected is not None else slot.natural)))
    # (PEP 479: a StopIteration that leaves a generator frame arrives as RuntimeError(cause=that StopIteration): still "the exception")
    elif not ((term[1] is injected or (isinstance(injected, StopIteration) and isinstance(term[1], RuntimeError) and origin_is(term[1], injected, None)))
              if slot.natural is None else isinstance(term[1], slot.natural)):
        found.append(("wrong_exception", "top subscriber got E(%r), expected the injected object %r" % (term[1], injected)))
    else:
        t_err, seq_err = term[2], term[3]
        # a window/group that is still open keeps its sources legitimately (C02) until the harness has unsubscribed it
        quiet_from = seq_err
        for ch in top.tree()[1:]:
            ends = [x for x in (ch.terminal[3] if ch.terminal is not None else None, ch.dispose_seq) if x is not None]
            if ends:
                quiet_from = max(quiet_from, min(ends))
        if quiet_from > seq_err:
            res.count("injections:window_or_group_outlived_the_error")
        late = [e for e in lab.ev if (e[0] > quiet_from and e[2] in ("cb", "pull", "sub")) or
                (e[0] > seq_err and e[2] == "recv" and e[3] == "top")]
        if late:
            found.append(("continued", "after E (seq %d, t=%g): %s" % (seq_err, t_err, show([e[1:5] for e in late[:4]]))))
        for o in top.tree():
            if not grammar_ok(o.kinds):
                found.append(("continued", "observer %s saw %s (not N*(E|C)?)" % (o.name, o.kinds)))
        nsubs = 0
        for (name, sid), (sub, unsub) in lab.open_subscriptions().items():
            nsubs += 1
            if unsub is None:
                found.append(("not_released", "subscription %s#%s (opened t=%g) never released; E at t=%g" % (name, sid, sub[1], t_err)))
            elif unsub[1] > t_err:
                found.append(("not_released", "subscription %s#%s released at t=%g, later than E at t=%g" % (name, sid, unsub[1], t_err)))
        res.count("subscriptions_judged_for_release", nsubs)
        res.count("open_windows_or_groups_unsubscribed_by_harness", state["cleaned"])
        if state["cleaned"]:
            # the operator whose callback failed hands out windows/groups: it ends them with the failure before (or when) it
            # fails its subscriber - a window left open never terminates and keeps the sources subscribed through its reference
            found.append(("window_left_open", "%d window/group observable(s) handed to the subscriber had received no terminal when E reached it" % state["cleaned"]))

    res.case(key={"slot": slot.id, "k": k, "kind": kind, "variant": case["variant"]}, nontrivial=True,
             sample={"case": desc, "injected_at_t": lab.ev[inj_seq][1], "top": [[r_[2], r_[0], show(r_[1])] for r_ in top.recv[-4:]],
                     "callback_calls": probe.calls if probe is not None else None,
                     "subscriptions": [[e[2], e[3], e[4], e[1]] for e in lab.ev if e[2] in ("sub", "unsub")][:12]})
    res.count("injections")
    res.count("injections:%s" % kind)
    res.count("injections:k=%d" % k)
    res.count("injections:%s_time" % slot.when)
    if case["tail"]:
        res.count("injections:with_tail_stage")
    if len({m[0] for m in tl if m[1] == "N"}) < len([m for m in tl if m[1] == "N"]):
        res.count("injections:timeline_with_same_instant_elements")
    res.note("slots", slot.id)
    res.note("slot_kind", "%s|%s" % (slot.id, kind))
    res.note("kinds", kind)
    if found:
        order = {s: i for i, s in enumerate(SYMPTOMS)}
        found.sort(key=lambda f: order[f[0]])
        symptom = found[0][0]
        res.violation("C09:%s:%s" % (slot.mech, symptom),
                      {"case": desc, "symptom": symptom, "findings": [f[1] for f in found[:6]],
                       "top_received": [[r_[2], r_[0], show(r_[1])] for r_ in top.recv[-6:]],
                       "callback_calls": probe.calls if probe is not None else None,
                       "events_after_injection": show([e[1:6] for e in lab.ev if e[0] >= inj_seq][:14])},
                      {"seed": seed, "idx": idx})


def run_unit(unit: dict, res: UnitResult) -> None:
    for idx in range(unit["lo"], unit["hi"]):
        run_case(unit["seed"], idx, res)


def replay(rep: dict, res: UnitResult) -> None:
    run_case(rep["seed"], rep["idx"], res)
