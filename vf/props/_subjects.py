"""Shared by C20-C23 (and reused by C24): call-history generator, probe observers with reaction plans,
the reference model of the four subject kinds, and the two ways the model is compared with an execution.

* ``SubjectCore``    the state machine that the property statements describe (who is subscribed, terminal state,
                     current value / last value / retained values) -- written from the statements, it never looks
                     at the implementation.
* ``Sim``            *sequential (predictive) model*: replays a call history against ``SubjectCore`` with simulated
                     observers that follow the same reaction plans as the real probes.  Used for the synchronous
                     subjects (C20, C21, C23): per-observer expected sequences and per-call expected outcomes.
* ``TraceMonitor``   *trace-consuming model* for deliveries that go through a scheduler (C22, C24): what every
                     observer is owed is computed from ``SubjectCore`` at the moment a call is made; each observed
                     reception must be the head of that observer's queue; what was owed before the instant of an
                     unsubscription must have been delivered, what was owed in the same instant may or may not
                     (counted as a tie -- the order of same-instant scheduler actions is not the subject's business).
"""
from __future__ import annotations

from collections import deque
from typing import Any, Callable

from reactivex.internal.exceptions import DisposedException

from ..common import show, strict
from ..vlab import SrcErr

FALSY_POOL = [None, 0, False, "", 0.0, ()]
KINDS = ("subject", "behavior", "replay", "async")


class FalsyErr(SrcErr):
    """an exception object whose truth value is False (e.g. an error container with __len__ == 0)"""

    def __bool__(self) -> bool:
        return False


class _DisposedMarker:
    def __repr__(self) -> str:
        return "<DisposedException>"


DISPOSED = _DisposedMarker()   # expected value of an on_error that carries the subscribe-time DisposedException


# ------------------------------------------------------------------------------------------ values

class ValueGen:
    """Values that are unique (under `strict`) within one history; falsy ones are used at most once each."""

    def __init__(self, r: Any, falsy_rate: float = 0.35, falsy_err_rate: float = 0.04) -> None:
        self.r = r
        self.pool = list(FALSY_POOL)
        r.shuffle(self.pool)
        self.falsy_rate, self.falsy_err_rate = falsy_rate, falsy_err_rate
        self.n = 100
        self.ne = 0

    def value(self, force_falsy: bool = False) -> Any:
        if self.pool and (force_falsy or self.r.random() < self.falsy_rate):
            return self.pool.pop()
        self.n += 1
        return self.n

    def error(self) -> Exception:
        self.ne += 1
        cls = FalsyErr if self.r.random() < self.falsy_err_rate else SrcErr
        return cls("e%d" % self.ne)


def is_falsy_value(v: Any) -> bool:
    return not isinstance(v, BaseException) and not v


# ------------------------------------------------------------------------------------------ history generator

def new_observer(r: Any, st: dict, depth: int = 0, after_dispose: bool = False, react_p: float = 0.45) -> int:
    """Allocates an observer id and its plan: how it subscribes and what it does inside its k-th callback."""
    oid = st["next_id"]
    st["next_id"] += 1
    if after_dispose and r.random() < 0.4:
        mode = "next_only"         # no on_error supplied: a subscribe-time exception can only be raised
    else:
        mode = r.choice(["observer", "callbacks"])
    react: dict = {}
    if depth <= 2 and r.random() < react_p / (1 + depth):
        for _ in range(r.choice([1, 1, 2])):
            k = r.choice([1, 1, 2, 2, 3, 4])
            if k in react:
                continue
            c = r.random()
            if c < 0.35:
                react[k] = ("unsub_self",)
            elif c < 0.70:
                react[k] = ("unsub", r.randrange(0, max(1, st["next_id"])))
            elif st["next_id"] < st["max_obs"]:
                react[k] = ("sub", new_observer(r, st, depth + 1, False, react_p))
    st["plans"][oid] = {"mode": mode, "react": react}
    return oid


PROFILES = {
    #            sub   unsub next  error compl dispose
    "plain":    (0.28, 0.12, 0.42, 0.05, 0.08, 0.03),
    "late":     (0.34, 0.08, 0.28, 0.12, 0.14, 0.03),
    "dispose":  (0.26, 0.08, 0.32, 0.08, 0.10, 0.12),
    "values":   (0.22, 0.10, 0.56, 0.03, 0.07, 0.02),
}
OPS6 = ("sub", "unsub", "next", "error", "completed", "dispose")


def gen_history(r: Any, maxlen: int = 14, react_p: float = 0.45, falsy_rate: float = 0.35,
                weights: dict | None = None) -> dict:
    """1..maxlen calls from {subscribe(i), unsubscribe(i), on_next(v), on_error(e), on_completed(), dispose()}.
    Every subscribe uses a fresh observer; unsubscribe(i) may name an observer that is not (or no longer, or
    not yet) subscribed.  Emission from inside a callback is never generated."""
    vg = ValueGen(r, falsy_rate)
    st = {"next_id": 0, "plans": {}, "max_obs": 9}
    n = max(r.randint(1, maxlen), r.randint(1, maxlen))
    profile = r.choice(sorted(PROFILES))
    w = PROFILES[profile]
    if weights is not None:
        profile, w = "custom", tuple(weights[o] for o in OPS6)
    calls: list[tuple] = []
    disposed = False
    top_ids: list[int] = []
    for k in range(n):
        op = r.choices(OPS6, weights=w)[0]
        if k == 0 and r.random() < 0.6:
            op = "sub"
        if k < n // 3 and op in ("error", "completed", "dispose") and r.random() < 0.7:
            op = r.choice(["sub", "next"])
        if op == "sub" and st["next_id"] >= st["max_obs"]:
            op = "next"
        if op == "sub":
            oid = new_observer(r, st, 0, disposed, react_p)
            top_ids.append(oid)
            calls.append(("sub", oid))
        elif op == "unsub":
            if top_ids and r.random() < 0.8:
                calls.append(("unsub", r.choice(top_ids)))
            else:
                calls.append(("unsub", r.randrange(0, max(1, st["next_id"]))))
        elif op == "next":
            calls.append(("next", vg.value()))
        elif op == "error":
            calls.append(("error", vg.error()))
        elif op == "completed":
            calls.append(("completed",))
        else:
            calls.append(("dispose",))
            disposed = True
    return {"calls": calls, "plans": st["plans"], "profile": profile, "vg": vg}


def describe_history(h: dict) -> dict:
    out = {"calls": [[c[0]] + [show(x) for x in c[1:]] for c in h["calls"]],
           "observers": {str(i): {"mode": p["mode"], "react": {str(k): list(a) for k, a in sorted(p["react"].items())}}
                         for i, p in sorted(h["plans"].items()) if p["react"] or p["mode"] == "next_only"}}
    for k in ("initial", "buffer_size", "window", "times"):
        if k in h:
            out[k] = show(h[k])
    return out


# ------------------------------------------------------------------------------------------ probes / runtime

class Obs:
    """Probe observer: records (kind, value, time); inside its k-th callback it may unsubscribe itself, unsubscribe
    another observer or subscribe a new one (never emits)."""

    def __init__(self, rt: "Runtime", oid: int, plan: dict) -> None:
        self.rt, self.oid, self.plan = rt, oid, plan
        self.recv: list[tuple] = []
        self.state = "new"          # new / subscribing / subscribed / failed
        self.sub: Any = None
        self.pending = False

    def on_next(self, v: Any) -> None:
        self._got("N", v)

    def on_error(self, e: Exception) -> None:
        self._got("E", e)

    def on_completed(self) -> None:
        self._got("C", None)

    def _got(self, k: str, v: Any) -> None:
        self.recv.append((k, v, self.rt.now()))
        self.rt.log("recv", self.oid, k, v)
        if k == "E" and isinstance(v, DisposedException):
            return                  # the subscribe-time failure report: no reaction
        act = self.plan["react"].get(len(self.recv))
        if act is not None:
            self.rt.react(self, act)

    def items(self) -> list[tuple]:
        return [(k, v) for (k, v, _) in self.recv]


class Runtime:
    """Executes subscribe/unsubscribe (top-level or from inside a callback) against `target`, never lets an
    exception travel back into the library, and logs everything through `log(kind, *data)`."""

    def __init__(self, plans: dict, log: Callable[..., Any], now: Callable[[], float], scheduler: Any = None) -> None:
        self.plans, self.log, self.now, self.scheduler = plans, log, now, scheduler
        self.target: Any = None
        self.obs: dict[int, Obs] = {}
        self.unsub_errors: list[str] = []

    def get(self, oid: int) -> Obs:
        o = self.obs.get(oid)
        if o is None:
            o = self.obs[oid] = Obs(self, oid, self.plans.get(oid) or {"mode": "observer", "react": {}})
        return o

    def subscribe(self, oid: int, nested: bool = False) -> str:
        o = self.get(oid)
        if o.state != "new":
            self.log("sub_skip", oid)
            return "skip"
        o.state = "subscribing"
        self.log("sub_begin", oid, nested)
        kw = {"scheduler": self.scheduler} if self.scheduler is not None else {}
        outcome = "ok"
        try:
            mode = o.plan["mode"]
            if mode == "observer":
                o.sub = self.target.subscribe(o, **kw)
            elif mode == "callbacks":
                o.sub = self.target.subscribe(o.on_next, o.on_error, o.on_completed, **kw)
            else:
                o.sub = self.target.subscribe(o.on_next, None, o.on_completed, **kw)
        except DisposedException:
            outcome = "raised_disposed"
        except Exception as e:  # noqa: BLE001 - reported as an outcome
            outcome = "raised:%s" % type(e).__name__
        self.log("sub_end", oid, outcome)
        if o.sub is None:
            o.state = "failed"
        else:
            o.state = "subscribed"
            if o.pending:
                self.unsub(oid, nested)
        return outcome

    def unsub(self, oid: int, nested: bool = False) -> None:
        o = self.get(oid)
        if o.state in ("new", "failed"):
            self.log("unsub_noop", oid)
            return
        if o.state == "subscribing":     # dispose() requested before subscribe() returned: applied right after
            o.pending = True
            self.log("unsub_pending", oid)
            return
        self.log("unsub_begin", oid, nested)
        outcome = "ok"
        try:
            o.sub.dispose()
        except Exception as e:  # noqa: BLE001
            outcome = "raised:%s" % type(e).__name__
            self.unsub_errors.append("unsubscribe(%d) raised %r" % (oid, e))
        self.log("unsub_end", oid, outcome)

    def react(self, o: Obs, act: tuple) -> None:
        if act[0] == "unsub_self":
            self.unsub(o.oid, True)
        elif act[0] == "unsub":
            self.unsub(act[1], True)
        elif act[0] == "sub":
            self.subscribe(act[1], True)

    def subject_call(self, subj: Any, idx: int, c: tuple) -> str:
        """One top-level call of a subject history."""
        self.log("call_begin", idx, c[0])
        outcome = "ok"
        if c[0] == "sub":
            outcome = self.subscribe(c[1])
        elif c[0] == "unsub":
            self.unsub(c[1])
        else:
            try:
                if c[0] == "next":
                    subj.on_next(c[1])
                elif c[0] == "error":
                    subj.on_error(c[1])
                elif c[0] == "completed":
                    subj.on_completed()
                elif c[0] == "dispose":
                    subj.dispose()
            except DisposedException:
                outcome = "raised_disposed"
            except Exception as e:  # noqa: BLE001
                outcome = "raised:%s" % type(e).__name__
        self.log("call_end", idx, outcome)
        return outcome


# ------------------------------------------------------------------------------------------ reference model

class ModelDisposed(Exception):
    """the model's answer 'this call must raise DisposedException'"""


class SubjectCore:
    """What the statements of C20-C23 say a subject is.  Observers are opaque keys.

    subscribe(key, t) -> items delivered because of the subscription itself
    emit(kind, value, t) -> [(key, items)] in subscription order, for the observers subscribed when the call is made
    """

    def __init__(self, kind: str, initial: Any = None, buffer_size: int | None = None, window: float | None = None) -> None:
        assert kind in KINDS
        self.kind = kind
        self.subs: list = []
        self.terminal: tuple | None = None
        self.disposed = False
        self.current = initial            # behavior
        self.has_last, self.last = False, None   # async
        self.buffer: list[tuple] = []     # replay: (t, value), never trimmed; `retained` selects
        self.buffer_size, self.window = buffer_size, window
        self.boundary = {"age_eq_window": 0, "age_gt_window": 0, "count_trimmed": 0}

    def retained(self, t: float) -> list:
        young = []
        for (tv, v) in self.buffer:
            age = t - tv
            if self.window is None or age <= self.window:
                young.append(v)
                if self.window is not None and age == self.window:
                    self.boundary["age_eq_window"] += 1
            else:
                self.boundary["age_gt_window"] += 1
        if self.buffer_size is not None:
            if len(young) > self.buffer_size:
                self.boundary["count_trimmed"] += 1
            young = young[max(0, len(young) - self.buffer_size):] if self.buffer_size > 0 else []
        return young

    def subscribe(self, key: Any, t: float = 0) -> list[tuple]:
        if self.disposed:
            raise ModelDisposed()
        k = self.kind
        if self.terminal is not None:
            if k == "replay":
                return [("N", v) for v in self.retained(t)] + [self.terminal]
            if k == "async" and self.terminal[0] == "C" and self.has_last:
                return [("N", self.last), self.terminal]
            return [self.terminal]
        self.subs.append(key)
        if k == "behavior":
            return [("N", self.current)]
        if k == "replay":
            return [("N", v) for v in self.retained(t)]
        return []

    def unsubscribe(self, key: Any) -> None:
        if key in self.subs:
            self.subs.remove(key)

    def emit(self, kind: str, value: Any = None, t: float = 0) -> list[tuple]:
        if self.disposed:
            raise ModelDisposed()
        if self.terminal is not None:
            return []
        if kind == "N":
            if self.kind == "behavior":
                self.current = value
            elif self.kind == "async":
                self.has_last, self.last = True, value
                return []
            elif self.kind == "replay":
                self.buffer.append((t, value))
            return [(key, [("N", value)]) for key in list(self.subs)]
        self.terminal = (kind, value if kind == "E" else None)
        items = [self.terminal]
        if self.kind == "async" and kind == "C" and self.has_last:
            items = [("N", self.last), self.terminal]
        out = [(key, list(items)) for key in self.subs]
        self.subs = []
        return out

    def dispose(self) -> None:
        self.disposed = True
        self.subs = []
        self.buffer = []


def same_item(exp: tuple, got: tuple) -> bool:
    if exp[0] != got[0]:
        return False
    if exp[0] == "N":
        return strict(exp[1]) == strict(got[1])
    if exp[0] == "E":
        if exp[1] is DISPOSED:
            return isinstance(got[1], DisposedException)
        return exp[1] is got[1]
    return True


def show_items(items: Any) -> list:
    return [[k, show(v) if v is not DISPOSED else "<DisposedException>"] for (k, v) in items]


class Sim:
    """Sequential model: the history is replayed call by call; a broadcast visits the observers subscribed when
    the call is made, in subscription order, skipping those whose dispose() has returned meanwhile; an observer
    subscribed from inside a callback of the broadcast is not part of it.  Simulated observers follow the plans."""

    def __init__(self, core: SubjectCore, plans: dict) -> None:
        self.core, self.plans = core, plans
        self.exp: dict[int, list] = {}
        self.state: dict[int, str] = {}
        self.pending: set[int] = set()
        self.silenced: set[int] = set()
        self.sub_disposed: set[int] = set()     # observers whose subscribe hit a disposed subject
        self.ctx: dict[int, set] = {}           # context labels per observer, for mechanism keys
        self.depth = 0

    def label(self, oid: int, what: str) -> None:
        self.ctx.setdefault(oid, set()).add(what)

    def deliver(self, oid: int, item: tuple) -> None:
        if oid in self.silenced:
            return
        lst = self.exp.setdefault(oid, [])
        lst.append(item)
        act = (self.plans.get(oid) or {"react": {}})["react"].get(len(lst))
        if act is not None:
            self.depth += 1
            if act[0] == "unsub_self":
                self.unsub(oid)
            elif act[0] == "unsub":
                self.unsub(act[1])
            elif act[0] == "sub":
                self.subscribe(act[1])
            self.depth -= 1

    def subscribe(self, oid: int, t: float = 0) -> str:
        if self.state.get(oid, "new") != "new":
            return "skip"
        self.state[oid] = "subscribing"
        self.exp.setdefault(oid, [])
        if self.depth:
            self.label(oid, "subscribed_in_callback")
        try:
            if self.core.terminal is not None and not self.core.disposed:
                self.label(oid, "late_subscriber")
            items = self.core.subscribe(oid, t)
        except ModelDisposed:
            self.state[oid] = "failed"       # either outcome: raised (state failed) or delivered to on_error
            self.sub_disposed.add(oid)
            return "disposed"
        for it in items:
            self.deliver(oid, it)
        self.state[oid] = "subscribed"
        if oid in self.pending:
            self.pending.discard(oid)
            self.unsub(oid)
        return "ok"

    def unsub(self, oid: int) -> None:
        s = self.state.get(oid, "new")
        if s in ("new", "failed"):
            return
        if s == "subscribing":
            self.pending.add(oid)
            return
        if oid not in self.silenced:
            self.silenced.add(oid)
            self.core.unsubscribe(oid)
            if self.depth:
                self.label(oid, "unsubscribed_in_callback")

    def call(self, c: tuple, t: float = 0) -> str:
        """-> expected outcome 'ok' | 'disposed'"""
        if c[0] == "sub":
            return self.subscribe(c[1], t)
        if c[0] == "unsub":
            self.unsub(c[1])
            return "ok"
        if c[0] == "dispose":
            self.core.dispose()
            return "ok"
        kind = {"next": "N", "error": "E", "completed": "C"}[c[0]]
        try:
            deliveries = self.core.emit(kind, c[1] if len(c) > 1 else None, t)
        except ModelDisposed:
            return "disposed"
        self.depth += 1
        for (oid, items) in deliveries:
            for it in items:
                self.deliver(oid, it)
        self.depth -= 1
        return "ok"


def diff_kind(exp: list, got: list) -> tuple[str, int]:
    """-> (missing|extra|wrong|duplicate, index of first divergence)"""
    n = 0
    while n < len(exp) and n < len(got) and same_item(exp[n], got[n]):
        n += 1
    if n == len(got):
        return "missing", n
    if n == len(exp):
        if any(same_item(e, got[n]) for e in exp):
            return "duplicate", n
        return "extra", n
    if any(same_item(e, got[n]) for e in exp[:n]):
        return "duplicate", n
    return "wrong", n


def run_sync_history(pid: str, kind: str, h: dict, make_subject: Callable[[], Any]) -> dict:
    """Runs a history against a synchronous subject and compares with the sequential model.
    -> {"why": None|str, "mech": str, "expected": ..., "observed": ..., "stats": {...}}"""
    log: list = []
    rt = Runtime(h["plans"], lambda *a: log.append(a), lambda: 0.0)
    subj = make_subject()
    rt.target = subj
    outcomes = [rt.subject_call(subj, idx, c) for idx, c in enumerate(h["calls"])]

    core = SubjectCore(kind, initial=h.get("initial"))
    sim = Sim(core, h["plans"])
    exp_out = [sim.call(c) for c in h["calls"]]

    stats = {"deliveries": sum(len(v) for v in sim.exp.values()), "observers": len(sim.state),
             "falsy_delivered": sum(1 for v in sim.exp.values() for (k, x) in v if k == "N" and is_falsy_value(x)),
             "late_subscribers": sum(1 for c in sim.ctx.values() if "late_subscriber" in c),
             "unsub_in_callback": sum(1 for c in sim.ctx.values() if "unsubscribed_in_callback" in c),
             "sub_in_callback": sum(1 for c in sim.ctx.values() if "subscribed_in_callback" in c),
             "disposed_calls": sum(1 for o in exp_out if o == "disposed"),
             "falsy_error_late": 0}
    res = {"why": None, "mech": "", "stats": stats,
           "expected": {str(i): show_items(v) for i, v in sorted(sim.exp.items())},
           "observed": {str(i): show_items(o.items()) for i, o in sorted(rt.obs.items())},
           "outcomes": outcomes}
    if core.terminal is not None and core.terminal[0] == "E" and not core.terminal[1] and stats["late_subscribers"]:
        stats["falsy_error_late"] = 1

    # 1. call outcomes (DisposedException rules)
    for idx, (c, eo, oo) in enumerate(zip(h["calls"], exp_out, outcomes)):
        if c[0] == "sub" and eo == "disposed":
            o = rt.obs[c[1]]
            got = o.items()
            raised = oo == "raised_disposed" and not got
            delivered = oo == "ok" and len(got) == 1 and same_item(("E", DISPOSED), got[0]) and o.plan["mode"] != "next_only"
            if not (raised or delivered):
                res["why"] = "call #%d subscribe(%d) on a disposed subject: outcome %s, observer got %s" % (idx, c[1], oo, show_items(got))
                res["mech"] = "%s:disposed:subscribe:%s" % (pid, "not_reported" if oo == "ok" else "other_exception")
                return res
            continue
        want = "raised_disposed" if eo == "disposed" else "ok"
        if c[0] == "sub" and oo == "skip":
            continue
        if oo != want:
            res["why"] = "call #%d %s: expected %s, observed %s" % (idx, c[0], want, oo)
            res["mech"] = "%s:disposed:%s:%s" % (pid, c[0], "not_raised" if want != "ok" else "unexpected_exception")
            return res
    if rt.unsub_errors:
        res["why"] = rt.unsub_errors[0]
        res["mech"] = "%s:unsubscribe:raised" % pid
        return res
    # 2. per-observer sequences
    for oid in sorted(set(sim.exp) | set(rt.obs)):
        if oid in sim.sub_disposed:
            continue
        exp = sim.exp.get(oid, [])
        got = rt.obs[oid].items() if oid in rt.obs else []
        if len(exp) == len(got) and all(same_item(a, b) for a, b in zip(exp, got)):
            continue
        dk, at = diff_kind(exp, got)
        ctx = sim.ctx.get(oid, set())
        label = next((x for x in ("late_subscriber", "subscribed_in_callback", "unsubscribed_in_callback") if x in ctx), "plain")
        if label == "late_subscriber" and core.terminal is not None and core.terminal[0] == "E" and not core.terminal[1]:
            label = "late_subscriber:falsy_error"
        res["why"] = "observer %d: %s at position %d: expected %s, observed %s" % (oid, dk, at, show_items(exp), show_items(got))
        res["mech"] = "%s:%s:%s" % (pid, dk, label)
        return res
    return res


# ------------------------------------------------------------------------------------------ trace-consuming model

class TraceMonitor:
    """Per-observer FIFO of owed notifications, fed by the caller from SubjectCore answers, consumed by the
    observed receptions.  `sync=True`: everything owed must have been delivered when the next top-level event
    starts; `sync=False`: when the next *instant* starts (delivery goes through the scheduler)."""

    def __init__(self, sync: bool) -> None:
        self.sync = sync
        self.q: dict[Any, deque] = {}          # virtual observer key -> deque[(item, t_owed)]
        self.vkeys: dict[Any, list] = {}       # real observer -> its virtual observers (2 for the 'twice' mapper)
        self.xf: dict[Any, Callable[[Any], Any]] = {}
        self.silenced: set = set()
        self.finished: set = set()             # received a terminal
        self.optional: set = set()             # leftovers are not judged (subject disposed meanwhile)
        self.problems: list[tuple[str, str]] = []
        self.ties = 0
        self.matched = 0
        self.falsy_matched = 0

    def problem(self, mech: str, text: str) -> None:
        self.problems.append((mech, text))

    def add_observer(self, oid: Any, vkeys: list | None = None, xf: Callable[[Any], Any] | None = None) -> list:
        ks = vkeys if vkeys is not None else [oid]
        self.vkeys[oid] = ks
        for k in ks:
            self.q.setdefault(k, deque())
        if xf is not None:
            self.xf[oid] = xf
        return ks

    def owe(self, vkey: Any, items: list, t: float) -> None:
        q = self.q.setdefault(vkey, deque())
        for it in items:
            q.append((it, t))

    def active(self, oid: Any) -> bool:
        return oid in self.vkeys and oid not in self.silenced and oid not in self.finished

    def _exp(self, oid: Any, item: tuple) -> tuple:
        if item[0] == "N" and oid in self.xf:
            return ("N", self.xf[oid](item[1]))
        return item

    def recv(self, oid: Any, kind: str, value: Any, t: float) -> None:
        got = (kind, value)
        if oid not in self.vkeys:
            self.problem("unknown_observer", "observer %r received %s but never subscribed" % (oid, show_items([got])))
            return
        if oid in self.silenced:
            self.problem("after_unsubscribe", "observer %r received %s at %s after its dispose() had returned" % (oid, show_items([got]), t))
            return
        if oid in self.finished:
            self.problem("after_terminal", "observer %r received %s at %s after a terminal notification" % (oid, show_items([got]), t))
            return
        qs = [self.q[k] for k in self.vkeys[oid]]
        if kind == "C" and len(qs) > 1:
            # merged completion: every branch must be exactly at its completion
            if all(q and q[0][0][0] == "C" for q in qs):
                for q in qs:
                    q.popleft()
                self.finished.add(oid)
                self.matched += 1
            else:
                self.problem("wrong", "observer %r completed at %s while its branches still owe %s" % (
                    oid, t, [show_items([x[0] for x in q]) for q in qs]))
            return
        for q in qs:
            if q and same_item(self._exp(oid, q[0][0]), got):
                q.popleft()
                self.matched += 1
                if kind == "N" and is_falsy_value(value):
                    self.falsy_matched += 1
                if kind in "EC":
                    self.finished.add(oid)
                return
        owed = [show_items([self._exp(oid, x[0]) for x in q]) for q in qs]
        dup = "duplicate_or_reordered" if any(same_item(self._exp(oid, x[0]), got) for q in qs for x in q) else "unexpected"
        self.problem(dup, "observer %r received %s at %s; owed (in order) %s" % (oid, show_items([got]), t, owed))
        self.finished.add(oid)      # do not cascade

    def unsub(self, oid: Any, t: float, nested: bool) -> None:
        """dispose() of oid's subscription has returned at time t"""
        if not self.active(oid):
            self.silenced.add(oid)
            return
        self.silenced.add(oid)
        if oid in self.optional:
            return
        for k in self.vkeys[oid]:
            for (it, t0) in self.q[k]:
                if t0 < t:
                    self.problem("missing", "observer %r unsubscribed at %s without having received %s owed since %s" % (
                        oid, t, show_items([self._exp(oid, it)]), t0))
                    return
                if self.sync and not nested:
                    self.problem("missing", "observer %r: %s owed at %s was not delivered synchronously (still owed at its top-level unsubscribe)" % (
                        oid, show_items([self._exp(oid, it)]), t0))
                    return
                self.ties += 1
            self.q[k].clear()

    def make_optional(self, oid: Any) -> None:
        self.optional.add(oid)

    def boundary(self, t: float, what: str = "") -> None:
        """a new top-level event starts at time t"""
        for oid in self.vkeys:
            if not self.active(oid) or oid in self.optional:
                continue
            for k in self.vkeys[oid]:
                for (it, t0) in self.q[k]:
                    if self.sync or t0 < t:
                        self.problem("missing", "observer %r has not received %s owed since %s when %s starts at %s" % (
                            oid, show_items([self._exp(oid, it)]), t0, what or "the next event", t))
                        self.finished.add(oid)
                        break

    def finish(self) -> None:
        for oid in self.vkeys:
            if not self.active(oid):
                continue
            left = [self._exp(oid, x[0]) for k in self.vkeys[oid] for x in self.q[k]]
            if left:
                if oid in self.optional:
                    self.ties += len(left)
                else:
                    self.problem("missing", "observer %r never received %s" % (oid, show_items(left)))


# ------------------------------------------------------------------------------------------ C20/C21/C23 driver

def sync_case(pid: str, kind: str, seed: int, idx: int, res: Any, gen: Callable[[Any], dict],
              make_subject: Callable[[dict], Any]) -> None:
    """One generated history against a synchronous subject; records coverage and a violation if any."""
    from ..common import case_rng
    r = case_rng(seed, pid, idx)
    h = gen(r)
    out = run_sync_history(pid, kind, h, lambda: make_subject(h))
    desc = describe_history(h)
    st = out["stats"]
    res.case(key=desc, nontrivial=st["deliveries"] > 0 or st["disposed_calls"] > 0,
             sample={"history": desc, "expected": out["expected"], "observed": out["observed"], "outcomes": out["outcomes"]})
    for k in ("deliveries", "falsy_delivered", "late_subscribers", "unsub_in_callback", "sub_in_callback", "disposed_calls",
              "falsy_error_late"):
        if st[k]:
            res.count(k, st[k])
    res.note("profiles", h["profile"])
    res.note("history_lengths", len(h["calls"]))
    if out["why"] is not None:
        res.violation(out["mech"], {"why": out["why"], "history": desc, "expected": out["expected"],
                                    "observed": out["observed"], "outcomes": out["outcomes"]},
                      {"seed": seed, "idx": idx})
