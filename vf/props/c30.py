"""C30 Trampoline scheduling is same-thread, FIFO and never nested (model + dsched)."""
from __future__ import annotations

from typing import Any

from ..common import UnitResult, case_rng

ID = "C30"
LEVEL = "exploration"
RULE = ("(a) single-thread generated trees of nested schedule / schedule_relative / schedule_absolute(>= now) / cancel / virtual work on a "
        "TrampolineScheduler, a CurrentThreadScheduler instance and the CurrentThreadScheduler singleton, run under the controller's virtual clock "
        "and compared with an independent (due, seq) queue model: exact start order, start clock >= the model's max(clock, due) (the trampoline may also wait out the due time of a cancelled item, which the statement does not forbid), cancelled never start, no "
        "nesting, scheduling thread == running thread; (b) two threads each running such a tree on the same CurrentThreadScheduler instance / the "
        "singleton (queues must be independent, each thread's order equals its own model) and on one shared TrampolineScheduler (mutual "
        "exclusion, no early start, cancelled never start; thread identity and cross-thread delivery are not asserted), under the deterministic "
        "thread scheduler (bounded-preemption enumeration of hand-written programs, random/PCT schedules of generated ones); distinct = "
        "(program, decision list); non-trivial = the tree has a nested or timed action")
ASSUMPTIONS = ["line-granular serialisation; threading primitives replaced by instrumented equivalents; virtual clock replaces default_now",
               "schedule_absolute is only generated with due times >= the current clock (a past absolute time scheduled from inside an action is "
               "not covered by the statement's ordering rule)",
               "for a shared TrampolineScheduler an item enqueued by a second thread while the first is leaving its drain loop may be dropped; "
               "the class documents cross-thread use loosely, so this is counted as an observation (shared_items_not_run), not a violation"]
REQUIRED = {"single_thread_trees": {"quick": 600, "thorough": 12000}, "actions_started": {"quick": 3000, "thorough": 60000},
            "timed_waits": {"quick": 300, "thorough": 6000}, "cancels_before_start": {"quick": 100, "thorough": 2000},
            "preemptive_switches": {"quick": 400, "thorough": 4000}, "set:kinds": 3}
UNIT_TIMEOUT = {"quick": 240, "thorough": 3000}
FILES = ("scheduler/trampoline.py", "scheduler/trampolinescheduler.py", "scheduler/currentthreadscheduler.py", "scheduler/scheduleditem.py")
KINDS = ("trampoline", "current", "singleton")


def gen_tree(r: Any, prefix: str = "") -> dict:
    nid = [0]
    nested: dict = {}

    def ops(n: int, depth: int, known: list) -> list:
        out = []
        for _ in range(n):
            c = r.random()
            if c < 0.4:
                i = "%s%d" % (prefix, nid[0])
                nid[0] += 1
                out.append(["imm", i])
                known.append(i)
            elif c < 0.6:
                i = "%s%d" % (prefix, nid[0])
                nid[0] += 1
                out.append(["rel", i, r.choice([0.0, 0.01, 0.02, 0.02, 0.05])])
                known.append(i)
            elif c < 0.68:
                i = "%s%d" % (prefix, nid[0])
                nid[0] += 1
                out.append(["abs", i, r.choice([0.0, 0.01, 0.03])])
                known.append(i)
            elif c < 0.85 and known:
                out.append(["cancel", r.choice(known)])
            else:
                out.append(["work", r.choice([0.0, 0.01, 0.02])])
        # nested programs are generated after all siblings exist, so that an action can cancel a LATER sibling
        # (both are then in the same batch of due items when the first one runs)
        for op in out:
            if op[0] in ("imm", "rel", "abs") and depth < 3 and r.random() < 0.45:
                nested[op[1]] = ops(r.randint(1, 3), depth + 1, known)
        return out

    top = ops(r.randint(1, 3), 0, [])
    return {"top": top, "nested": nested}


def model(tree: dict, t0: float) -> list:
    """independent (due, seq) queue model; returns [(id, start_clock)]"""
    pending: list = []
    state = {"clock": t0, "seq": 0, "busy": False}
    cancelled: set = set()
    scheduled: set = set()
    order: list = []

    def drain() -> None:
        state["busy"] = True
        while pending:
            pending.sort()
            due, _, i = pending.pop(0)
            if i in cancelled:
                continue
            state["clock"] = max(state["clock"], due)
            order.append((i, state["clock"]))
            cancelled.add(i)          # a later cancel of a started action is a no-op
            run_ops(tree["nested"].get(i, []))
        state["busy"] = False

    def run_ops(ops: list) -> None:
        for op in ops:
            if op[0] in ("imm", "rel", "abs"):
                due = state["clock"] + (0.0 if op[0] == "imm" else op[2])
                pending.append((due, state["seq"], op[1]))
                scheduled.add(op[1])
                state["seq"] += 1
                if not state["busy"]:
                    drain()
            elif op[0] == "cancel":
                if op[1] in scheduled:       # cancelling an id that was not scheduled yet is a no-op
                    cancelled.add(op[1])
            elif op[0] == "work":
                state["clock"] += op[1]

    run_ops(tree["top"])
    return order


class Runner:
    """executes a tree on a scheduler, logging through the controller"""

    def __init__(self, c: Any, sched: Any, tree: dict, tag: str) -> None:
        self.c, self.s, self.tree, self.tag = c, sched, tree, tag
        self.disps: dict = {}
        self.started: list = []        # (id, clock, thread)
        self.depth = 0
        self.viol: list = []
        self.cancel_before_start = 0

    def make(self, i: str) -> Any:
        def act(sch: Any, st: Any) -> None:
            c = self.c
            me = c.me().name
            if self.depth > 0:
                self.viol.append(("nested-action", {"id": i}))
            self.depth += 1
            c.log("start", i)
            self.started.append((i, c.clock, me))
            c.yp("in-action")
            self.run_ops(self.tree["nested"].get(i, []))
            c.yp("in-action")
            c.log("end", i)
            self.depth -= 1
        return act

    def run_ops(self, ops: list) -> None:
        import datetime
        from .. import dsched as D
        c = self.c
        for op in ops:
            if op[0] == "imm":
                c.log("sched", op[1])
                self.disps[op[1]] = self.s.schedule(self.make(op[1]))
            elif op[0] == "rel":
                c.log("sched", op[1])
                self.disps[op[1]] = self.s.schedule_relative(op[2], self.make(op[1]))
            elif op[0] == "abs":
                c.log("sched", op[1])
                self.disps[op[1]] = self.s.schedule_absolute(datetime.datetime.fromtimestamp(c.clock + op[2], tz=D.UTC), self.make(op[1]))
            elif op[0] == "cancel":
                d = self.disps.get(op[1])
                if d is not None:
                    if not any(s[0] == op[1] for s in self.started):
                        self.cancel_before_start += 1
                    d.dispose()
            elif op[0] == "work":
                if op[1] > 0:
                    c.sleep(op[1])


def make_sched(kind: str) -> Any:
    from reactivex.scheduler import CurrentThreadScheduler, TrampolineScheduler
    if kind == "trampoline":
        return TrampolineScheduler()
    if kind == "current":
        return CurrentThreadScheduler()
    return CurrentThreadScheduler.singleton()


def compare(kind: str, exp: list, got: list, thread: str | None) -> list:
    viol = []
    if [g[0] for g in got] != [e[0] for e in exp]:
        missing = [e[0] for e in exp if e[0] not in [g[0] for g in got]]
        extra = [g[0] for g in got if g[0] not in [e[0] for e in exp]]
        what = "cancelled-action-ran" if extra else ("action-never-ran" if missing else "out-of-order")
        viol.append(("C30:%s:%s" % (kind, what), {"expected": exp, "observed": [(g[0], g[1]) for g in got]}))
    else:
        for e, g in zip(exp, got):
            if g[1] < e[1] - 2e-6:
                viol.append(("C30:%s:started-before-due" % kind, {"id": e[0], "expected_clock": e[1], "clock": g[1]}))
                break
    if thread is not None:
        bad = [g for g in got if g[2] != thread]
        if bad:
            viol.append(("C30:%s:action-on-foreign-thread" % kind, {"expected_thread": thread, "observed": bad[:3]}))
    return viol


def scenario_single(c: Any, P: dict) -> dict:
    kind = P["kind"]
    s = make_sched(kind)
    t0 = c.clock
    r = Runner(c, s, P["tree"], "main")
    r.run_ops(P["tree"]["top"])
    exp = model(P["tree"], t0)
    viol = [("C30:%s:%s" % (kind, m), d) for m, d in r.viol]
    viol += compare(kind, exp, r.started, "driver")
    waits = sum(1 for i in range(1, len(exp)) if exp[i][1] > exp[i - 1][1] + 1e-9)
    return {"viol": viol, "obs": {"actions_started": len(r.started), "timed_waits": waits, "cancels_before_start": r.cancel_before_start,
                                  "single_thread_trees": 1}, "sig": {"order": [g[0] for g in r.started]}, "decided": True}


def scenario_two(c: Any, P: dict) -> dict:
    from .. import dsched as D
    kind = P["kind"]
    shared = make_sched(kind) if kind != "singleton" else None
    runners: list = []
    t0s: list = []

    def worker(ti: int) -> None:
        s = shared if shared is not None else make_sched("singleton")
        t0s.append((ti, c.clock))
        r = Runner(c, s, P["trees"][ti], "t%d" % ti)
        runners.append((ti, r, c.me().name))
        r.run_ops(P["trees"][ti]["top"])

    ts = [D.VThread(target=worker, args=(ti,), name="W") for ti in range(2)]
    for t in ts:
        t.start()
    for t in ts:
        t.join()
    viol: list = []
    obs = {"actions_started": 0, "cancels_before_start": 0, "timed_waits": 0}
    if kind in ("current", "singleton"):
        # each thread has its own trampoline: per-thread behaviour equals the single-thread model, except that virtual time
        # can also pass because of the other thread's work: compare order only, plus no early start
        for ti, r, tname in runners:
            exp = model(P["trees"][ti], dict(t0s)[ti])
            obs["actions_started"] += len(r.started)
            obs["cancels_before_start"] += r.cancel_before_start
            viol += [("C30:%s:two-threads:%s" % (kind, m), d) for m, d in r.viol]
            got_ids = [g[0] for g in r.started]
            # a cancel can race differently only within one thread's own program: same thread => deterministic
            if got_ids != [e[0] for e in exp]:
                viol.append(("C30:%s:two-threads:order-differs-from-single-thread-model" % kind, {"thread": tname, "expected": [e[0] for e in exp], "observed": got_ids}))
            bad = [g for g in r.started if g[2] != tname]
            if bad:
                viol.append(("C30:%s:two-threads:action-on-foreign-thread" % kind, {"thread": tname, "observed": bad[:3]}))
    else:
        # shared TrampolineScheduler: mutual exclusion across threads, no early start, cancelled never start
        open_by: dict = {}
        for e in c.events:
            if e[3] == "start":
                others = [t for t in open_by if t != e[2]]
                if others:
                    viol.append(("C30:trampoline:shared:two-actions-at-once", {"threads": [e[2]] + others}))
                open_by[e[2]] = open_by.get(e[2], 0) + 1
            elif e[3] == "end":
                open_by[e[2]] -= 1
                if not open_by[e[2]]:
                    del open_by[e[2]]
        not_run = 0
        for ti, r, tname in runners:
            obs["actions_started"] += len(r.started)
            viol += [("C30:trampoline:shared:%s" % m, d) for m, d in r.viol]
            scheduled = [e[4] for e in c.events if e[3] == "sched"]
        all_started = {g[0] for _, r, _ in runners for g in r.started}
        not_run = sum(1 for e in c.events if e[3] == "sched" and e[4] not in all_started)
        obs["shared_items_not_run"] = not_run
    return {"viol": viol, "obs": obs, "sig": {"started": [[g[0] for g in r.started] for _, r, _ in runners]}, "decided": True}


HAND_TWO = [
    {"kind": "current", "trees": [{"top": [["imm", "a0"]], "nested": {"a0": [["imm", "a1"], ["rel", "a2", 0.01]]}}, {"top": [["imm", "b0"], ["imm", "b1"]], "nested": {"b0": [["imm", "b2"]]}}]},
    {"kind": "singleton", "trees": [{"top": [["imm", "a0"]], "nested": {"a0": [["imm", "a1"]]}}, {"top": [["imm", "b0"]], "nested": {"b0": [["imm", "b1"], ["cancel", "b1"]]}}]},
    {"kind": "trampoline", "trees": [{"top": [["imm", "a0"]], "nested": {"a0": [["imm", "a1"]]}}, {"top": [["imm", "b0"]], "nested": {}}]},
    # the smallest shared-trampoline program (first use of a fresh scheduler by two threads at once): enumerated with two preemptions
    # in the quick tier as well
    {"kind": "trampoline", "small": True, "trees": [{"top": [["imm", "a0"]], "nested": {}}, {"top": [["imm", "b0"]], "nested": {}}]},
]


def units(tier: str, seed: int) -> list[dict]:
    q = tier == "quick"
    us: list[dict] = []
    n = 720 if q else 14400
    per = n // (8 if q else 24)
    for lo in range(0, n, per):
        us.append({"mode": "single", "lo": lo, "hi": lo + per, "seed": seed})
    for hi, _ in enumerate(HAND_TWO):
        small = HAND_TWO[hi].get("small")
        us.append({"mode": "dfs", "hand": hi, "bound": (2 if small else 1) if q else (3 if small else 2), "seed": seed, "max_runs": (6000 if small else 1500) if q else 60000})
    nprog, pp = (12, 3) if q else (120, 6)
    for lo in range(0, nprog, pp):
        us.append({"mode": "random", "progs": [lo, lo + pp], "runs": 40 if q else 300, "seed": seed})
    return us


def run_unit(unit: dict, res: UnitResult) -> None:
    from .. import dcheck, dsched as D
    D.install(D.repo_file(*FILES))
    if not dcheck.check_install(res):
        return
    if unit["mode"] == "single":
        for idx in range(unit["lo"], unit["hi"]):
            r = case_rng(unit["seed"], ID, "single", idx)
            P = {"kind": KINDS[idx % 3], "tree": gen_tree(r)}
            res.note("kinds", P["kind"])
            c = D.run(lambda c: scenario_single(c, P), D.ForcedStrategy({}))
            dcheck._record(res, ID, "single-%s" % P["kind"], P, c, "single", "violation")
            # a single-thread tree is non-trivial if something is nested or timed
            if P["tree"]["nested"]:
                from ..common import digest, show
                res.keys.add(digest(["single", show(P)]))
        return
    if unit["mode"] == "dfs":
        P = HAND_TWO[unit["hand"]]
        res.note("kinds", P["kind"])
        dcheck.explore(res, ID, "two-hand%d-%s" % (unit["hand"], P["kind"]), scenario_two, P, "dfs", bound=unit["bound"], max_runs=unit["max_runs"],
                       on_failed="violation")
        return
    for pi in range(*unit["progs"]):
        r = case_rng(unit["seed"], ID, "two", pi)
        P = {"kind": KINDS[pi % 3], "trees": [gen_tree(r, "a"), gen_tree(r, "b")]}
        res.note("kinds", P["kind"])
        name = "two-gen%d-%s" % (pi, P["kind"])
        dcheck.explore(res, ID, name, scenario_two, P, "random", seed=unit["seed"], runs=unit["runs"], on_failed="violation")
        dcheck.explore(res, ID, name, scenario_two, P, "pct", seed=unit["seed"], runs=unit["runs"] // 2, on_failed="violation")


def replay(rep: dict, res: UnitResult) -> None:
    from .. import dcheck, dsched as D
    D.install(D.repo_file(*FILES))
    fn = scenario_single if rep["scenario"].startswith("single") else scenario_two
    dcheck.replay(res, ID, fn, rep)
