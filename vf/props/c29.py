"""C29 Virtual-time runs always finish (instrumented locks + logical step budget)."""
from __future__ import annotations

from typing import Any

from ..common import UnitResult, case_rng, chunks

ID = "C29"
LEVEL = "exploration"
RULE = ("generated finite schedules on VirtualTimeScheduler(float), TestScheduler and HistoricalScheduler(datetime): batches of 0..400 actions "
        "sharing one due time (crossing the 100-action spin threshold several times), actions that re-schedule themselves at 'now' a bounded "
        "number of times, a recursion that returns the handle of its follow-up and ends by disposing its own chain from inside its k-th run, cancellations; run with start() or advance_to()/advance_by(); the scheduler's threading.Lock is an instrumented lock "
        "(self re-acquisition raises instead of hanging) and every source line of virtualtimescheduler.py counts against a logical step budget "
        "(60 x actions + 3000); verdict: run returns, actions run == scheduled - cancelled, drained scheduler can be started again; "
        "non-trivial = at least one action; distinct = digest of the program")
ASSUMPTIONS = ["the instrumented Lock stands in for threading.Lock (a native self-deadlock would otherwise be invisible to a logical budget)",
               "a wall-clock watchdog around the child process is inconclusive, never a violation"]
REQUIRED = {"batches_over_100": {"quick": 40, "thorough": 1000}, "clock_bumps_seen": {"quick": 20, "thorough": 500},
            "datetime_clock_cases": {"quick": 100, "thorough": 3000}, "restarts_checked": {"quick": 200, "thorough": 8000},
            "self_cancelling_recursions": {"quick": 200, "thorough": 8000},
            "programs_with_self_disposing_actions_returning_non_disposables": {"quick": 60, "thorough": 2500}}
CASES = {"quick": 640, "thorough": 24000}
UNIT_TIMEOUT = {"quick": 240, "thorough": 3000}
FILES = ("scheduler/virtualtimescheduler.py",)


def gen_program(r: Any) -> dict:
    kind = r.choice(["vts", "test", "hist", "hist"])
    nb = r.randint(1, 4)
    batches = []
    t = 0
    for _ in range(nb):
        t += r.choice([0, 1, 5, 10])
        size = r.choice([0, 1, 3, 50, 99, 100, 101, 102, 150, 201, 305, 400]) if r.random() < 0.6 else r.randint(0, 30)
        batches.append({"at": t, "n": size, "resched": r.choice([0, 0, 1, 3]) if size <= 150 else 0,
                        "cancel_every": r.choice([0, 0, 0, 2, 7]),
                        # what the action returns (the scheduler accepts anything and keeps only disposables) and whether every
                        # fifth action disposes its OWN handle while it runs
                        "ret": r.choice([None, None, "true", "int", "str"]), "self_dispose": r.random() < 0.3})
    # a recursion that is bounded by CANCELLATION instead of a counter: the action returns the handle of its follow-up and, at its
    # k-th run, disposes the handle of the whole chain from inside itself
    selfcancel = r.choice([0, 0, 1, 3, 40, 150])
    return {"kind": kind, "batches": batches, "run": r.choice(["start", "start", "advance_to", "advance_by"]),
            "via": r.choice(["absolute", "relative"]), "selfcancel": selfcancel, "selfcancel_at": r.choice([0, 1, 5])}


def scenario(c: Any, P: dict) -> dict:
    import datetime as dt
    from reactivex.scheduler import HistoricalScheduler, VirtualTimeScheduler
    from reactivex.testing import TestScheduler
    kind = P["kind"]
    epoch = dt.datetime(2021, 5, 1, tzinfo=dt.timezone.utc)
    s: Any = {"vts": lambda: VirtualTimeScheduler(0.0), "test": TestScheduler, "hist": lambda: HistoricalScheduler(epoch)}[kind]()
    ran = [0]
    bumps = [0]
    expected = 0

    def to_abs(t: float) -> Any:
        return epoch + dt.timedelta(seconds=t) if kind == "hist" else float(t)

    def to_rel(t: float) -> Any:
        return dt.timedelta(seconds=t) if kind == "hist" else float(t)

    def clock_s() -> float:
        k = s._clock
        return (k - epoch).total_seconds() if kind == "hist" else float(k)

    RET = {None: None, "true": True, "int": 7, "str": "x"}

    def make(due: float, left: int, ret: Any = None, own: list | None = None) -> Any:
        def act(sch: Any, st: Any) -> Any:
            ran[0] += 1
            if clock_s() > due + 1e-9:
                bumps[0] += 1
            if left > 0:
                sch.schedule(make(clock_s(), left - 1))
            if own is not None and own[0] is not None:
                own[0].dispose()          # cancels itself while running: must have no effect on this run
            return RET[ret]
        return act

    for b in P["batches"]:
        for i in range(b["n"]):
            own: list | None = [None] if (b.get("self_dispose") and i % 5 == 0) else None
            if P["via"] == "absolute":
                d = s.schedule_absolute(to_abs(b["at"]), make(b["at"], b["resched"], b.get("ret"), own))
            else:
                d = s.schedule_relative(to_rel(b["at"]), make(b["at"], b["resched"], b.get("ret"), own))
            if own is not None:
                own[0] = d
            if b["cancel_every"] and i % b["cancel_every"] == 0:
                d.dispose()
            else:
                expected += 1 + b["resched"]
    if P.get("selfcancel"):
        K = P["selfcancel"]
        steps = [0]
        root: list = [None]

        def rec(sch: Any, st: Any) -> Any:
            steps[0] += 1
            ran[0] += 1
            if steps[0] == K:
                root[0].dispose()
            return sch.schedule(rec)
        root[0] = s.schedule_absolute(to_abs(P["selfcancel_at"]), rec)
        expected += K
    horizon = max([b["at"] for b in P["batches"]] + [0]) + 1000
    if P["run"] == "start":
        s.start()
    elif P["run"] == "advance_to":
        s.advance_to(to_abs(horizon))
    else:
        s.advance_by(to_rel(horizon))
    viol = []
    if ran[0] != expected:
        viol.append(("C29:%s:actions-run-differs" % kind, {"ran": ran[0], "expected": expected}))
    # a drained scheduler can be started again
    again = [0]
    s.schedule_relative(to_rel(1), lambda sch, st: again.__setitem__(0, again[0] + 1))
    s.start()
    if again[0] != 1:
        viol.append(("C29:%s:not-restartable" % kind, {"ran_after_restart": again[0]}))
    return {"viol": viol, "ran": ran[0], "bumps": bumps[0], "expected": expected}


def run_case(seed: int, idx: int, res: UnitResult) -> None:
    from .. import dsched as D
    r = case_rng(seed, ID, idx)
    P = gen_program(r)
    total = sum(b["n"] * (1 + b["resched"]) for b in P["batches"]) + P.get("selfcancel", 0)
    c = D.run(lambda c: scenario(c, P), D.ForcedStrategy({}), max_steps=60 * total + 3000)
    big = sum(1 for b in P["batches"] if b["n"] > 100)
    res.case(key=P, nontrivial=total > 0, sample={"program": P, "result": {k: v for k, v in (c.result or {}).items() if k != "viol"} if c.result else c.failed})
    res.count("batches_over_100", big)
    res.count("actions_scheduled", total)
    if P.get("selfcancel"):
        res.count("self_cancelling_recursions")
    if any(b.get("self_dispose") and b.get("ret") and b["n"] for b in P["batches"]):
        res.count("programs_with_self_disposing_actions_returning_non_disposables")
    res.note("kinds", P["kind"] + "/" + P["run"])
    if P["kind"] == "hist":
        res.count("datetime_clock_cases")
    replay = {"seed": seed, "idx": idx}
    mech_suffix = ":same-instant-batch>100" if big else ""
    if getattr(c, "watchdog", False):
        res.inconclusive.append("watchdog fired without a logical diagnosis: %s" % c.failed)
        return
    if c.failed:
        what = c.failed.split(":")[0].replace(" ", "-")
        res.violation("C29:%s:%s%s" % (P["kind"], what, mech_suffix), {"failed": c.failed[:400], "program": P}, replay)
        return
    v = c.result
    res.count("clock_bumps_seen", v["bumps"])
    res.count("actions_run", v["ran"])
    res.count("restarts_checked")
    for mech, d in v["viol"]:
        d["program"] = P
        res.violation(mech + mech_suffix, d, replay)


def units(tier: str, seed: int) -> list[dict]:
    return [{"lo": lo, "hi": hi, "seed": seed} for lo, hi in chunks(CASES[tier], 16 if tier == "quick" else 48)]


def run_unit(unit: dict, res: UnitResult) -> None:
    from .. import dcheck, dsched as D
    D.install(D.repo_file(*FILES))
    if not dcheck.check_install(res):
        return
    for idx in range(unit["lo"], unit["hi"]):
        run_case(unit["seed"], idx, res)


def replay(rep: dict, res: UnitResult) -> None:
    from .. import dsched as D
    D.install(D.repo_file(*FILES))
    run_case(rep["seed"], rep["idx"], res)
