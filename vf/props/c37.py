"""C37 Source factories emit their specified sequences (virtual time, model from the statement)."""
from __future__ import annotations

import collections
import datetime as _dt
from fractions import Fraction
from typing import Any

import reactivex as rx

from ..common import UnitResult, case_rng, chunks, show, strict
from ..single import show_timed
from ..vlab import Lab, gen_value

ID = "C37"
LEVEL = "exploration"
RULE = ("seeded cases over 11 factories (range with 1/2/3 arguments, negative steps, empty ranges; of; from_iterable over "
        "list/tuple/generator/str/dict/range/set/iterator/deque incl. falsy items; return_value; empty; never; throw with "
        "an exception object or a string; generate and generate_with_relative_time over a table of loop functions "
        "(falsy states, truthy non-bool conditions) and delay functions (constant, state-dependent, zero, int, float, "
        "timedelta); timer with float/int/timedelta/absolute datetime incl. 0; repeat_value(v, 0..8)); each run on a "
        "TestScheduler that is handed to the factory, to subscribe(), or to both; the recorded (time, notification) list "
        "is compared with the statement's model; non-trivial = the model expects >= 1 notification or the factory is "
        "never; distinct = digest of (factory, parameters, mode, subscription time)")
ASSUMPTIONS = ["reactivex.testing.TestScheduler is the clock (its ordering is checked independently by C28)",
               "sequences stay below 30 elements so that the scheduler's same-instant spin threshold (100) is not reached",
               "the statement fixes element values/times; a terminal notification must follow the last element and is "
               "accepted at any time not earlier than it (later ones are counted)"]
CASES = {"quick": 4400, "thorough": 132000}
FACTORIES = ["range", "of", "from_iterable", "return_value", "empty", "never", "throw", "generate",
             "generate_with_relative_time", "timer", "repeat_value"]
HAS_SCHED_PARAM = {"range", "from_iterable", "return_value", "empty", "throw", "timer"}
REQUIRED = {
    "set:factories": len(FACTORIES),
    "set:modes": 3,
    "range_empty": {"quick": 30, "thorough": 900},
    "range_negative_step": {"quick": 30, "thorough": 900},
    "gwrt_cases_with_zero_delay": {"quick": 60, "thorough": 1800},
    "gwrt_cases_with_timedelta_delay": {"quick": 40, "thorough": 1200},
    "timer_zero": {"quick": 15, "thorough": 450},
    "falsy_elements_expected": {"quick": 300, "thorough": 9000},
    "elements_compared": {"quick": 5000, "thorough": 150000},
    "second_subscriptions_checked": {"quick": 1500, "thorough": 45000},
}
UNIT_TIMEOUT = {"quick": 300, "thorough": 1800}
ACTION_BUDGET = 2000
UTC = _dt.timezone.utc
E0 = _dt.datetime(1970, 1, 1, tzinfo=UTC)


class Boom(Exception):
    pass


def units(tier: str, seed: int) -> list[dict]:
    return [{"lo": lo, "hi": hi, "seed": seed} for lo, hi in chunks(CASES[tier], 16 if tier == "quick" else 48)]


# ------------------------------------------------------------------------------------------- loop-function table

def _loop(name: str, n: int) -> tuple:
    """-> (initial, condition, iterate) ; every loop terminates within 30 states for n <= 12"""
    if name == "count_up":
        return 0, (lambda x: x < n), (lambda x: x + 1)
    if name == "count_down_to_zero":             # truthy non-bool condition; last states are small ints, 0 never emitted
        return n, (lambda x: x), (lambda x: x - 1)
    if name == "through_zero":                   # emits negative, zero and positive states
        return -2, (lambda x: x <= n - 3), (lambda x: x + 1)
    if name == "step2_ne":
        return 0, (lambda x: x != 2 * n), (lambda x: x + 2)
    if name == "double":
        return 1, (lambda x: x < 2 ** min(n, 10)), (lambda x: x * 2)
    if name == "never_true":
        return 5, (lambda x: False), (lambda x: x + 1)
    if name == "falsy_cond_none":                # condition returns None (falsy) at the end, a non-empty list before
        return 0, (lambda x: [x] if x < n else None), (lambda x: x + 1)
    if name == "strings":                        # first state is the empty string
        return "", (lambda s: len(s) < n), (lambda s: s + "a")
    if name == "tuples":                         # first state is the empty tuple
        return (), (lambda t: len(t) < min(n, 6)), (lambda t: t + (len(t),))
    if name == "none_then_ints":                 # first state None
        return None, (lambda x: x is None or x < n), (lambda x: 0 if x is None else x + 1)
    if name == "floats":
        return 0.0, (lambda x: x < n / 2), (lambda x: x + 0.5)
    if name == "bools":                          # False, True, then stop
        return False, (lambda x: isinstance(x, bool)), (lambda x: True if x is False else 2)
    raise KeyError(name)


LOOPS = ["count_up", "count_down_to_zero", "through_zero", "step2_ne", "double", "never_true", "falsy_cond_none",
         "strings", "tuples", "none_then_ints", "floats", "bools"]


def _numof(s: Any) -> int:
    if s is None:
        return 0
    if isinstance(s, bool):
        return int(s)
    if isinstance(s, (int, float)):
        return int(abs(s))
    return len(s)


def _delay_fn(spec: dict) -> Any:
    """time_mapper(state) -> relative time, as Fraction seconds (model) and as the argument form handed to the library"""
    kind = spec["kind"]
    table = spec.get("table", [])

    def frac(state: Any) -> Fraction:
        if kind == "const":
            return Fraction(spec["d"])
        if kind == "linear":                      # zero for the states 0 / "" / () / None / False
            return Fraction(spec["d"]) * (_numof(state) % 4)
        if kind == "table":
            return Fraction(table[_numof(state) % len(table)])
        raise KeyError(kind)

    def as_arg(state: Any) -> Any:
        f = frac(state)
        form = spec["form"]
        if form == "timedelta":
            return _dt.timedelta(microseconds=int(f * 10 ** 6))
        if form == "int" and f.denominator == 1:
            return int(f)
        return float(f)

    return frac, as_arg


def run_loop(loop: tuple, cap: int = 40) -> list:
    init, cond, it = loop
    out = []
    s = init
    while cond(s):
        out.append(s)
        if len(out) > cap:
            raise OverflowError
        s = it(s)
    return out


# ------------------------------------------------------------------------------------------- generation

def make_iterable(kind: str, items: list) -> Any:
    if kind == "list":
        return list(items)
    if kind == "tuple":
        return tuple(items)
    if kind == "generator":
        return (x for x in list(items))
    if kind == "iterator":
        return iter(list(items))
    if kind == "deque":
        return collections.deque(items)
    if kind == "str":
        return "".join(str(_numof(x) % 10) for x in items)
    if kind == "dict":
        return {i: x for i, x in enumerate(items)}
    if kind == "range":
        return range(len(items))
    if kind == "set":
        return frozenset(_numof(x) for x in items)
    raise KeyError(kind)


def gen_case(r: Any, idx: int) -> dict:
    f = FACTORIES[idx % len(FACTORIES)]
    mode = r.choice(["factory", "subscribe", "both"]) if f in HAS_SCHED_PARAM else "subscribe"
    case: dict = {"factory": f, "mode": mode, "sub_at": r.choice([0.0, 200.0, 200.0, 17.5, 1000.25]), "P": {}}
    P = case["P"]
    if f == "range":
        shape = r.choice([1, 2, 2, 3, 3, 3])
        a = r.randint(-6, 12)
        b = r.randint(-6, 14)
        c = r.choice([1, 1, 2, 3, 5, -1, -1, -2, -3, -7])
        P["args"] = [a][:shape] if shape == 1 else ([a, b] if shape == 2 else [a, b, c])
    elif f in ("of", "from_iterable"):
        dom = r.choice(["ints", "falsy", "falsy", "dups"])
        P["items"] = [gen_value(r, dom) for _ in range(r.choice([0, 0, 1, 2, 3, 5, 8]))]
        if f == "from_iterable":
            P["container"] = r.choice(["list", "tuple", "generator", "iterator", "deque", "str", "dict", "range", "set"])
    elif f in ("return_value", "repeat_value"):
        P["value"] = gen_value(r, "falsy")
        if f == "repeat_value":
            P["n"] = r.choice([0, 0, 1, 2, 3, 5, 8])
    elif f == "throw":
        P["as_string"] = r.random() < 0.35
        P["text"] = r.choice(["boom", "", "x y"])
    elif f in ("generate", "generate_with_relative_time"):
        P["loop"] = r.choice(LOOPS)
        P["n"] = r.choice([0, 1, 2, 3, 4, 6, 9, 12])
        if f == "generate_with_relative_time":
            kind = r.choice(["const", "const", "linear", "table", "table"])
            form = r.choice(["float", "float", "int", "timedelta", "timedelta"])
            d = r.choice(["0", "1", "2", "1/2", "1/4", "10", "1/1000", "3"]) if kind == "const" else r.choice(["1", "2", "1/2", "5"])
            if kind == "const" and r.random() < 0.6 and d == "0":
                d = r.choice(["1", "1/2", "2"])
            P["delay"] = {"kind": kind, "form": form, "d": d,
                          "table": [r.choice(["0", "1", "1", "2", "1/2", "3", "1/4"]) for _ in range(r.randint(1, 4))]}
    elif f == "timer":
        P["form"] = r.choice(["float", "float", "int", "timedelta", "datetime"])
        P["d"] = r.choice(["0", "0", "1", "2", "1/2", "10", "1/4", "1/1000", "300", "7"])
    return case


def build(case: dict, sch: Any) -> Any:
    f, P = case["factory"], case["P"]
    kw = {"scheduler": sch} if case["mode"] in ("factory", "both") else {}
    if f == "range":
        return rx.range(*P["args"], **kw)
    if f == "of":
        return rx.of(*P["items"])
    if f == "from_iterable":
        return rx.from_iterable(make_iterable(P["container"], P["items"]), **kw)
    if f == "return_value":
        return rx.return_value(P["value"], **kw)
    if f == "empty":
        return rx.empty(**kw)
    if f == "never":
        return rx.never()
    if f == "throw":
        return rx.throw(P["text"] if P["as_string"] else case["_exc"], **kw)
    if f == "generate":
        return rx.generate(*_loop(P["loop"], P["n"]))
    if f == "generate_with_relative_time":
        return rx.generate_with_relative_time(*_loop(P["loop"], P["n"]), _delay_fn(P["delay"])[1])
    if f == "timer":
        d = Fraction(P["d"])
        if P["form"] == "timedelta":
            arg: Any = _dt.timedelta(microseconds=int(d * 10 ** 6))
        elif P["form"] == "datetime":
            arg = E0 + _dt.timedelta(microseconds=int((Fraction(case["sub_at"]) + d) * 10 ** 6))
        elif P["form"] == "int" and d.denominator == 1:
            arg = int(d)
        else:
            arg = float(d)
        return rx.timer(arg, **kw)
    if f == "repeat_value":
        return rx.repeat_value(P["value"], P["n"])
    raise KeyError(f)


def model(case: dict) -> tuple[list, Any]:
    """-> ([(time, 'N', value)], terminal) with terminal None | ('C', None) | ('E', matcher)"""
    f, P = case["factory"], case["P"]
    t0 = case["sub_at"]
    if f == "range":
        return [(t0, "N", v) for v in list(range(*P["args"]))], ("C", None)
    if f == "of":
        return [(t0, "N", v) for v in P["items"]], ("C", None)
    if f == "from_iterable":
        return [(t0, "N", v) for v in list(make_iterable(P["container"], P["items"]))], ("C", None)
    if f == "return_value":
        return [(t0, "N", P["value"])], ("C", None)
    if f == "empty":
        return [], ("C", None)
    if f == "never":
        return [], None
    if f == "throw":
        if P["as_string"]:
            text = P["text"]
            return [], ("E", lambda e: isinstance(e, Exception) and e.args == (text,))
        exc = case["_exc"]
        return [], ("E", lambda e: e is exc)
    if f == "generate":
        return [(t0, "N", s) for s in run_loop(_loop(P["loop"], P["n"]))], ("C", None)
    if f == "generate_with_relative_time":
        frac = _delay_fn(P["delay"])[0]
        t = Fraction(t0)
        out = []
        for s in run_loop(_loop(P["loop"], P["n"])):
            t += frac(s)
            out.append((float(t), "N", s))
        return out, ("C", None)
    if f == "timer":
        return [(float(Fraction(t0) + Fraction(P["d"])), "N", 0)], ("C", None)
    if f == "repeat_value":
        return [(t0, "N", P["value"])] * P["n"], ("C", None)
    raise KeyError(f)


def compare(expected: list, terminal: Any, actual: list, res: UnitResult) -> str | None:
    elems = [a for a in actual if a[1] == "N"]
    terms = [a for a in actual if a[1] != "N"]
    for i, (e, a) in enumerate(zip(expected, actual)):
        if a[1] != "N":
            return "notification %d is %s, expected element %r" % (i, a[1], e[2])
        if abs(e[0] - a[0]) > 1e-9:
            return "element %d (%r) at time %r, expected %r" % (i, a[2], a[0], e[0])
        if strict(e[2]) != strict(a[2]):
            return "element %d is %r, expected %r" % (i, a[2], e[2])
    if len(elems) != len(expected):
        return "%d elements, expected %d" % (len(elems), len(expected))
    if terminal is None:
        return "terminal notification %r, expected none" % (terms[0][1],) if terms else None
    if len(terms) != 1:
        return "%d terminal notifications, expected exactly one %s" % (len(terms), terminal[0])
    if actual[-1][1] == "N":
        return "terminal notification is not last"
    t = terms[0]
    if t[1] != terminal[0]:
        return "terminal %s, expected %s" % (t[1], terminal[0])
    if terminal[0] == "E" and not terminal[1](t[2]):
        return "error object %r is not the expected one" % (t[2],)
    ref = expected[-1][0] if expected else None
    if ref is not None:
        if t[0] < ref - 1e-9:
            return "terminal at %r before the last element at %r" % (t[0], ref)
        if t[0] > ref + 1e-9:
            res.count("terminal_later_than_last_element")
    return None


def describe(case: dict) -> dict:
    return {"factory": case["factory"], "mode": case["mode"], "sub_at": case["sub_at"], "params": show(case["P"])}


def run_case(seed: int, idx: int, res: UnitResult) -> None:
    r = case_rng(seed, ID, idx)
    case = gen_case(r, idx)
    f, P = case["factory"], case["P"]
    case["_exc"] = Boom("boom")
    try:
        expected, terminal = model(case)
    except OverflowError:
        res.count("skipped_loop_too_long")
        return
    lab = Lab("num")
    obs = lab.observer("top", inner=False)
    flags = {"inside": False, "sync": 0}

    def on_recv(kind: str, value: Any, o: Any) -> None:
        if flags["inside"]:
            flags["sync"] += 1
    obs.on_recv = on_recv

    def do_sub() -> None:
        src = build(case, lab.ts)
        flags["inside"] = True
        try:
            if case["mode"] == "factory":
                obs.subscription = src.subscribe(obs)
            else:
                obs.subscription = src.subscribe(obs, scheduler=lab.ts)
        finally:
            flags["inside"] = False
    lab.at(case["sub_at"], do_sub)

    def budget(n: int) -> None:        # logical budget: every case needs < 100 scheduler actions
        if n > ACTION_BUDGET and not flags.get("over"):
            flags["over"] = True
            lab.ts.stop()
            if obs.subscription is not None:
                obs.subscription.dispose()
    lab.action_hook = budget
    lab.run()
    actual = obs.timed()
    desc = describe(case)
    res.case(key=desc, nontrivial=bool(expected) or terminal is not None or f == "never",
             sample={"case": desc, "expected": show_timed(expected) + [list(terminal[:1]) if terminal else "no terminal"],
                     "observed": show_timed(actual[:40])})
    res.note("factories", f)
    res.note("modes", case["mode"])
    res.count("elements_compared", len(expected))
    res.count("falsy_elements_expected", sum(1 for e in expected if not e[2]))
    if f == "range":
        if not expected:
            res.count("range_empty")
        if len(P["args"]) == 3 and P["args"][2] < 0:
            res.count("range_negative_step")
        res.note("range_arity", len(P["args"]))
    if f == "from_iterable":
        res.note("containers", P["container"])
    zero_at = None
    if f == "generate_with_relative_time":
        frac = _delay_fn(P["delay"])[0]
        states = run_loop(_loop(P["loop"], P["n"]))
        zeros = [i for i, s in enumerate(states) if frac(s) == 0]
        if zeros:
            zero_at = zeros[0]
            res.count("gwrt_cases_with_zero_delay")
        if P["delay"]["form"] == "timedelta" and states:
            res.count("gwrt_cases_with_timedelta_delay")
        if states and not zeros:
            res.count("gwrt_cases_all_delays_positive")
    if f == "timer":
        res.note("timer_forms", P["form"])
        if Fraction(P["d"]) == 0:
            res.count("timer_zero")
    if case["mode"] == "factory" and flags["sync"]:
        res.note("observation:emits_inside_subscribe_although_a_scheduler_was_given_to_the_factory", f)

    why = compare(expected, terminal, actual, res)
    esc = lab.escaped_to_scheduler
    if flags.get("over"):
        why = "still scheduling after %d scheduler actions (expected %d notifications)" % (ACTION_BUDGET, len(expected) + 1)
    if why is None and esc:
        why = "exception escaped into the scheduler: %r" % (esc[0],)
    if why is None and idx % 2 == 0:
        second_subscription_case(case, seed, idx, res)
    if why is not None:
        mech = "C37:%s" % f
        if (f == "generate_with_relative_time" and zero_at is not None and esc and isinstance(esc[0], AssertionError)
                and [strict(a[2]) for a in actual] == [strict(e[2]) for e in expected[:zero_at]]
                and all(a[1] == "N" for a in actual)):
            mech = "C37:generate_with_relative_time:zero-delay"
        res.violation(mech, {"why": why, "case": desc, "expected": show_timed(expected), "expected_terminal": terminal[0] if terminal else None,
                             "observed": show_timed(actual[:40]), "escaped_to_scheduler": [repr(e) for e in esc[:2]]},
                      {"seed": seed, "idx": idx})


def second_subscription_case(case: dict, seed: int, idx: int, res: UnitResult) -> None:
    """The factory's observable is subscribed a second time, long after its first subscription is over: it emits its specified
    sequence again, relative to the second subscription (one-shot iterables given to from_iterable are exhausted: skipped)."""
    f, P = case["factory"], case["P"]
    if f == "from_iterable" and P["container"] in ("generator", "iterator"):
        return
    T2 = case["sub_at"] + 2000.0
    case2 = dict(case, sub_at=T2)
    try:
        expected, terminal = model(case2)
    except OverflowError:
        return
    if f == "timer" and P["form"] == "datetime":
        expected = [(T2, "N", 0)]          # the absolute due time has passed: fires at once
    lab = Lab("num")
    first, second = lab.observer("first", inner=False), lab.observer("second", inner=False)
    holder: dict = {}

    def sub(o: Any) -> None:
        if "src" not in holder:
            holder["src"] = build(case, lab.ts)
        if case["mode"] == "factory":
            o.subscription = holder["src"].subscribe(o)
        else:
            o.subscription = holder["src"].subscribe(o, scheduler=lab.ts)
    lab.at(case["sub_at"], lambda: sub(first))
    lab.at(T2, lambda: sub(second))
    over = [False]

    def budget(n: int) -> None:
        if n > 2 * ACTION_BUDGET and not over[0]:
            over[0] = True
            lab.ts.stop()
    lab.action_hook = budget
    lab.run()
    res.count("second_subscriptions_checked")
    why = "action budget exceeded" if over[0] else compare(expected, terminal, second.timed(), UnitResult())
    if why is not None:
        res.violation("C37:%s:second-subscription" % f, {"why": why, "case": describe(case), "second_subscribed_at": T2, "expected": show_timed(expected),
                                                          "observed": show_timed(second.timed()[:40]), "first": show_timed(first.timed()[:40])},
                      {"seed": seed, "idx": idx})


def run_unit(unit: dict, res: UnitResult) -> None:
    for idx in range(unit["lo"], unit["hi"]):
        run_case(unit["seed"], idx, res)


def replay(rep: dict, res: UnitResult) -> None:
    run_case(rep["seed"], rep["idx"], res)
