"""C25 A disposable's action runs at most once (dsched: real threads, controlled interleavings)."""
from __future__ import annotations

from typing import Any

from ..common import UnitResult, case_rng

ID = "C25"
LEVEL = "exploration"
RULE = ("scenarios {Disposable, BooleanDisposable, ScheduledDisposable on an EventLoopScheduler / an ImmediateScheduler (the dispose actions of concurrent callers overlap) / a NewThreadScheduler (one thread per action), re-entrant dispose from the action} x "
        "{2,3} threads x {1,2} dispose() calls per thread, run under the deterministic thread scheduler: exhaustive enumeration of all "
        "schedules with <= b preemptions (yield point = every source line of reactivex/disposable/{disposable,booleandisposable,scheduleddisposable,singleassignmentdisposable}.py and every "
        "lock operation) plus seeded random / PCT schedules; single-thread call histories; distinct = distinct decision list per scenario; "
        "non-trivial = at least one preemptive switch or > 2 context switches happened")
ASSUMPTIONS = ["free-running units: real threads, switch interval 1 us, yields injected at bytecode granularity (sys.monitoring INSTRUCTION) in the files under test; not replayable, a violation carries the recorded event log; the distinct event orders seen are in the evidence sets free_interleavings:*",
               "line-granular serialisation: interleavings inside one source line are not produced",
               "threading.Lock/RLock/Condition/Event/Thread are replaced by instrumented equivalents while reactivex is imported"]
REQUIRED = {"decided_runs": {"quick": 500, "thorough": 5000}, "preemptive_switches": {"quick": 300, "thorough": 3000},
            "dfs_complete_scenarios": {"quick": 4, "thorough": 6},
            "scheduled_eventloop": {"quick": 300, "thorough": 3000}, "scheduled_immediate": {"quick": 300, "thorough": 3000},
            "scheduled_newthread": {"quick": 300, "thorough": 3000},
            "runs:free": {"quick": 2000, "thorough": 40000}, "free_injected_yields": {"quick": 2000, "thorough": 40000}}
UNIT_TIMEOUT = {"quick": 240, "thorough": 3000}
FILES = ("disposable/disposable.py", "disposable/booleandisposable.py", "disposable/scheduleddisposable.py",
         "disposable/singleassignmentdisposable.py")
# the event loop's own lines are not yield points here (its lock/condition operations still are): C31 covers the loop itself


def scenario(c: Any, P: dict) -> dict:
    from .. import dsched as D
    from reactivex.disposable import BooleanDisposable, Disposable, ScheduledDisposable
    kind, nthreads, ncalls = P["kind"], P["threads"], P["calls"]
    sched_kind = P.get("sched", "eventloop")
    viol: list = []
    obs: dict = {}
    runs: list = []          # (thread name) for each action execution
    me = lambda: c.me().name  # noqa: E731
    loop = None

    if kind in ("disposable", "reentrant"):
        def action() -> None:
            runs.append(me())
            c.yp("in-action")
            if kind == "reentrant":
                d.dispose()
        d: Any = Disposable(action)
    elif kind == "boolean":
        d = BooleanDisposable()
    else:
        from reactivex.scheduler import EventLoopScheduler, ImmediateScheduler, NewThreadScheduler
        # the scheduler decides where the dispose actions run: one loop thread (they are serialised by the loop), the calling
        # threads themselves (immediate: the actions of concurrent dispose() calls overlap) or one new thread per action
        if sched_kind == "eventloop":
            loop = EventLoopScheduler()
            target: Any = loop
        elif sched_kind == "immediate":
            target = ImmediateScheduler()
        else:
            target = NewThreadScheduler()
        from reactivex import abc as rxabc

        class Resource(rxabc.DisposableBase):
            """the wrapped resource is NOT idempotent by itself: every dispose() call on it is recorded; in half of the programs it
            is falsy as well (like an empty CompositeDisposable, which defines __len__)"""

            def __len__(self) -> int:
                return 0 if P.get("falsy_resource", (nthreads + ncalls) % 2 == 0) else 1

            def dispose(self) -> None:
                runs.append(me())
                c.yp("in-action")
        d = ScheduledDisposable(target, Resource())

    def worker() -> None:
        for _ in range(ncalls):
            d.dispose()
            if kind != "scheduled" and not d.is_disposed:
                viol.append(("C25:%s:is_disposed-false-after-dispose-returned" % kind, {"thread": me()}))

    ts = [c.Thread(target=worker, name="W") for _ in range(nthreads)]
    for t in ts:
        t.start()
    for t in ts:
        t.join()
    if kind == "scheduled":
        c.wait_quiescent()
        if len(runs) != 1:
            viol.append(("C25:scheduled:inner-dispose-count", {"count": len(runs), "by": runs}))
        elif sched_kind != "immediate" and not runs[0].startswith("T"):
            viol.append(("C25:scheduled:not-on-scheduler-thread", {"by": runs, "scheduler": sched_kind}))
        elif sched_kind == "immediate" and not runs[0].startswith("W"):
            viol.append(("C25:scheduled:not-on-scheduler-thread", {"by": runs, "scheduler": sched_kind}))
        if not d.is_disposed:
            viol.append(("C25:scheduled:is_disposed-false-at-quiescence", {}))
        if loop is not None:
            loop.dispose()
        obs["scheduled_" + sched_kind] = 1
    elif kind == "boolean":
        if d.is_disposed is not True:
            viol.append(("C25:boolean:flag", {"is_disposed": d.is_disposed}))
    else:
        if len(runs) != 1:
            viol.append(("C25:%s:action-count" % kind, {"count": len(runs), "by": runs}))
    obs["dispose_calls"] = nthreads * ncalls
    return {"viol": viol, "obs": obs, "sig": {"action_runs": runs}, "decided": True}


def single_thread_histories(res: UnitResult, seed: int, n: int) -> None:
    from reactivex.disposable import BooleanDisposable, Disposable
    for i in range(n):
        r = case_rng(seed, ID, "st", i)
        k = r.randint(0, 5)
        count = [0]
        reent = r.random() < 0.3
        raising = r.random() < 0.2

        def action() -> None:
            count[0] += 1
            if reent:
                d.dispose()
            if raising:
                raise ValueError("action failed")
        d = Disposable(action)
        b = BooleanDisposable()
        states = []
        for j in range(k):
            try:
                d.dispose()
            except ValueError:
                pass
            b.dispose()
            states.append((d.is_disposed, b.is_disposed))
        # ScheduledDisposable over a scheduler that defers (virtual time): j calls before the scheduler runs, the rest after
        from reactivex import abc as rxabc
        from reactivex.disposable import ScheduledDisposable
        from reactivex.testing import TestScheduler
        ts = TestScheduler()
        wrapped_calls = [0]

        falsy_res = r.random() < 0.5

        class Resource(rxabc.DisposableBase):
            def __len__(self) -> int:
                return 0 if falsy_res else 1

            def dispose(self) -> None:
                wrapped_calls[0] += 1
        sd = ScheduledDisposable(ts, Resource())
        before = r.randint(0, k)
        for j in range(before):
            sd.dispose()
        early = wrapped_calls[0]
        ts.start()
        for j in range(k - before):
            sd.dispose()
        ts.start()
        res.count("scheduled_single_thread_histories")
        if early != 0 or wrapped_calls[0] != (1 if k else 0) or (k > 0 and not sd.is_disposed) or (k == 0 and sd.is_disposed):
            res.violation("C25:single-thread:scheduled-history", {"dispose_calls_before_scheduler_ran": before, "after": k - before,
                                                                   "wrapped_dispose_calls_before_scheduler_ran": early,
                                                                   "wrapped_dispose_calls": wrapped_calls[0], "is_disposed": sd.is_disposed},
                          {"scenario": "st", "params": {"i": i, "seed": seed}, "decisions": []})
        ok = count[0] == (1 if k else 0) and all(s == (True, True) for s in states) and (k > 0 or (not d.is_disposed and not b.is_disposed))
        res.case(key=["st", k, reent, raising], nontrivial=k > 1, sample={"history": ["dispose"] * k, "reentrant": reent, "action_raises": raising, "action_runs": count[0]})
        res.count("single_thread_histories")
        if not ok:
            res.violation("C25:single-thread:history", {"calls": k, "reentrant": reent, "raising": raising, "count": count[0], "states": states},
                          {"scenario": "st", "params": {"i": i, "seed": seed}, "decisions": []})


SCEN = [{"kind": k, "threads": t, "calls": n} for k in ("disposable", "boolean", "scheduled", "reentrant") for t in (2, 3) for n in (1, 2)]
SCEN += [{"kind": "scheduled", "sched": sk, "threads": t, "calls": n} for sk in ("immediate", "newthread") for t in (2, 3) for n in (1, 2)]


def units(tier: str, seed: int) -> list[dict]:
    us: list[dict] = []
    for P in SCEN:
        small = P["threads"] == 2 and P["calls"] == 1
        if tier == "quick":
            if small:
                us.append({"P": P, "mode": "dfs", "bound": 1 if P["kind"] == "scheduled" else 2, "seed": seed, "max_runs": 6000})
            us.append({"P": P, "mode": "random", "runs": 80, "seed": seed})
            us.append({"P": P, "mode": "pct", "runs": 40, "seed": seed})
        else:
            # the immediate / new-thread variants of the scheduled scenario have longer runs (a thread per action): smaller caps
            cap = 15000 if P.get("sched") else 80000
            if small:
                us.append({"P": P, "mode": "dfs", "bound": 3, "seed": seed, "max_runs": cap})
            else:
                us.append({"P": P, "mode": "dfs", "bound": 2, "seed": seed, "max_runs": cap})
            us.append({"P": P, "mode": "random", "runs": 800 if P.get("sched") else 2500, "seed": seed})
            us.append({"P": P, "mode": "pct", "runs": 400 if P.get("sched") else 1200, "seed": seed})
    us.append({"mode": "st", "n": 400 if tier == "quick" else 20000, "seed": seed})
    # free-running tier (real threads, bytecode-granular yield injection): everything that needs no scheduler thread
    for P in SCEN:
        if P["kind"] != "scheduled" or P.get("sched") == "immediate":
            us.append({"P": P, "mode": "free", "runs": 250 if tier == "quick" else 6000, "seed": seed})
    return us


def run_unit(unit: dict, res: UnitResult) -> None:
    if unit["mode"] == "st":
        single_thread_histories(res, unit["seed"], unit["n"])
        return
    P = unit["P"]
    name = "%s%s-%dx%d" % (P["kind"], ("-" + P["sched"]) if P.get("sched") else "", P["threads"], P["calls"])
    if unit["mode"] == "free":
        from ..freerun import explore_free
        explore_free(res, ID, "free-" + name, scenario, P, seed=unit["seed"], runs=unit["runs"], files=tuple("reactivex/" + f for f in FILES))
        return
    from .. import dcheck, dsched as D
    D.install(D.repo_file(*FILES))
    if not dcheck.check_install(res):
        return
    dcheck.explore(res, ID, name, scenario, P, unit["mode"], seed=unit["seed"], runs=unit.get("runs", 0), bound=unit.get("bound", 2),
                   max_runs=unit.get("max_runs", 4000))


def replay(rep: dict, res: UnitResult) -> None:
    if rep["scenario"] == "st":
        single_thread_histories(res, rep["params"]["seed"], rep["params"]["i"] + 1)
        return
    if rep.get("free"):
        from ..freerun import explore_free
        explore_free(res, ID, rep["scenario"], scenario, rep["params"], seed=rep.get("seed", 0), runs=rep.get("runs", 1000), files=tuple("reactivex/" + f for f in FILES))
        return
    from .. import dcheck, dsched as D
    D.install(D.repo_file(*FILES))
    dcheck.replay(res, ID, scenario, rep)
