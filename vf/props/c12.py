"""C12 Switching forwards only the latest inner sequence (virtual time, event model over the trace).

The model walks the ordered event log: every observed outer element is the arrival of an inner; an observed inner
emission is expected in the output iff, at its sequence point, no later outer element had arrived; the previous inner
subscription must be closed (own terminal notification or `unsub`) before the end of the scheduler action in which the
next inner arrived; completion is expected at the event that makes "outer completed and latest inner completed" true;
an outer error or an error of the current inner terminates, errors of stale inners are not delivered.
"""
from __future__ import annotations

from typing import Any

import reactivex.operators as ops

from ..common import UnitResult, case_rng, chunks, show
from ..vlab import Lab
from ._c1x_common import (SUB_AT, action_end_seq, build_source, gen_source, match_exact, new_lab, run_pipeline, show_source,
                          show_timed, show_trace, src_name)

ID = "C12"
LEVEL = "exploration"
RULE = ("seeded random cases: operator (switch_latest on an outer of observables / switch_map / switch_map_indexed / "
        "flat_map_latest with a mapper returning pre-built probes keyed by the outer value), outer probe source (cold, hot "
        "or synchronous) with 0..5 arrivals ending in C / E / never, 1..4 inner probe sources (cold, hot, synchronous) "
        "with 0..4 elements ending in C / E / never (one in five keeps emitting after it was unsubscribed, so that stale "
        "elements and stale errors really reach the operator) on a coarse grid so that lifetimes overlap and an arrival often "
        "coincides with an inner notification; the same inner may arrive again; non-trivial = at least one switch "
        "(an arrival while an earlier inner was still open); subscription with scheduler=TestScheduler or without a "
        "scheduler argument; distinct = digest of (operator, timelines)")
ASSUMPTIONS = ["reactivex.testing.TestScheduler is the clock (checked by C28)", "probe sources are harness code (conforming, except that some inners deliberately ignore their unsubscription)",
               "map / map_indexed are used inside the operators under test (checked by C05)"]
CASES = {"quick": 6000, "thorough": 360000}
UNIT_TIMEOUT = {"quick": 300, "thorough": 3600}
OPS = ["switch_latest", "switch_map", "switch_map_indexed", "flat_map_latest"]
REQUIRED = {"set:ops": len(OPS), "feedback_cases": {"quick": 800, "thorough": 40000}, "switches_with_open_previous": {"quick": 3000, "thorough": 60000},
            "completed_by_outer_last": {"quick": 150, "thorough": 3000}, "completed_by_inner_last": {"quick": 500, "thorough": 10000},
            "current_inner_errors": {"quick": 150, "thorough": 3000}, "outer_errors": {"quick": 150, "thorough": 3000},
            "arrival_ties_with_inner_notification": {"quick": 100, "thorough": 2000},
            "stale_inner_notifications_in_trace": {"quick": 300, "thorough": 6000}, "stale_inner_errors_in_trace": {"quick": 50, "thorough": 1000}}


def units(tier: str, seed: int) -> list[dict]:
    return [{"lo": lo, "hi": hi, "seed": seed} for lo, hi in chunks(CASES[tier], 16 if tier == "quick" else 64)]


def gen_case(r: Any, idx: int) -> dict:
    op = OPS[idx % len(OPS)]
    uniq = [100] if r.random() < 0.5 else None
    domain = "uniq" if uniq else r.choice(["ints", "dups", "falsy"])
    ninner = r.randint(1, 4)
    inners = {}
    for i in range(ninner):
        name = "i%d" % i
        inners[name] = gen_source(r, name, domain=domain, maxlen=4, term=r.choice(["C", "C", "C", "E", "E", None]), uniq=uniq,
                                  kinds=("cold", "cold", "cold", "cold", "hot", "sync"),
                                  hot_base=SUB_AT + r.choice([0, 5, 10, 20, 30]))
        if inners[name]["kind"] != "sync" and r.random() < 0.2:
            # keeps emitting after it was unsubscribed: puts stale-inner elements and errors into the trace
            inners[name]["nonconf"] = True
    names = sorted(inners)
    outer = gen_source(r, "outer", domain="ints", maxlen=5, term=r.choice(["C", "C", "C", "C", "E", None]),
                       kinds=("cold", "cold", "cold", "hot", "sync"))
    outer["tl"] = [(t, k, r.choice(names) if k == "N" else v) for (t, k, v) in outer["tl"]]
    return {"op": op, "outer": outer, "inners": inners, "domain": domain, "scheduler_arg": r.random() < 0.7}


def build(case: dict, lab: Lab, S: dict, outer_src: Any) -> Any:
    op = case["op"]
    if op == "switch_latest":
        return outer_src.pipe(ops.switch_latest())
    if op == "switch_map":
        return outer_src.pipe(ops.switch_map(lambda k: S[k]))
    if op == "switch_map_indexed":
        return outer_src.pipe(ops.switch_map_indexed(lambda k, i: S[k]))
    if op == "flat_map_latest":
        return outer_src.pipe(ops.flat_map_latest(lambda k: S[k]))
    raise KeyError(op)


def monitor(case: dict, lab: Lab) -> tuple[list, list, dict]:
    expected: list = []
    problems: list = []
    st = {"arrivals": 0, "switches_open_prev": 0, "completed_by": None, "cur_err": 0, "stale_err": 0, "outer_err": 0,
          "stale_emits": 0, "tie": 0, "after_end_subs": 0, "subs": 0}
    out_open = True
    outer_done = False
    arrivals: list = []        # [name, arrival_seq, subscription (name, sid) or None, closed_seq or None]
    by_sub: dict = {}          # (name, sid) -> arrival index
    last_inner_event_time = None

    def put(t: float, k: str, v: Any) -> None:
        nonlocal out_open
        if out_open:
            expected.append((t, k, v))
            if k != "N":
                out_open = False

    def latest_done() -> bool:
        if not arrivals:
            return True
        a = arrivals[-1]
        return a[2] is not None and a[3] is not None and a[4] == "C"

    for e in lab.ev:
        kind = e[2]
        if kind == "sub":
            name, sid = e[3], e[4]
            if name == "outer":
                continue
            if not out_open:
                st["after_end_subs"] += 1
                continue
            st["subs"] += 1
            pend = [i for i, a in enumerate(arrivals) if a[2] is None]
            if not pend or arrivals[pend[-1]][0] != name or pend[-1] != len(arrivals) - 1:
                problems.append(("order", "inner %s#%d subscribed at seq %d but the latest arrival waiting for a subscription is %s"
                                 % (name, sid, e[0], arrivals[-1][0] if arrivals and arrivals[-1][2] is None else None)))
                continue
            arrivals[-1][2] = (name, sid)
            by_sub[(name, sid)] = len(arrivals) - 1
        elif kind == "emit":
            name, sid, k, v = e[3], e[4], e[5], e[6]
            if name == "outer":
                if not out_open:
                    continue
                if k == "N":
                    st["arrivals"] += 1
                    if arrivals and arrivals[-1][2] is not None and arrivals[-1][3] is None:
                        st["switches_open_prev"] += 1
                    if last_inner_event_time == e[1]:
                        st["tie"] += 1
                    arrivals.append([src_name(v), e[0], None, None, None])
                elif k == "C":
                    outer_done = True
                    if latest_done():
                        st["completed_by"] = "outer"
                        put(e[1], "C", None)
                else:
                    st["outer_err"] += 1
                    put(e[1], "E", v)
                continue
            i = by_sub.get((name, sid))
            if i is None:
                continue
            last_inner_event_time = e[1]
            a = arrivals[i]
            is_latest = i == len(arrivals) - 1
            if k != "N" and a[3] is None:
                a[3], a[4] = e[0], k
            if not is_latest:
                st["stale_emits"] += 1
                if k == "E":
                    st["stale_err"] += 1
                continue
            if k == "N":
                put(e[1], "N", v)
            elif k == "E":
                if out_open:
                    st["cur_err"] += 1
                put(e[1], "E", v)
            elif outer_done and out_open:
                st["completed_by"] = "inner"
                put(e[1], "C", None)
        elif kind == "unsub":
            i = by_sub.get((e[3], e[4]))
            if i is not None and arrivals[i][3] is None:
                arrivals[i][3], arrivals[i][4] = e[0], "unsub"
                if i == len(arrivals) - 1 and out_open:
                    problems.append(("dropped", "the latest inner %s#%d was unsubscribed at seq %d while the output was still open"
                                     % (e[3], e[4], e[0])))
    # previous inner closed no later than the end of the action in which the next inner arrived
    for i in range(len(arrivals) - 1):
        a, nxt = arrivals[i], arrivals[i + 1]
        if a[2] is None:
            continue
        limit = action_end_seq(lab, nxt[1])
        if a[3] is None or a[3] > limit:
            problems.append(("late_unsub", "inner %s#%d (arrival %d) was still subscribed after the scheduler action (ending at seq %d) in "
                             "which the next inner arrived (seq %d); closed at %s" % (a[2][0], a[2][1], i + 1, limit, nxt[1], a[3])))
    if out_open and arrivals and arrivals[-1][2] is None:
        problems.append(("stall", "the latest inner (%s, arrived at seq %d) was never subscribed" % (arrivals[-1][0], arrivals[-1][1])))
    return expected, problems, st


def describe(case: dict) -> dict:
    return {"op": case["op"], "scheduler_arg": case["scheduler_arg"], "outer": show_source(case["outer"]), "inners": [show_source(s) for s in case["inners"].values()]}


def run_case(seed: int, idx: int, res: UnitResult) -> None:
    r = case_rng(seed, ID, idx)
    case = gen_case(r, idx)
    lab = new_lab()
    S = {s["name"]: build_source(lab, s) for s in case["inners"].values()}
    spec = dict(case["outer"])
    if case["op"] == "switch_latest":
        spec["tl"] = [(t, k, S[v] if k == "N" else v) for (t, k, v) in spec["tl"]]
    outer_src = build_source(lab, spec)
    top = run_pipeline(lab, lambda: build(case, lab, S, outer_src), with_scheduler=case["scheduler_arg"])
    actual = top.timed()
    expected, problems, st = monitor(case, lab)
    desc = describe(case)
    res.case(key=desc, nontrivial=st["switches_open_prev"] >= 1,
             sample={"case": desc, "expected": show_timed(expected), "observed": show_timed(actual), "trace": show_trace(lab, 40)})
    res.note("ops", case["op"])
    res.count("arrivals", st["arrivals"])
    res.count("inner_subscriptions", st["subs"])
    res.count("switches_with_open_previous", st["switches_open_prev"])
    res.count("outputs_compared", len(expected))
    res.count("arrival_ties_with_inner_notification", st["tie"])
    if st["completed_by"]:
        res.count("completed_by_%s_last" % st["completed_by"])
    res.count("current_inner_errors", st["cur_err"])
    res.count("outer_errors", st["outer_err"])
    res.count("stale_inner_notifications_in_trace", st["stale_emits"])
    res.count("stale_inner_errors_in_trace", st["stale_err"])
    if st["after_end_subs"]:
        res.count("obs:subscriptions_after_output_ended", st["after_end_subs"])
    if not case["scheduler_arg"]:
        res.count("cases_subscribed_without_scheduler_argument")
    if any(s["kind"] == "sync" for s in case["inners"].values()):
        res.count("cases_with_sync_inner")
    why = match_exact(expected, actual)
    if why is not None:
        problems.append(("output", why))
    if lab.escaped_to_scheduler:
        problems.append(("escaped", "exception escaped to the scheduler: %r" % (lab.escaped_to_scheduler[0],)))
    if lab.events("escaped"):
        res.count("obs:exception_escaped_into_a_source")
    if getattr(lab, "over_budget", False):
        problems.append(("budget", "more than the action budget of scheduler actions"))
    if problems:
        res.violation("C12:%s:%s" % (case["op"], problems[0][0]),
                      {"problems": [p[1] for p in problems[:4]], "case": desc, "expected": show_timed(expected),
                       "observed": show_timed(actual), "trace": show_trace(lab)}, {"seed": seed, "idx": idx})



# ------------------------------------------------------------------ feedback family (re-entrant switch)
# The downstream subscriber reacts to the k-th element of a SYNCHRONOUS inner by pushing the next inner into the
# outer (a harness-driven Subject) from inside its own on_next. The first inner is then superseded while it is still
# emitting inside its subscribe call, so its remaining elements and its terminal notification reach the operator while
# it is stale: they must not be forwarded and must not influence completion.

def feedback_case(seed: int, idx: int, res: UnitResult) -> None:
    from reactivex.subject import Subject
    from ..vlab import SrcErr
    r = case_rng(seed, ID, "feedback", idx)
    op = OPS[idx % len(OPS)]
    n1 = r.randint(1, 3)
    k = r.randint(1, n1)
    term1 = r.choice(["C", "E", None])
    n2 = r.randint(0, 2)
    term2 = r.choice(["C", "C", "E", None])
    outer_done = r.choice(["before_inner2_ends", "after_inner2_ends", "never"])
    lab = Lab("num")
    first_msgs = [(0, "N", "a%d" % i) for i in range(1, n1 + 1)]
    if term1:
        first_msgs.append((0, term1, SrcErr("stale inner error") if term1 == "E" else None))
    err2 = SrcErr("latest inner error")
    second_msgs = [(10 * (i + 1), "N", "x%d" % i) for i in range(n2)]
    t_end2 = 10 * (n2 + 1)
    if term2:
        second_msgs.append((t_end2, term2, err2 if term2 == "E" else None))
    inner1 = lab.sync("i1", first_msgs)
    inner2 = lab.cold("i2", second_msgs)
    S = {"k1": inner1, "k2": inner2}
    outer: Any = Subject()
    count = [0]

    def on_recv(kind: str, value: Any, obs: Any) -> None:
        if kind == "N" and isinstance(value, str) and value.startswith("a"):
            count[0] += 1
            if count[0] == k:
                outer.on_next(inner2 if op == "switch_latest" else "k2")
    top = lab.observer("top", inner=False, on_recv=on_recv)
    case = {"op": op}
    t_push = SUB_AT + 10
    lab.at(SUB_AT, lambda: top.subscribe_to(build(case, lab, S, outer)))
    lab.at(t_push, lambda: outer.on_next(inner1 if op == "switch_latest" else "k1"))
    t2_end_abs = t_push + t_end2
    if outer_done == "before_inner2_ends":
        lab.at(t_push + 5, outer.on_completed)
    elif outer_done == "after_inner2_ends":
        lab.at(t2_end_abs + 15, outer.on_completed)
    lab.run()
    expected = [(t_push, "N", "a%d" % i) for i in range(1, k + 1)]
    expected += [(t_push + 10 * (i + 1), "N", "x%d" % i) for i in range(n2)]
    if term2 == "E":
        expected.append((t2_end_abs, "E", err2))
    elif term2 == "C" and outer_done != "never":
        expected.append((t2_end_abs if outer_done == "before_inner2_ends" else t2_end_abs + 15, "C", None))
    got = top.timed()
    desc = {"family": "feedback", "op": op, "first_inner": [m[1] if m[1] != "N" else m[2] for m in first_msgs], "switch_at_element": k,
            "second_inner_elements": n2, "second_inner_terminal": term2, "outer_completes": outer_done}
    res.case(key=desc, nontrivial=True, sample={"case": desc, "expected": show_timed(expected), "observed": show_timed(got)} if idx % 40 == 0 else None)
    res.count("feedback_cases")
    if k < n1 or term1:
        res.count("feedback_stale_notifications_reaching_operator", (n1 - k) + (1 if term1 else 0))
    why = match_exact(expected, got)
    if why is not None:
        res.violation("C12:%s:reentrant-switch" % op, {"why": why, "case": desc, "expected": show_timed(expected), "observed": show_timed(got)},
                      {"seed": seed, "idx": idx, "family": "feedback"})

def run_unit(unit: dict, res: UnitResult) -> None:
    for idx in range(unit["lo"], unit["hi"]):
        run_case(unit["seed"], idx, res)
        if idx % 6 == 0:
            feedback_case(unit["seed"], idx, res)


def replay(rep: dict, res: UnitResult) -> None:
    if rep.get("family") == "feedback":
        feedback_case(rep["seed"], rep["idx"], res)
        return
    run_case(rep["seed"], rep["idx"], res)
