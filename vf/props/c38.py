"""C38 Marble diagrams mean what the documented syntax says (independent character scanner; cold/hot delivery)."""
from __future__ import annotations

import datetime as _dt
from fractions import Fraction
from typing import Any

import reactivex as rx
from reactivex.observable.marbles import parse
from reactivex.testing.marbles import marbles_testing

from ..common import UnitResult, case_rng, chunks, show, strict
from ..vlab import Lab

ID = "C38"
LEVEL = "exploration"
RULE = ("seeded well-formed marble strings built from tokens (runs of '-', single/multi-character values, numerals, "
        "decimals, other non-special characters, comma-separated groups that may end in '|' or '#', one terminal, spaces "
        "at token borders and inside groups; optionally elements after the terminal for raise_stopped) with timespans and "
        "shifts given as float, int or timedelta, lookup tables with string and numeric keys and falsy targets, custom "
        "error objects. Four case kinds: parse() against an independent character scanner; from_marbles/cold and hot "
        "on a TestScheduler with 1..3 subscribers (some unsubscribing inside their k-th on_next), scheduler handed to "
        "the factory, to subscribe or both; reactivex.testing.marbles (exp / start(cold) / start(hot)). non-trivial = "
        "the scanner finds >= 1 notification; distinct = digest of the whole case")
ASSUMPTIONS = ["reactivex.testing.TestScheduler is the clock (checked by C28); times are compared with 1 us tolerance (its resolution)",
               "only documented syntax is generated: balanced non-nested groups, no '-' inside groups, no comma outside "
               "groups, no empty group elements, no space between two value characters, number-like tokens are plain "
               "numerals or decimals",
               "a hot subscriber that subscribes exactly at a notification's instant may or may not see it (both accepted, counted)"]
CASES = {"quick": 3000, "thorough": 300000}
REQUIRED = {
    "set:kinds": 4,
    "groups": {"quick": 800, "thorough": 80000},
    "multichar_values": {"quick": 500, "thorough": 50000},
    "numerals": {"quick": 300, "thorough": 30000},
    "decimals": {"quick": 100, "thorough": 10000},
    "strings_with_spaces": {"quick": 500, "thorough": 50000},
    "lookup_hits": {"quick": 200, "thorough": 20000},
    "timedelta_timespans": {"quick": 300, "thorough": 30000},
    "raise_stopped_rejections_expected": {"quick": 60, "thorough": 6000},
    "stopped_strings_parsed_without_raise": {"quick": 60, "thorough": 6000},
    "cold_multi_subscriber_cases": {"quick": 250, "thorough": 25000},
    "hot_multi_subscriber_cases": {"quick": 250, "thorough": 25000},
    "unsubscribe_inside_callback": {"quick": 300, "thorough": 30000},
    "hot_terminal_with_2plus_live_subscribers": {"quick": 80, "thorough": 8000},
    "notifications_compared": {"quick": 8000, "thorough": 800000},
}
UTC = _dt.timezone.utc
E0 = _dt.datetime(1970, 1, 1, tzinfo=UTC)
SPECIAL = "-#|(), "


class MarbleErr(Exception):
    pass


def units(tier: str, seed: int) -> list[dict]:
    return [{"lo": lo, "hi": hi, "seed": seed} for lo, hi in chunks(CASES[tier], 16 if tier == "quick" else 64)]


# ------------------------------------------------------------------------------------------- independent scanner

def convert(token: str) -> Any:
    """numbers are cast to int or float (plain numerals / decimals); anything else stays a string"""
    if token.isascii() and token.isdigit():
        return int(token)
    head, dot, tail = token.partition(".")
    if dot and head.isascii() and head.isdigit() and tail.isascii() and tail.isdigit():
        return float(token)
    return token


def scan(string: str) -> list:
    """The documented table, character by character.  -> [(frame_index, kind, raw_token)] in string order."""
    out: list = []
    frame = 0
    i = 0
    n = len(string)
    while i < n:
        ch = string[i]
        if ch == " ":
            i += 1
        elif ch == "-":
            frame += 1
            i += 1
        elif ch == "|":
            out.append((frame, "C", None))
            frame += 1
            i += 1
        elif ch == "#":
            out.append((frame, "E", None))
            frame += 1
            i += 1
        elif ch == "(":
            at = frame
            frame += 1
            i += 1
            cur = ""
            elems: list = []
            while string[i] != ")":
                c = string[i]
                i += 1
                if c == " ":
                    continue
                frame += 1
                if c == ",":
                    elems.append(cur)
                    cur = ""
                else:
                    cur += c
            elems.append(cur)
            frame += 1
            i += 1
            for e in elems:
                if e == "|":
                    out.append((at, "C", None))
                elif e == "#":
                    out.append((at, "E", None))
                else:
                    out.append((at, "N", e))
        else:
            at = frame
            cur = ""
            while i < n and string[i] not in "-#|(),":
                if string[i] != " ":
                    cur += string[i]
                    frame += 1
                i += 1
            out.append((at, "N", cur))
    return out


def expected_parse(string: str, timespan: Fraction, shift: Fraction, lookup: dict | None, error: Any, raise_stopped: bool) -> Any:
    """-> "ValueError" | [(time Fraction, kind, value)]"""
    toks = scan(string)
    stopped = False
    out = []
    for (frame, kind, raw) in toks:
        if stopped and raise_stopped:
            return "ValueError"
        if kind in "CE":
            stopped = True
        t = frame * timespan + shift
        if kind == "N":
            v = convert(raw)
            if lookup is not None and v in lookup:
                v = lookup[v]
            out.append((t, "N", v))
        elif kind == "E":
            out.append((t, "E", error))
        else:
            out.append((t, "C", None))
    return out


# ------------------------------------------------------------------------------------------- generation

LETTERS = "abcdxyzABQ"
ODD = ["!", "?", "*", "=", "é", "λ", ":", "@"]


def gen_value_token(r: Any, stats: dict) -> str:
    c = r.random()
    if c < 0.35:
        return r.choice(LETTERS)
    if c < 0.55:
        stats["multichar"] += 1
        tok = "".join(r.choice(LETTERS) for _ in range(r.randint(2, 4)))
        return tok if tok.lower() not in ("nan", "inf", "infinity") else "ab"
    if c < 0.72:
        stats["numerals"] += 1
        tok = r.choice(["0", "1", "2", "7", "12", "42", "007", "100", "9"])
        if len(tok) > 1:
            stats["multichar"] += 1
        return tok
    if c < 0.82:
        stats["decimals"] += 1
        stats["multichar"] += 1
        return r.choice(["1.5", "0.25", "12.5", "3.0", "0.0", "10.75"])
    if c < 0.92:
        stats["multichar"] += 1
        return r.choice(LETTERS) + r.choice("0123456789") + r.choice(["", "", "x", "7"])
    return r.choice(ODD)


def gen_string(r: Any, allow_after_terminal: bool, max_frames: int = 40) -> tuple[str, dict]:
    stats = {"multichar": 0, "numerals": 0, "decimals": 0, "groups": 0, "spaces": 0, "after_terminal": 0}
    tokens: list[tuple[str, str]] = []          # (type, text) ; type in dash/value/group/term
    n = r.choice([0, 1, 2, 3, 4, 5, 6, 8, 10])
    last = ""
    for _ in range(n):
        choices = ["dash", "dash", "dash", "group", "value", "value"]
        if last == "value":
            choices = ["dash", "dash", "dash", "group"]          # two adjacent value tokens would merge
        kind = r.choice(choices)
        if kind == "dash":
            tokens.append(("dash", "-" * r.choice([1, 1, 2, 3, 5])))
        elif kind == "value":
            tokens.append(("value", gen_value_token(r, stats)))
        else:
            stats["groups"] += 1
            tokens.append(("group", gen_group(r, stats, with_terminal=False)))
        last = kind
    term = r.choice(["|", "|", "#", "group|", "group#", None, None])
    if term is not None:
        if term.startswith("group"):
            stats["groups"] += 1
            tokens.append(("term", gen_group(r, stats, with_terminal=True, terminal=term[-1])))
        else:
            tokens.append(("term", term))
        tail = r.choice([0, 0, 1, 2])
        for _ in range(tail):
            tokens.append(("dash", "-" * r.randint(1, 3)))
        if allow_after_terminal and r.random() < 0.5:
            stats["after_terminal"] = 1
            after: list[tuple[str, str]] = []
            for _ in range(r.randint(1, 3)):
                k = r.choice(["value", "group", "term", "dash"])
                if k == "value":
                    if after and after[-1][0] == "value":
                        after.append(("dash", "-"))
                    after.append(("value", gen_value_token(r, stats)))
                elif k == "group":
                    stats["groups"] += 1
                    after.append(("group", gen_group(r, stats, with_terminal=False)))
                elif k == "term":
                    after.append(("term", r.choice("|#")))
                else:
                    after.append(("dash", "-"))
            if all(t[0] == "dash" for t in after):
                after.append(("term", "|"))
            tokens.extend(after)
    # spaces: only at token borders (never inside a value; two value tokens are never adjacent)
    parts: list[str] = []
    if r.random() < 0.3:
        parts.append(" " * r.randint(1, 3))
        stats["spaces"] = 1
    for (_, text) in tokens:
        parts.append(text)
        if r.random() < 0.15:
            parts.append(" " * r.randint(1, 2))
            stats["spaces"] = 1
    s = "".join(parts)
    if " " in s:
        stats["spaces"] = 1
    return s, stats


def gen_group(r: Any, stats: dict, with_terminal: bool, terminal: str = "|") -> str:
    k = r.choice([1, 1, 2, 2, 3, 4]) if not with_terminal else r.choice([0, 1, 1, 2])
    elems = [gen_value_token(r, stats) for _ in range(k)]
    if with_terminal:
        elems.append(terminal)
    sp = (lambda: " " * r.choice([0, 0, 0, 1]))
    return "(" + sp() + ",".join(sp() + e + sp() for e in elems) + ")"


LOOKUP_TARGETS = [None, 0, False, "", 7, "Z", (1, 2), 2.5, [], "a"]


def gen_lookup(r: Any, string: str) -> dict | None:
    if r.random() < 0.45:
        return None
    vals = [convert(raw) for (_, k, raw) in scan(string) if k == "N"]
    lk: dict = {}
    for v in vals:
        if r.random() < 0.5:
            lk[v] = r.choice(LOOKUP_TARGETS)
    for extra in r.sample(["q", "zz", 99, 4.5], r.randint(0, 2)):
        lk.setdefault(extra, "unused")
    return lk


TIMESPANS = ["1", "1", "1/2", "1/10", "2", "10", "1/4", "1/1000", "3", "5", "0"]    # (a zero timespan is legal: every marble at the shift)


def time_arg(fr: Fraction, form: str) -> Any:
    if form == "timedelta":
        return _dt.timedelta(microseconds=int(fr * 10 ** 6))
    if form == "int" and fr.denominator == 1:
        return int(fr)
    return float(fr)


def gen_case(r: Any, idx: int) -> dict:
    kind = ["parse", "cold", "hot", "ctx"][idx % 4]
    s, stats = gen_string(r, allow_after_terminal=(kind == "parse"), max_frames=40)
    case: dict = {"kind": kind, "string": s, "stats": stats}
    case["lookup"] = gen_lookup(r, s)
    case["custom_error"] = r.random() < 0.5
    if kind == "ctx":
        case["timespan"] = r.choice(["1", "1", "2", "3", "5", "10"])
        case["ts_form"] = r.choice(["float", "int"])
        case["sub"] = r.choice(["exp", "cold", "hot"])
        if (len(s.replace(" ", "")) + 1) * int(case["timespan"]) >= 790:      # stay clear of the dispose time 1000
            case["timespan"] = "1"
        return case
    case["timespan"] = r.choice(TIMESPANS)
    case["ts_form"] = r.choice(["float", "float", "int", "timedelta", "timedelta"])
    if kind == "parse":
        case["shift"] = r.choice(["0", "0", "1", "200", "1/2", "7/4", "-1", "-5/2", "1000"])
        case["shift_form"] = r.choice(["float", "int", "timedelta"])
        case["raise_stopped"] = r.random() < 0.5
        return case
    nsub = r.choice([1, 2, 2, 3])
    if r.random() < 0.12:
        case["timespan"], case["ts_form"] = "1/10", "default"      # documented default of from_marbles / hot
    ts = Fraction(case["timespan"])
    nframes = len(s.replace(" ", ""))
    subs = []
    for _ in range(nsub):
        m = r.randint(-1, max(0, nframes))
        off = ts * m + (ts / 2 if r.random() < 0.8 else 0)      # mostly between two frames; sometimes exactly on one
        subs.append({"at": str(max(Fraction(0), off)), "dispose_at": r.choice([None, None, 1, 1, 2, 3])})
    if kind == "cold":
        for sb in subs:
            sb["at"] = str(Fraction(sb["at"]) + r.choice([0, 100, 200]))
        case["mode"] = r.choice(["factory", "subscribe", "both"])
        case["alias"] = r.random() < 0.3
    else:
        if r.random() < 0.5:           # everybody is there from the start: the common shape
            for sb in subs:
                sb["at"] = "0"
        case["create_at"] = r.choice(["0", "0", "50", "200"])
        case["duetime"] = r.choice(["0", "0", "1", "100", "1/2", "25"])
        case["due_form"] = r.choice(["float", "int", "timedelta", "datetime", "default"])
    case["subs"] = subs
    return case


# ------------------------------------------------------------------------------------------- comparison helpers

def note_stats(case: dict, res: UnitResult) -> None:
    st = case["stats"]
    res.count("groups", st["groups"])
    res.count("multichar_values", st["multichar"])
    res.count("numerals", st["numerals"])
    res.count("decimals", st["decimals"])
    res.count("strings_with_spaces", st["spaces"])
    if case["ts_form"] == "timedelta":
        res.count("timedelta_timespans")
    if case["lookup"]:
        vals = [convert(raw) for (_, k, raw) in scan(case["string"]) if k == "N"]
        res.count("lookup_hits", sum(1 for v in vals if v in case["lookup"]))


def same_value(kind: str, exp: Any, got: Any, default_error: bool) -> bool:
    if kind == "N":
        return strict(exp) == strict(got)
    if kind == "E":
        if default_error:
            return type(got) is Exception and got.args == ("error",)
        return got is exp
    return True


def cmp_lists(exp: list, got: list, default_error: bool, tol: float) -> str | None:
    """exp: [(time Fraction|float, kind, value)], got: [(time, kind, value)]"""
    for i, (e, g) in enumerate(zip(exp, got)):
        if e[1] != g[1]:
            return "notification %d is %s(%r), expected %s(%r)" % (i, g[1], g[2], e[1], e[2])
        et = float(e[0])
        if abs(float(g[0]) - et) > tol:
            return "notification %d %s(%r) at time %r, expected %r" % (i, g[1], g[2], g[0], et)
        if not same_value(e[1], e[2], g[2], default_error):
            return "notification %d carries %r, expected %r" % (i, g[2], e[2])
    if len(exp) != len(got):
        if len(got) < len(exp):
            return "missing notification %d: %s(%r) at %r (got %d of %d)" % (len(got), exp[len(got)][1], exp[len(got)][2], float(exp[len(got)][0]), len(got), len(exp))
        return "unexpected extra notification %d: %s(%r) at %r" % (len(exp), got[len(exp)][1], got[len(exp)][2], got[len(exp)][0])
    return None


def first_diff(exp: list, got: list, default_error: bool) -> int | None:
    for i, (e, g) in enumerate(zip(exp, got)):
        if cmp_lists([e], [g], default_error, 1e-6) is not None:
            return i
    return None if len(exp) == len(got) else min(len(exp), len(got))


def is_subsequence(got: list, offered: list, default_error: bool) -> bool:
    j = 0
    for g in got:
        while j < len(offered) and cmp_lists([offered[j]], [g], default_error, 1e-6) is not None:
            j += 1
        if j == len(offered):
            return False
        j += 1
    return True


def show_list(xs: list) -> list:
    return [[float(t) if isinstance(t, Fraction) else (t.total_seconds() if isinstance(t, _dt.timedelta) else t), k, show(v)] for (t, k, v) in xs]


def unpack_messages(msgs: Any) -> list:
    out = []
    for (t, n) in msgs:
        if isinstance(t, _dt.timedelta):
            t = t.total_seconds()
        out.append((t, n.kind, n.value if n.kind == "N" else (n.exception if n.kind == "E" else None)))
    return out


def cut(seq: list, dispose_at: int | None) -> list:
    """what one subscriber receives from a sequence offered to it: stop after the terminal / after its k-th element"""
    out = []
    n = 0
    for m in seq:
        out.append(m)
        if m[1] in "EC":
            break
        n += 1
        if dispose_at is not None and n == dispose_at:
            break
    return out


# ------------------------------------------------------------------------------------------- case kinds

def run_parse(case: dict, res: UnitResult, error: Any) -> tuple[str, Any] | None:
    ts, shift = Fraction(case["timespan"]), Fraction(case["shift"])
    lookup = case["lookup"]
    exp = expected_parse(case["string"], ts, shift, lookup, error, case["raise_stopped"])
    kw: dict = {"timespan": time_arg(ts, case["ts_form"]), "time_shift": time_arg(shift, case["shift_form"])}
    if lookup is not None:
        kw["lookup"] = lookup
    if error is not None:
        kw["error"] = error
    if case["raise_stopped"]:
        kw["raise_stopped"] = True
    if case["stats"]["after_terminal"]:
        res.count("raise_stopped_rejections_expected" if exp == "ValueError" else "stopped_strings_parsed_without_raise")
    try:
        got: Any = unpack_messages(parse(case["string"], **kw))
    except ValueError as e:
        got = "ValueError"
        if exp != "ValueError":
            return "parse", {"why": "parse raised %r on a well-formed string" % (e,), "expected": show_list(exp)}
    if exp == "ValueError":
        if got != "ValueError":
            return "parse:raise_stopped", {"why": "elements after a terminal marble were accepted although raise_stopped=True", "observed": show_list(got)}
        return None
    res.count("notifications_compared", len(exp))
    why = cmp_lists(exp, got, error is None, 1e-9)
    if why:
        return "parse", {"why": why, "expected": show_list(exp), "observed": show_list(got)}
    return None


def run_cold(case: dict, res: UnitResult, error: Any) -> tuple[str, Any] | None:
    ts = Fraction(case["timespan"])
    parsed = expected_parse(case["string"], ts, Fraction(0), case["lookup"], error, True)
    lab = Lab("num")
    kw: dict = {} if case["ts_form"] == "default" else {"timespan": time_arg(ts, case["ts_form"])}
    if case["lookup"] is not None:
        kw["lookup"] = case["lookup"]
    if error is not None:
        kw["error"] = error
    if case["mode"] in ("factory", "both"):
        kw["scheduler"] = lab.ts
    src = (rx.cold if case["alias"] else rx.from_marbles)(case["string"], **kw)
    observers = []
    for i, sb in enumerate(case["subs"]):
        o = lab.observer("s%d" % i, inner=False, dispose_at=sb["dispose_at"])
        observers.append(o)

        def do_sub(o: Any = o) -> None:
            o.subscription = src.subscribe(o) if case["mode"] == "factory" else src.subscribe(o, scheduler=lab.ts)
            if o.pending_dispose:
                o.dispose()
        lab.at(float(Fraction(sb["at"])), do_sub)
    lab.run()
    if len(observers) > 1:
        res.count("cold_multi_subscriber_cases")
    for o, sb in zip(observers, case["subs"]):
        at = Fraction(sb["at"])
        exp = cut([(at + t, k, v) for (t, k, v) in parsed], sb["dispose_at"])
        if sb["dispose_at"] is not None and sum(1 for m in exp if m[1] == "N") >= sb["dispose_at"]:
            res.count("unsubscribe_inside_callback")
        res.count("notifications_compared", len(exp))
        why = cmp_lists(exp, o.timed(), error is None, 1e-6)
        if why:
            return "cold", {"why": "subscriber %s: %s" % (o.name, why), "expected": show_list(exp), "observed": show_list(o.timed()[:40])}
    if lab.escaped_to_scheduler:
        return "cold", {"why": "exception escaped into the scheduler: %r" % (lab.escaped_to_scheduler[0],)}
    # second phase on the SAME scheduler, after it has run idle once: one more subscriber, started again
    late = lab.observer("late", inner=False)
    t_late = Fraction(int(float(lab.ts.clock)) + 10)

    def sub_late() -> None:
        late.subscription = src.subscribe(late) if case["mode"] == "factory" else src.subscribe(late, scheduler=lab.ts)
    lab.at(float(t_late), sub_late)
    lab.run()
    res.count("cold_second_phase_on_a_scheduler_that_ran_idle")
    exp = [(t_late + t, k, v) for (t, k, v) in parsed]
    why = cmp_lists(exp, late.timed(), error is None, 1e-6)
    if why:
        return "cold", {"why": "subscriber on the re-started scheduler: %s" % why, "expected": show_list(exp), "observed": show_list(late.timed()[:40])}
    return None


def run_hot(case: dict, res: UnitResult, error: Any) -> tuple[str, Any] | None:
    ts = Fraction(case["timespan"])
    parsed = expected_parse(case["string"], ts, Fraction(0), case["lookup"], error, True)
    lab = Lab("num")
    create_at = Fraction(case["create_at"])
    due = Fraction(case["duetime"])
    kw: dict = {"scheduler": lab.ts}
    if case["ts_form"] != "default":
        kw["timespan"] = time_arg(ts, case["ts_form"])
    if case["due_form"] == "datetime":
        kw["duetime"] = E0 + _dt.timedelta(microseconds=int((create_at + due) * 10 ** 6))
    elif case["due_form"] == "default":
        due = Fraction(0)
    else:
        kw["duetime"] = time_arg(due, case["due_form"])
    if case["lookup"] is not None:
        kw["lookup"] = case["lookup"]
    if error is not None:
        kw["error"] = error
    base = create_at + due
    box: dict = {}

    def create() -> None:
        box["src"] = rx.hot(case["string"], **kw)
    if create_at == 0:
        create()
    else:
        lab.at(float(create_at), create)
    observers = []
    order = []
    for i, sb in enumerate(case["subs"]):
        o = lab.observer("s%d" % i, inner=False, dispose_at=sb["dispose_at"])
        observers.append(o)
        at = base + Fraction(sb["at"])

        def do_sub(o: Any = o) -> None:
            order.append(o.name)
            o.subscription = box["src"].subscribe(o)
            if o.pending_dispose:
                o.dispose()
        lab.at(float(at), do_sub)
    lab.run()
    if len(observers) > 1:
        res.count("hot_multi_subscriber_cases")
    absolute = [(base + t, k, v) for (t, k, v) in parsed]
    # expectations per subscriber
    exps = []
    offered: dict = {}
    for o, sb in zip(observers, case["subs"]):
        at = base + Fraction(sb["at"])
        after = [m for m in absolute if m[0] > at]
        tie = [m for m in absolute if m[0] == at]
        cands = [cut(after, sb["dispose_at"])]
        if tie:
            cands.append(cut(tie + after, sb["dispose_at"]))
        exps.append((o, sb, at, cands))
        offered[o.name] = tie + after
    term_t = next((m[0] for m in absolute if m[1] in "EC"), None)
    if term_t is not None and sum(1 for (_, _, at, cands) in exps if at < term_t and cands[0] and cands[0][-1][1] in "EC") >= 2:
        res.count("hot_terminal_with_2plus_live_subscribers")
    for (o, sb, at, cands) in exps:
        got = o.timed()
        whys = [cmp_lists(c, got, error is None, 1e-6) for c in cands]
        if len(cands) > 1:
            res.count("hot_subscription_exactly_at_a_notification_instant")
            if whys[0] is None or whys[1] is None:
                res.count("hot_tie_saw_it" if whys[1] is None and whys[0] is not None else "hot_tie_missed_it")
        ok = any(w is None for w in whys)
        exp = cands[0]
        if exp and sb["dispose_at"] is not None and sum(1 for m in exp if m[1] == "N") >= sb["dispose_at"]:
            res.count("unsubscribe_inside_callback")
        res.count("notifications_compared", len(exp))
        if not ok:
            mech = "hot"
            # judge against the candidate expectation that matches longest
            diffs = [first_diff(c, got, error is None) for c in cands]
            best = max(range(len(cands)), key=lambda i: (diffs[i] if diffs[i] is not None else 10 ** 9, len(cands[i])))
            exp, d = cands[best], diffs[best]
            # mechanism: a subscriber that was subscribed earlier left (terminal / own unsubscribe inside on_next) while
            # the very notification that this subscriber misses was being delivered
            # ... and everything it did receive was offered to it, in order (nothing altered, only omissions)
            explainable = is_subsequence(got, offered[o.name], error is None)
            for cand, dd in zip(cands, diffs):
                if dd is None or dd >= len(cand) or not explainable:
                    continue
                missing = cand[dd]
                idx_o = order.index(o.name) if o.name in order else -1
                for (o2, sb2, at2, cands2) in exps:
                    if o2 is o or o2.name not in order or order.index(o2.name) > idx_o or at2 > missing[0]:
                        continue
                    for e2 in list(cands2) + [o2.timed()]:       # what it should have seen / what it did see
                        leaves = bool(e2) and (e2[-1][1] in "EC" or (sb2["dispose_at"] is not None
                                                                     and sum(1 for m in e2 if m[1] == "N") == sb2["dispose_at"]))
                        if leaves and abs(float(e2[-1][0]) - float(missing[0])) < 1e-6:
                            mech = "hot:subscriber-skipped"
            return mech, {"why": "subscriber %s (subscribed at %r, subscription order %r): %s" % (o.name, float(at), order, whys[best]),
                          "expected": show_list(exp), "observed": show_list(got[:40]),
                          "all_subscribers": [[x.name, show_list(x.timed()[:40])] for x in observers]}
    if lab.escaped_to_scheduler:
        return "hot", {"why": "exception escaped into the scheduler: %r" % (lab.escaped_to_scheduler[0],)}
    return None


def records(recs: Any) -> list:
    out = []
    for rec in recs:
        n = rec.value
        out.append((rec.time, n.kind, n.value if n.kind == "N" else (n.exception if n.kind == "E" else None)))
    return out


def run_ctx(case: dict, res: UnitResult, error: Any) -> tuple[str, Any] | None:
    ts = Fraction(case["timespan"])
    lookup = case["lookup"]
    parsed = expected_parse(case["string"], ts, Fraction(0), lookup, error, True)
    sub = case["sub"]
    res.note("ctx_functions", sub)
    with marbles_testing(timespan=time_arg(ts, case["ts_form"])) as ctx:
        if sub == "exp":
            full = expected_parse(case["string"], ts, Fraction(200), lookup, error, False)
            got = records(ctx.exp(case["string"], lookup, error))
            exp = full
        elif sub == "cold":
            got = records(ctx.start(ctx.cold(case["string"], lookup, error)))
            exp = cut([(200 + t, k, v) for (t, k, v) in parsed], None)
        else:
            got = records(ctx.start(ctx.hot(case["string"], lookup, error)))
            # documented: a marble declared as the first character (time 200 == subscription time) is skipped
            exp = cut([(200 + t, k, v) for (t, k, v) in parsed if t > 0], None)
        exp = [m for m in exp if m[0] < 1000]
    res.count("notifications_compared", len(exp))
    why = cmp_lists(exp, got, error is None, 1e-6)
    if why:
        return "testing." + sub, {"why": why, "expected": show_list(exp), "observed": show_list(got[:40])}
    return None


def describe(case: dict) -> dict:
    d = {k: v for k, v in case.items() if k != "stats"}
    d["lookup"] = show(case["lookup"])
    return d


def run_case(seed: int, idx: int, res: UnitResult) -> None:
    r = case_rng(seed, ID, idx)
    case = gen_case(r, idx)
    error = MarbleErr("custom") if case["custom_error"] else None
    kind = case["kind"]
    res.note("kinds", kind)
    note_stats(case, res)
    desc = describe(case)
    try:
        out = {"parse": run_parse, "cold": run_cold, "hot": run_hot, "ctx": run_ctx}[kind](case, res, error)
    except Exception as e:      # noqa: BLE001 - the library raised on documented syntax
        import traceback
        out = (kind + ":exception", {"why": "raised %r" % (e,), "trace": traceback.format_exc()[-1000:]})
    ntoks = [t for t in scan(case["string"])]
    res.case(key=desc, nontrivial=len(ntoks) >= 1,
             sample={"case": desc, "scanned_(frame,kind,token)": [list(t) for t in ntoks], "violation": out[0] if out else None})
    if out is not None:
        mech, detail = out
        detail = dict(detail)
        detail["case"] = desc
        res.violation("C38:" + mech, detail, {"seed": seed, "idx": idx})


def run_unit(unit: dict, res: UnitResult) -> None:
    for idx in range(unit["lo"], unit["hi"]):
        run_case(unit["seed"], idx, res)


def replay(rep: dict, res: UnitResult) -> None:
    run_case(rep["seed"], rep["idx"], res)
