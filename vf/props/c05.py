"""C05 Element-wise operators match their list semantics (virtual time, model differential)."""
from __future__ import annotations

import itertools
from typing import Any

import reactivex.operators as ops
from reactivex.internal.exceptions import ArgumentOutOfRangeException
from reactivex.notification import OnCompleted, OnError, OnNext

from .. import registry as R
from ..common import UnitResult, case_rng, chunks, show, strict
from ..single import SUB_AT, cut_after_terminal, make_input, match_expected, run_single, run_twice, show_timed
from ..vlab import FalsySrcErr, SrcErr, gen_timeline, show_timeline

ID = "C05"
LEVEL = "exploration"
RULE = ("seeded random cases (operator, parameters incl. 0/len/len+k, predicate/key/comparer from a registry, "
        "timeline of 0..8 elements ending in C/E/never, hot or cold, value domain ints/duplicates/falsy) checked "
        "against a list-computation model with per-output virtual times; non-trivial = the input has >= 1 element "
        "or the model expects >= 1 output; distinct = digest of (operator, parameters, timeline)")
ASSUMPTIONS = ["reactivex.testing.TestScheduler is used as the clock (its ordering is checked independently by C28)",
               "probe sources are harness code (conforming here)"]
CASES = {"quick": 3600, "thorough": 240000}
OPS = ["map", "map_indexed", "filter", "filter_indexed", "take", "skip", "take_while", "take_while_indexed",
       "skip_while", "skip_while_indexed", "distinct", "distinct_until_changed", "pairwise", "start_with",
       "default_if_empty", "ignore_elements", "take_last", "skip_last", "take_last_buffer", "element_at",
       "element_at_or_default", "find", "find_index", "starmap", "pluck", "pluck_attr",
       "materialize", "dematerialize"]
REQUIRED = {"set:ops": len(OPS), "second_subscriptions_checked": {"quick": 300, "thorough": 20000},
            "reentrant_feed_cases": {"quick": 600, "thorough": 40000}}


class Box:
    def __init__(self, a: Any) -> None:
        self.a = a

    def __strict__(self) -> Any:
        from ..common import strict
        return ("Box", strict(self.a))

    def __repr__(self) -> str:
        return "Box(%r)" % (self.a,)


def units(tier: str, seed: int) -> list[dict]:
    return [{"lo": lo, "hi": hi, "seed": seed} for lo, hi in chunks(CASES[tier], 16 if tier == "quick" else 64)]


def gen_case(r: Any, idx: int) -> dict:
    op = OPS[idx % len(OPS)]
    domain = r.choice(["ints", "dups", "falsy", "falsy"])
    hot = r.random() < 0.4
    tl = gen_timeline(r, domain, maxlen=8)
    n = sum(1 for m in tl if m[1] == "N")
    P: dict = {}
    cnt = r.choice([0, 1, 2, n, n + 1, n + 3, max(0, n - 1)])
    if op in ("map",):
        P["f"] = r.choice(sorted(R.MAPPERS))
    elif op == "map_indexed":
        P["f"] = r.choice(sorted(R.MAPPERS_IX))
    elif op in ("filter", "take_while", "skip_while", "find", "find_index"):
        P["p"] = r.choice(sorted(R.PREDICATES))
        if op == "take_while":
            P["inclusive"] = r.random() < 0.5
    elif op in ("filter_indexed", "take_while_indexed", "skip_while_indexed"):
        P["p"] = r.choice(sorted(R.PREDICATES_IX))
        if op == "take_while_indexed":
            P["inclusive"] = r.random() < 0.5
    elif op in ("take", "skip", "take_last", "skip_last", "take_last_buffer", "element_at", "element_at_or_default"):
        P["n"] = cnt
        if op == "element_at_or_default":
            P["default"] = r.choice([None, 0, "d", ()])
    elif op in ("distinct", "distinct_until_changed"):
        P["key"] = r.choice([None, None] + sorted(R.KEYS))
        P["cmp"] = r.choice([None, None] + sorted(R.COMPARERS))
    elif op == "start_with":
        P["args"] = [r.choice([None, 0, "", 5, (1,)]) for _ in range(r.randint(0, 3))]
    elif op == "default_if_empty":
        P["default"] = r.choice([None, 0, "d", False])
        if r.random() < 0.5:
            tl = [m for m in tl if m[1] != "N"]
    elif op == "starmap":
        tl = [(t, k, (v, idx % 3) if k == "N" else v) for (t, k, v) in tl]
    elif op == "pluck":
        tl = [(t, k, ({"a": v, "b": 1} if r.random() < 0.85 else {"b": 2}) if k == "N" else v) for (t, k, v) in tl]
    elif op == "pluck_attr":
        tl = [(t, k, (Box(v) if r.random() < 0.85 else (v,)) if k == "N" else v) for (t, k, v) in tl]
    elif op == "dematerialize":
        new = []
        for (t, k, v) in tl:
            if k == "N":
                c = r.random()
                v = OnNext(v) if c < 0.75 else (OnCompleted() if c < 0.88 else OnError(SrcErr("inner@%s" % t)))
            new.append((t, k, v))
        tl = new
    if op == "materialize" and tl and tl[-1][1] == "E" and r.random() < 0.5:
        # the operator that turns the error into a value: half of the failing timelines end with a falsy error object
        tl = tl[:-1] + [(tl[-1][0], "E", FalsySrcErr("src@%s" % tl[-1][0]))]
    return {"op": op, "P": P, "tl": tl, "hot": hot, "domain": domain}


def regen_timeline(r: Any, case: dict) -> list:
    """another timeline of the same shape (same value wrapping) for the second subscription"""
    c2 = gen_case(r, OPS.index(case["op"]))
    return c2["tl"]


def build(case: dict) -> Any:
    op, P = case["op"], case["P"]
    if op == "map":
        return ops.map(R.MAPPERS[P["f"]])
    if op == "map_indexed":
        return ops.map_indexed(R.MAPPERS_IX[P["f"]])
    if op == "filter":
        return ops.filter(R.PREDICATES[P["p"]])
    if op == "filter_indexed":
        return ops.filter_indexed(R.PREDICATES_IX[P["p"]])
    if op == "take":
        return ops.take(P["n"])
    if op == "skip":
        return ops.skip(P["n"])
    if op == "take_while":
        return ops.take_while(R.PREDICATES[P["p"]], P["inclusive"])
    if op == "take_while_indexed":
        return ops.take_while_indexed(R.PREDICATES_IX[P["p"]], P["inclusive"])
    if op == "skip_while":
        return ops.skip_while(R.PREDICATES[P["p"]])
    if op == "skip_while_indexed":
        return ops.skip_while_indexed(R.PREDICATES_IX[P["p"]])
    if op == "distinct":
        return ops.distinct(R.KEYS[P["key"]] if P["key"] else None, R.COMPARERS[P["cmp"]] if P["cmp"] else None)
    if op == "distinct_until_changed":
        return ops.distinct_until_changed(R.KEYS[P["key"]] if P["key"] else None, R.COMPARERS[P["cmp"]] if P["cmp"] else None)
    if op == "pairwise":
        return ops.pairwise()
    if op == "start_with":
        return ops.start_with(*P["args"])
    if op == "default_if_empty":
        return ops.default_if_empty(P["default"])
    if op == "ignore_elements":
        return ops.ignore_elements()
    if op == "take_last":
        return ops.take_last(P["n"])
    if op == "skip_last":
        return ops.skip_last(P["n"])
    if op == "take_last_buffer":
        return ops.take_last_buffer(P["n"])
    if op == "element_at":
        return ops.element_at(P["n"])
    if op == "element_at_or_default":
        return ops.element_at_or_default(P["n"], P["default"])
    if op == "find":
        f = R.PREDICATES[P["p"]]
        return ops.find(lambda x, i, s: f(x))
    if op == "find_index":
        f = R.PREDICATES[P["p"]]
        return ops.find_index(lambda x, i, s: f(x))
    if op == "starmap":
        return ops.starmap(lambda a, b: (b, a))
    if op == "pluck":
        return ops.pluck("a")
    if op == "pluck_attr":
        return ops.pluck_attr("a")
    if op == "materialize":
        return ops.materialize()
    if op == "dematerialize":
        return ops.dematerialize()
    raise KeyError(op)


def model(case: dict, seen: list, t0: float) -> list:
    """List semantics + 'an output carries the time of the input that determines it'."""
    op, P = case["op"], case["P"]
    seen = cut_after_terminal(seen)
    elems = [(t, v) for (t, k, v) in seen if k == "N"]
    term = seen[-1] if seen and seen[-1][1] in "EC" else None
    xs = [v for (_, v) in elems]
    out: list = []

    def finish(items: list, terminal: Any = "src") -> list:
        res = [(t, "N", v) for (t, v) in items]
        if terminal == "src":
            if term is not None:
                res.append(term)
        elif terminal is not None:
            res.append(terminal)
        return res

    if op == "map":
        f = R.MAPPERS[P["f"]]
        return finish([(t, f(v)) for t, v in elems])
    if op == "map_indexed":
        f = R.MAPPERS_IX[P["f"]]
        return finish([(t, f(v, i)) for i, (t, v) in enumerate(elems)])
    if op == "filter":
        f = R.PREDICATES[P["p"]]
        return finish([(t, v) for t, v in elems if f(v)])
    if op == "filter_indexed":
        f = R.PREDICATES_IX[P["p"]]
        return finish([(t, v) for i, (t, v) in enumerate(elems) if f(v, i)])
    if op == "take":
        n = P["n"]
        if n == 0:
            return [(t0, "C", None)]
        if len(elems) >= n:
            return finish(elems[:n], (elems[n - 1][0], "C", None))
        return finish(elems)
    if op == "skip":
        return finish(elems[P["n"]:])
    if op in ("take_while", "take_while_indexed"):
        f = R.PREDICATES[P["p"]] if op == "take_while" else R.PREDICATES_IX[P["p"]]
        for i, (t, v) in enumerate(elems):
            ok = f(v) if op == "take_while" else f(v, i)
            if ok:
                out.append((t, v))
            else:
                if P["inclusive"]:
                    out.append((t, v))
                return finish(out, (t, "C", None))
        return finish(out)
    if op in ("skip_while", "skip_while_indexed"):
        f = R.PREDICATES[P["p"]] if op == "skip_while" else R.PREDICATES_IX[P["p"]]
        flags = [f(v) if op == "skip_while" else f(v, i) for i, (t, v) in enumerate(elems)]
        k = len(list(itertools.takewhile(bool, flags)))
        return finish(elems[k:])
    if op == "distinct":
        key = R.KEYS[P["key"]] if P["key"] else (lambda v: v)
        eq = R.COMPARERS[P["cmp"]] if P["cmp"] else (lambda a, b: a == b)
        seenk: list = []
        for t, v in elems:
            kk = key(v)
            if not any(eq(o, kk) for o in seenk):
                seenk.append(kk)
                out.append((t, v))
        return finish(out)
    if op == "distinct_until_changed":
        key = R.KEYS[P["key"]] if P["key"] else (lambda v: v)
        eq = R.COMPARERS[P["cmp"]] if P["cmp"] else (lambda a, b: a == b)
        have = False
        cur = None
        for t, v in elems:
            kk = key(v)
            if not have or not eq(cur, kk):
                out.append((t, v))
                have, cur = True, kk
        return finish(out)
    if op == "pairwise":
        return finish([(elems[i + 1][0], (xs[i], xs[i + 1])) for i in range(len(xs) - 1)])
    if op == "start_with":
        return finish([(t0, a) for a in P["args"]] + elems)
    if op == "default_if_empty":
        if not elems and term is not None and term[1] == "C":
            return finish([(term[0], P["default"])])
        return finish(elems)
    if op == "ignore_elements":
        return finish([])
    if op == "take_last":
        if term is not None and term[1] == "C":
            n = P["n"]
            last = xs[-n:] if n > 0 else []
            return finish([(term[0], v) for v in last])
        return finish([])
    if op == "skip_last":
        n = P["n"]
        return finish([(elems[i + n][0], xs[i]) for i in range(len(xs) - n)] if n >= 0 else elems)
    if op == "take_last_buffer":
        if term is not None and term[1] == "C":
            n = P["n"]
            return finish([(term[0], xs[-n:] if n > 0 else [])])
        return finish([])
    if op in ("element_at", "element_at_or_default"):
        n = P["n"]
        if len(elems) > n:
            return finish([elems[n]], (elems[n][0], "C", None))
        if term is not None and term[1] == "C":
            if op == "element_at":
                return [(term[0], "E", ArgumentOutOfRangeException)]
            return finish([(term[0], P["default"])])
        return finish([])
    if op in ("find", "find_index"):
        f = R.PREDICATES[P["p"]]
        for i, (t, v) in enumerate(elems):
            if f(v):
                return finish([(t, v if op == "find" else i)], (t, "C", None))
        if term is not None and term[1] == "C":
            return finish([(term[0], None if op == "find" else -1)])
        return finish([])
    if op == "starmap":
        return finish([(t, (v[1], v[0])) for t, v in elems])
    if op == "pluck":
        for t, v in elems:
            if "a" not in v:
                return finish(out, (t, "E", KeyError))
            out.append((t, v["a"]))
        return finish(out)
    if op == "pluck_attr":
        for t, v in elems:
            if not isinstance(v, Box):
                return finish(out, (t, "E", AttributeError))
            out.append((t, v.a))
        return finish(out)
    if op == "materialize":
        res = [(t, "N", OnNext(v)) for t, v in elems]
        if term is not None:
            res.append((term[0], "N", OnCompleted() if term[1] == "C" else OnError(term[2])))
            res.append((term[0], "C", None))
        return res
    if op == "dematerialize":
        for t, v in elems:
            if v.kind == "N":
                out.append((t, v.value))
            elif v.kind == "E":
                return finish(out, (t, "E", v.exception))
            else:
                return finish(out, (t, "C", None))
        return finish(out)
    raise KeyError(op)


def describe(case: dict) -> dict:
    return {"op": case["op"], "params": show(case["P"]), "hot": case["hot"], "timeline": show_timeline(case["tl"])}


def run_case(seed: int, idx: int, res: UnitResult) -> None:
    r = case_rng(seed, ID, idx)
    case = gen_case(r, idx)
    msgs, seen = make_input(r, case["tl"], case["hot"])
    expected = model(case, seen, SUB_AT)
    lab, obs, src = run_single(lambda lab, s: s.pipe(build(case)), msgs, case["hot"])
    actual = obs.timed()
    desc = describe(case)
    nontrivial = any(m[1] == "N" for m in seen) or any(e[1] == "N" for e in expected)
    res.case(key=desc, nontrivial=nontrivial, sample={"case": desc, "expected": show_timed(expected), "observed": show_timed(actual)})
    res.note("ops", case["op"])
    res.count("outputs_compared", len(expected))
    if any(not v and not isinstance(v, BaseException) for (_, k, v) in seen if k == "N"):
        res.count("cases_with_falsy_input")
    why = match_expected(expected, actual)
    if why is None and lab.escaped_to_scheduler:
        why = "exception escaped to scheduler: %r" % (lab.escaped_to_scheduler[0],)
    if why is not None:
        res.violation("C05:%s" % case["op"], {"why": why, "case": desc, "expected": show_timed(expected), "observed": show_timed(actual)},
                      {"seed": seed, "idx": idx})
    if why is None and not case["hot"] and r.random() < 0.4:
        # the same observable object subscribed again over a source that yields DIFFERENT data to its second subscription
        tl2 = regen_timeline(r, case)
        lab2, o1, o2, t2 = run_twice(lambda lab, s: s.pipe(build(case)), list(case["tl"]), tl2)
        exp2 = model(case, [(t2 + t, k, v) for (t, k, v) in tl2], t2)
        res.count("second_subscriptions_checked")
        why2 = match_expected(exp2, o2.timed())
        if why2 is not None:
            res.violation("C05:%s:second-subscription" % case["op"], {"why": why2, "case": desc, "second_timeline": show_timeline(tl2),
                                                                      "expected": show_timed(exp2), "observed": show_timed(o2.timed())},
                          {"seed": seed, "idx": idx})


def reentrant_feed_case(seed: int, idx: int, res: UnitResult) -> None:
    """The source is a Subject that is fed from inside the deliveries: the operator's subscriber publishes the next input element
    from its on_next (a feedback loop), and a plain subscriber of the source, subscribed last, keeps the feed going when the
    operator swallowed an element. list(input) is what a subscriber that subscribed first saw; the output must still be the
    list result (no virtual time here: kinds and values are compared)."""
    from reactivex.subject import Subject
    r = case_rng(seed, ID, "reentrant", idx)
    case = gen_case(r, idx)
    xs = [v for (t, k, v) in case["tl"] if k == "N"]
    if any(k == "E" for (t, k, v) in case["tl"]):
        return
    n = len(xs)
    subject: Any = Subject()
    everything: list = []
    subject.subscribe(everything.append)
    st = {"next": 0, "subscribed": False}

    def push_next() -> None:
        if st["subscribed"] and st["next"] < n:
            i = st["next"]
            st["next"] += 1
            subject.on_next(xs[i])
    got: list = []

    def on_next(v: Any) -> None:
        got.append(("N", v))
        push_next()
    subject.pipe(build(case)).subscribe(on_next, lambda e: got.append(("E", e)), lambda: got.append(("C", None)))

    def pump(v: Any) -> None:
        if st["next"] == len(everything):
            push_next()
    subject.subscribe(pump)
    st["subscribed"] = True
    push_next()
    subject.on_completed()
    desc = describe(case)
    desc["family"] = "re-entrant feed"
    if len(everything) != n or st["next"] != n:
        res.count("reentrant_setup_not_serial")
        return
    seen = [(float(i), "N", v) for i, v in enumerate(xs)] + [(float(n), "C", None)]
    exp = [(k, v) for (t, k, v) in model(case, seen, 0.0)]
    res.count("reentrant_feed_cases")
    res.case(key=desc, nontrivial=n >= 2)
    ok = len(exp) == len(got) and all(a[0] == b[0] and (a[0] != "N" or strict(a[1]) == strict(b[1])) for a, b in zip(exp, got))
    if not ok:
        res.violation("C05:%s:reentrant-source" % case["op"], {"why": "output differs from the list result when the source is fed from inside the deliveries",
                                                                "case": desc, "input": show(xs), "expected": show(exp), "observed": show(got)},
                      {"seed": seed, "idx": idx, "family": "reentrant"})


def run_unit(unit: dict, res: UnitResult) -> None:
    for idx in range(unit["lo"], unit["hi"]):
        run_case(unit["seed"], idx, res)
        if idx % 3 == 0:
            reentrant_feed_case(unit["seed"], idx, res)


def replay(rep: dict, res: UnitResult) -> None:
    if rep.get("family") == "reentrant":
        reentrant_feed_case(rep["seed"], rep["idx"], res)
        return
    run_case(rep["seed"], rep["idx"], res)
