"""C35 Periodic scheduling threads state, keeps the period and stops (virtual time + dsched)."""
from __future__ import annotations

from typing import Any

from ..common import UnitResult, case_rng

ID = "C35"
LEVEL = "exploration"
RULE = ("(a) virtual time: schedule_periodic on VirtualTimeScheduler / TestScheduler / HistoricalScheduler with generated periods (int, float, "
        "timedelta), initial states (incl. None/0), dispose times between and exactly on ticks, raise positions; interval(p) and timer(d, p) "
        "(d == p and d != p) on a TestScheduler; oracle: the k-th invocation happens exactly at t0 + k*period and receives the state returned by "
        "the (k-1)-th, none after dispose (a dispose exactly on a tick is a counted tie), none after a raising invocation, interval/timer emit "
        "0,1,2,... at their ticks; (b) controlled clock: EventLoopScheduler, NewThreadScheduler, ThreadPoolScheduler, TimeoutScheduler and "
        "CatchScheduler(EventLoopScheduler) under the deterministic thread scheduler, a second thread disposes after a virtual sleep, the action "
        "may take virtual time and may raise at its k-th invocation: state threading, invocation k exactly at t0 + k*period while the action is shorter "
        "than the period, no invocation later than one period after dispose() returned, none after a raise (CatchScheduler: "
        "handler called once, True swallows); stall runs additionally deschedule a library thread for 0.3-1.5 periods of virtual time at a "
        "uniformly drawn line of the scheduler files: an invocation that starts after dispose() returned is a violation unless the invoking "
        "thread had already evaluated the implementation's is-disposed guard for this tick before it was stalled (guard lines located by AST; "
        "the in-flight window in which best-effort cancellation cannot act) (CatchScheduler: "
        "handler called once, True swallows); distinct = digest of the case / (program, decision list); non-trivial = >= 2 invocations expected")
ASSUMPTIONS = ["virtual-time part: the library's virtual-time schedulers are the clock (their ordering is checked by C28)",
               "controlled-clock part: instrumented threading primitives and virtual clock (vf/dsched.py); best-effort cancellation is asserted "
               "one period after dispose() returned (DESIGN §4 rule 4)"]
REQUIRED = {"virtual_cases": {"quick": 900, "thorough": 30000}, "invocations_checked": {"quick": 2500, "thorough": 60000},
            "dispose_on_tick_ties": {"quick": 30, "thorough": 900}, "raising_cases": {"quick": 150, "thorough": 4000},
            "observable_ticks_checked": {"quick": 800, "thorough": 20000}, "decided_runs": {"quick": 400, "thorough": 4000},
            "set:thread_kinds": 5, "set:virtual_kinds": 3, "virtual_stalls": {"quick": 100, "thorough": 1000},
            "runs_with_guard_evaluated_after_a_stall_spanning_dispose": {"quick": 50, "thorough": 500}}
UNIT_TIMEOUT = {"quick": 240, "thorough": 3000}
FILES = ("scheduler/periodicscheduler.py", "scheduler/newthreadscheduler.py", "scheduler/catchscheduler.py", "scheduler/eventloopscheduler.py",
         "scheduler/timeoutscheduler.py")
TKINDS = ("eventloop", "newthread", "threadpool", "timeout", "catch")


# ------------------------------------------------------------------ (a) virtual time

def virtual_case(seed: int, idx: int, res: UnitResult) -> None:
    import datetime as dt
    import reactivex as rx
    from reactivex.scheduler import HistoricalScheduler, VirtualTimeScheduler
    from reactivex.testing import TestScheduler
    r = case_rng(seed, ID, "virt", idx)
    kind = ("vts", "test", "hist")[idx % 3]
    res.note("virtual_kinds", kind)
    epoch = dt.datetime(2022, 3, 1, tzinfo=dt.timezone.utc)
    s: Any = {"vts": lambda: VirtualTimeScheduler(0.0), "test": TestScheduler, "hist": lambda: HistoricalScheduler(epoch)}[kind]()

    def clock() -> float:
        k = s._clock
        return (k - epoch).total_seconds() if kind == "hist" else float(k)

    def rel(t: float) -> Any:
        return dt.timedelta(seconds=t) if kind == "hist" or r.random() < 0.3 else (int(t) if t == int(t) and r.random() < 0.5 else float(t))

    def ab(t: float) -> Any:
        return epoch + dt.timedelta(seconds=t) if kind == "hist" else float(t)

    shape = r.choice(["periodic", "periodic", "periodic", "interval", "timer"])
    period = r.choice([1, 2, 5, 10, 0.5, 2.5])
    t0 = r.choice([0, 3, 10])
    horizon = t0 + period * r.randint(3, 8) + r.choice([0, 0.25])
    dispose_at = r.choice([None, t0 + period * r.randint(1, 4), t0 + period * r.randint(0, 4) + period / 2, t0])
    raise_at = r.choice([None, None, None, 1, 2, 4])
    case = {"kind": kind, "shape": shape, "period": period, "t0": t0, "horizon": horizon, "dispose_at": dispose_at, "raise_at": raise_at}
    res.count("virtual_cases")
    problem = None
    if shape == "periodic":
        init = r.choice([None, 0, 7, "s"])
        calls: list = []          # (clock, state)
        escaped: list = []

        none_at = r.choice([None, None, 1, 2, 3])         # the action RETURNS None at this call: the next state is None

        def action(state: Any) -> Any:
            calls.append((clock(), state))
            if raise_at is not None and len(calls) == raise_at:
                raise ValueError("periodic action failed")
            return None if len(calls) == none_at else (state, len(calls))
        holder: dict = {}
        case["none_at"] = none_at

        def start(sch: Any, st: Any) -> None:
            holder["d"] = s.schedule_periodic(rel(period), action, init)
        s.schedule_absolute(ab(t0), start)
        if dispose_at is not None:
            s.schedule_absolute(ab(dispose_at), lambda sch, st: holder["d"].dispose() if "d" in holder else None)
        for _ in range(3):
            try:
                s.advance_to(ab(horizon))
                break
            except ValueError as e:
                escaped.append(e)
        case["init"] = init
        # model
        exp: list = []
        k = 1
        state: Any = init
        tie = False
        while t0 + k * period <= horizon + 1e-9:
            t = t0 + k * period
            if dispose_at is not None and t > dispose_at + 1e-9:
                break
            if dispose_at is not None and abs(t - dispose_at) <= 1e-9:
                tie = True
                break
            exp.append((t, state))
            if raise_at is not None and k == raise_at:
                break
            state = None if k == none_at else (state, k)
            k += 1
        if none_at is not None and len(exp) > none_at:
            res.count("periodic_runs_continuing_with_state_None")
        if raise_at is not None:
            res.count("raising_cases")
        got = calls
        ok = len(got) == len(exp) or (tie and len(got) == len(exp) + 1)
        if tie:
            res.count("dispose_on_tick_ties")
        if ok:
            full = exp + ([(dispose_at, state)] if tie and len(got) == len(exp) + 1 else [])
            for (et, es), (gt, gs) in zip(full, got):
                res.count("invocations_checked")
                if abs(et - gt) > 1e-6:
                    problem = ("C35:virtual:%s:invocation-not-at-k-times-period" % kind, {"expected_time": et, "time": gt})
                    break
                if es != gs or type(es) is not type(gs):
                    problem = ("C35:virtual:%s:state-not-threaded" % kind, {"expected_state": repr(es), "state": repr(gs)})
                    break
        else:
            what = "invocation-after-dispose" if dispose_at is not None and len(got) > len(exp) and (raise_at is None or len(got) <= raise_at) else (
                "invocation-after-raise" if raise_at is not None and len(got) > raise_at else "invocation-count")
            problem = ("C35:virtual:%s:%s" % (kind, what), {"expected": [(t, repr(x)) for t, x in exp], "observed": [(t, repr(x)) for t, x in got]})
        if problem is None and raise_at is not None and len(got) >= raise_at and not escaped:
            problem = ("C35:virtual:%s:raise-swallowed" % kind, {})
        nontrivial = len(exp) >= 2
        sample = {"case": case, "invocations": [(t, repr(x)) for t, x in got[:6]]}
    else:
        # interval / timer observables on the numeric TestScheduler
        ts = TestScheduler()
        d = period if shape == "interval" else r.choice([period, period, 1, 3, 0])
        got2: list = []
        sub: dict = {}
        o = rx.interval(rel(period)) if shape == "interval" else rx.timer(d if r.random() < 0.5 else float(d), rel(period))
        use_factory_scheduler = r.random() < 0.5
        if use_factory_scheduler:
            o = rx.interval(rel(period), scheduler=ts) if shape == "interval" else rx.timer(d, rel(period), scheduler=ts)
        ts.schedule_absolute(float(t0), lambda sch, st: sub.__setitem__("d", o.subscribe(lambda v: got2.append((float(ts._clock), v)), scheduler=None if use_factory_scheduler else ts)))
        if dispose_at is not None:
            ts.schedule_absolute(float(dispose_at), lambda sch, st: sub["d"].dispose() if "d" in sub else None)
        ts.advance_to(float(horizon))
        case["due"] = d
        exp2: list = []
        k = 0
        tie = False
        while True:
            t = t0 + d + k * period
            if t > horizon + 1e-9:
                break
            if dispose_at is not None and t > dispose_at + 1e-9:
                break
            if dispose_at is not None and abs(t - dispose_at) <= 1e-9 and dispose_at > t0:
                tie = True
                break
            exp2.append((t, k))
            k += 1
            if k > 50:
                break
        if tie:
            res.count("dispose_on_tick_ties")
        ok = got2 == exp2 or (tie and got2 == exp2 + [(dispose_at, k)])
        res.count("observable_ticks_checked", len(got2))
        if not ok and not (dispose_at is not None and dispose_at == t0):
            problem = ("C35:virtual:%s" % shape, {"expected": exp2, "observed": got2})
        nontrivial = len(exp2) >= 2
        sample = {"case": case, "emissions": got2[:6]}
    res.case(key=case, nontrivial=nontrivial, sample=sample)
    if problem:
        problem[1]["case"] = case
        res.violation(problem[0], problem[1], {"scenario": "virt", "params": {"seed": seed, "idx": idx}, "decisions": []})


# ------------------------------------------------------------------ (b) controlled clock, real threads

def gen_program(r: Any, kind: str) -> dict:
    period = r.choice([0.1, 0.2, 0.5])
    return {"kind": kind, "period": period, "period_as": r.choice(["float", "timedelta"]), "init": r.choice([None, 0, 5]),
            "work": r.choice([0.0, 0.0, 0.0, period / 4, period, period * 1.5]), "raise_at": r.choice([None, None, 2, 3]), "none_at": r.choice([None, None, 1, 2]),
            "dispose_after": r.choice([None, period * 2.5, period * 3, period * 0.5, period * 4.25]), "handler": r.choice([True, True, False]),
            "horizon": period * r.choice([5, 6])}


HAND = [
    {"kind": "eventloop", "period": 0.1, "period_as": "float", "init": 0, "work": 0.0, "raise_at": None, "dispose_after": 0.25, "handler": True, "horizon": 0.5},
    {"kind": "newthread", "period": 0.1, "period_as": "float", "init": None, "work": 0.0, "raise_at": None, "dispose_after": 0.2, "handler": True, "horizon": 0.5},
    {"kind": "catch", "period": 0.1, "period_as": "timedelta", "init": 1, "work": 0.0, "raise_at": 2, "dispose_after": None, "handler": True, "horizon": 0.5},
    {"kind": "newthread", "period": 0.1, "period_as": "float", "init": 0, "work": 0.15, "raise_at": None, "dispose_after": 0.2, "handler": True, "horizon": 0.6},
    {"kind": "eventloop", "period": 0.1, "period_as": "float", "init": 0, "work": 0.1, "raise_at": None, "dispose_after": 0.25, "handler": True, "horizon": 0.6},
]


STALL_FILES = ("periodicscheduler.py", "newthreadscheduler.py", "catchscheduler.py", "eventloopscheduler.py", "timeoutscheduler.py")
_GUARDS: list = []


def guard_lines() -> frozenset:
    """(basename, line) of every `if <...is_disposed / is_set()...>` inside a schedule_periodic of the periodic schedulers:
    the points at which an implementation looks at the cancellation before it invokes the action"""
    if not _GUARDS:
        import ast
        import os
        found = set()
        for path in D_repo_files("scheduler/periodicscheduler.py", "scheduler/newthreadscheduler.py"):
            tree = ast.parse(open(path).read())
            for fn in ast.walk(tree):
                if isinstance(fn, ast.FunctionDef) and fn.name == "schedule_periodic":
                    for n in ast.walk(fn):
                        if isinstance(n, (ast.If, ast.While)) and any(k in ast.unparse(n.test) for k in ("is_disposed", "is_set")):
                            found.add((os.path.basename(path), n.lineno))
        _GUARDS.append(frozenset(found))
    return _GUARDS[0]


def D_repo_files(*names: str) -> tuple:
    from .. import dsched as D
    return D.repo_file(*names)


def scenario(c: Any, P: dict) -> dict:
    import datetime
    from reactivex.scheduler import (CatchScheduler, EventLoopScheduler, NewThreadScheduler, ThreadPoolScheduler,
                                     TimeoutScheduler)
    from .. import dsched as D
    kind, period = P["kind"], P["period"]
    handled: list = []
    inner = None
    if kind == "eventloop":
        s: Any = EventLoopScheduler()
        inner = s
    elif kind == "newthread":
        s = NewThreadScheduler()
    elif kind == "threadpool":
        s = ThreadPoolScheduler(2)
    elif kind == "timeout":
        s = TimeoutScheduler()
    else:
        inner = EventLoopScheduler()
        s = CatchScheduler(inner, lambda ex: (handled.append(ex), P["handler"])[1])
    calls: list = []     # (seq, clock, state)
    viol: list = []
    t0 = c.clock
    c.watch_lines = guard_lines()

    def action(state: Any) -> Any:
        calls.append((len(c.events), c.clock, state, c.me().name))
        c.log("tick", len(calls), state)
        c.yp("in-action")
        if P["work"]:
            c.sleep(P["work"])
        if P["raise_at"] is not None and len(calls) == P["raise_at"]:
            raise ValueError("periodic action failed")
        return None if len(calls) == P.get("none_at") else (state, len(calls))

    p_arg = datetime.timedelta(seconds=period) if P["period_as"] == "timedelta" else period
    d = s.schedule_periodic(p_arg, action, P["init"])
    disposed_at = [None]

    def disposer() -> None:
        if P["dispose_after"] is not None:
            c.sleep(P["dispose_after"])
            c.log("dispose_call")
            d.dispose()
            c.log("dispose_ret")
            disposed_at[0] = (len(c.events), c.clock)

    t = D.VThread(target=disposer, name="K")
    t.start()
    t.join()
    rest = t0 + P["horizon"] - c.clock
    if rest > 0:
        c.sleep(rest)
    c.log("horizon")
    d.dispose()
    end_seq = len(c.events)
    c.sleep(3 * period)       # no wait for quiescence: a periodic that fails to stop would never become quiescent
    def segment(x: tuple) -> list:
        """what the invoking thread did between its last blocking wait (or previous invocation) and this invocation"""
        prev = max([y[0] for y in calls if y[3] == x[3] and y[0] < x[0]], default=-1)
        mine = [w for w in c.watch_log if w[1] == x[3] and prev < w[0] <= x[0]]
        waits = [i for i, w in enumerate(mine) if w[2] == "wait"]
        return mine[waits[-1] + 1:] if waits else mine

    def fair(x: tuple) -> bool:
        """False when the invoking thread was stalled after it had evaluated the scheduler's is-disposed guard for this
        tick and before it called the action: dispose() cannot stop an invocation that is already past the guard (DESIGN 4,
        rule 4). An invocation whose guard was evaluated after the stall, or that evaluated no guard at all, is fair game."""
        seg = [w[2] for w in segment(x)]
        if "stall" not in seg or "visit" not in seg:
            return True
        last_stall = len(seg) - 1 - seg[::-1].index("stall")
        last_visit = len(seg) - 1 - seg[::-1].index("visit")
        return last_visit > last_stall
    late = [x for x in calls if x[0] >= end_seq and x[1] > t0 + P["horizon"] + period + 1e-6 and fair(x)]
    if late:
        viol.append(("C35:%s:invocation-more-than-one-period-after-final-dispose" % kind, {"clocks": [x[1] - t0 for x in late]}))
    state: Any = P["init"]
    for k, (seq, clock, st, _th) in enumerate(calls, start=1):
        if st != state or type(st) is not type(state):
            viol.append(("C35:%s:state-not-threaded" % kind, {"k": k, "expected": repr(state), "got": repr(st)}))
            break
        state = None if k == P.get("none_at") else (state, k)
        if clock < t0 + k * period - 1e-6:
            viol.append(("C35:%s:invocation-before-k-times-period" % kind, {"k": k, "clock": clock - t0}))
        # (a thread that was descheduled for a stretch of virtual time inside schedule_periodic shifts the whole grid:
        #  the absolute-grid and minimum-count checks only apply to runs without injected stalls)
        if not c.stalls and P["work"] < period and clock > t0 + k * period + 1e-6:
            # the schedulers correct for the time the action took: ticks stay on the grid while the action is shorter than the period
            viol.append(("C35:%s:invocation-off-the-period-grid" % kind, {"k": k, "clock": clock - t0, "expected": k * period, "work": P["work"]}))
    if P["raise_at"] is not None and len(calls) > P["raise_at"]:
        viol.append(("C35:%s:invocation-after-raise" % kind, {"invocations": len(calls), "raise_at": P["raise_at"]}))
    if disposed_at[0] is not None:
        after = [x for x in calls if x[0] >= disposed_at[0][0] and x[1] > disposed_at[0][1] + period + 1e-6 and fair(x)]
        if after:
            viol.append(("C35:%s:invocation-more-than-one-period-after-dispose" % kind, {"dispose_clock": disposed_at[0][1] - t0, "clocks": [x[1] - t0 for x in after]}))
        # rule 4: dispose() returned strictly before the tick's instant on the logical clock => that tick must not be
        # invoked (an invocation at the very instant of dispose_ret is the tolerated race)
        later = [x for x in calls if x[0] >= disposed_at[0][0] and x[1] > disposed_at[0][1] + 1e-6 and fair(x)]
        if later and not after:
            viol.append(("C35:%s:invocation-after-dispose-returned-before-its-tick" % kind,
                         {"dispose_clock": disposed_at[0][1] - t0, "clocks": [x[1] - t0 for x in later]}))
    obs_guard = 0
    if disposed_at[0] is not None:
        # runs in which the strict rule was exercised: a thread was stalled and evaluated a guard afterwards, after dispose() returned
        stalled = {}
        for w in c.watch_log:
            if w[2] == "stall":
                stalled[w[1]] = True
            elif w[2] == "visit" and stalled.get(w[1]) and w[0] >= disposed_at[0][0]:
                obs_guard = 1
    # expected minimum number of invocations (bounded liveness): ticks strictly before any stop reason
    stop = P["horizon"]
    if P["dispose_after"] is not None:
        stop = min(stop, P["dispose_after"])
    n_min = 0
    k = 1
    tcur = period
    while tcur < stop - 1e-6:
        # ticks stay on the period grid while the action is shorter than the period; a longer action delays the next tick
        n_min += 1
        if P["raise_at"] is not None and k == P["raise_at"]:
            break
        k += 1
        tcur += max(period, P["work"])
    if len(calls) < n_min and not c.stalls:
        viol.append(("C35:%s:missing-invocations" % kind, {"invocations": len(calls), "at_least": n_min}))
    if kind == "catch" and P["raise_at"] is not None and len(calls) >= P["raise_at"]:
        if len(handled) != 1:
            viol.append(("C35:catch:handler-calls", {"calls": len(handled)}))
        if P["handler"] and c.thread_exc:
            viol.append(("C35:catch:handled-exception-escaped", {"exc": [repr(e) for _, e in c.thread_exc]}))
        if not P["handler"] and not c.thread_exc:
            viol.append(("C35:catch:unhandled-exception-swallowed", {}))
    if inner is not None:
        inner.dispose()
    return {"viol": viol, "obs": {"invocations_checked": len(calls), "runs_with_guard_evaluated_after_a_stall_spanning_dispose": obs_guard, "raising_cases": 1 if P["raise_at"] is not None and len(calls) >= P["raise_at"] else 0},
            "sig": {"ticks": [round(x[1] - t0, 6) for x in calls]}, "decided": True}


def units(tier: str, seed: int) -> list[dict]:
    q = tier == "quick"
    us: list[dict] = []
    n = 1200 if q else 36000
    per = n // (6 if q else 24)
    for lo in range(0, n, per):
        us.append({"mode": "virt", "lo": lo, "hi": lo + per, "seed": seed})
    for hi, _ in enumerate(HAND):
        us.append({"mode": "dfs", "hand": hi, "bound": 1, "seed": seed, "max_runs": 800 if q else 30000})
    nprog = 3 if q else 30
    for kind in TKINDS:
        for lo in range(0, nprog, 3 if q else 6):
            us.append({"mode": "random", "kind": kind, "progs": [lo, lo + (3 if q else 6)], "runs": 30 if q else 250, "seed": seed})
        # stalls around a dispose that falls between two ticks: exercises the guard every implementation evaluates before a tick
        for j in range(1 if q else 6):
            us.append({"mode": "stallx", "kind": kind, "j": j, "runs": 200 if q else 1500, "seed": seed})
    return us


def run_unit(unit: dict, res: UnitResult) -> None:
    if unit["mode"] == "virt":
        for idx in range(unit["lo"], unit["hi"]):
            virtual_case(unit["seed"], idx, res)
        return
    from .. import dcheck, dsched as D
    D.install(D.repo_file(*FILES))
    D.DEFAULT_MAX_STEPS = 50000      # runs of this check take < 1000 steps (evidence: steps_per_run_below); no progress within 50000 is reported
    if not dcheck.check_install(res):
        return
    if unit["mode"] == "dfs":
        P = HAND[unit["hand"]]
        res.note("thread_kinds", P["kind"])
        dcheck.explore(res, ID, "hand%d-%s" % (unit["hand"], P["kind"]), scenario, P, "dfs", bound=unit["bound"], max_runs=unit["max_runs"], on_failed="violation")
        return
    if unit["mode"] == "stallx":
        r = case_rng(unit["seed"], ID, "stallx", unit["kind"], unit["j"])
        period = r.choice([0.1, 0.25, 1.0])
        k = r.randint(1, 3)
        P = {"kind": unit["kind"], "period": period, "period_as": r.choice(["float", "timedelta"]), "init": None, "work": 0.0, "raise_at": None,
             "dispose_after": period * (k + r.choice([0.2, 0.45, 0.7])), "handler": True, "horizon": period * (k + 2)}
        res.note("thread_kinds", P["kind"])
        dcheck.explore(res, ID, "stallx%d-%s" % (unit["j"], P["kind"]), scenario, P, "stall", seed=unit["seed"], runs=unit["runs"], stall_files=STALL_FILES,
                       stall_durations=(period * 0.3, period * 0.6, period * 1.5), on_failed="violation")
        return
    for pi in range(*unit["progs"]):
        P = gen_program(case_rng(unit["seed"], ID, unit["kind"], pi), unit["kind"])
        res.note("thread_kinds", P["kind"])
        name = "gen%d-%s" % (pi, P["kind"])
        dcheck.explore(res, ID, name, scenario, P, "random", seed=unit["seed"], runs=unit["runs"], on_failed="violation")
        dcheck.explore(res, ID, name, scenario, P, "pct", seed=unit["seed"], runs=unit["runs"] // 2, on_failed="violation")
        dcheck.explore(res, ID, name, scenario, P, "stall", seed=unit["seed"], runs=unit["runs"], stall_files=STALL_FILES,
                       stall_durations=(P["period"] * 0.6, P["period"] * 1.5), on_failed="violation")


def replay(rep: dict, res: UnitResult) -> None:
    if rep["scenario"] == "virt":
        virtual_case(rep["params"]["seed"], rep["params"]["idx"], res)
        return
    from .. import dcheck, dsched as D
    D.install(D.repo_file(*FILES))
    D.DEFAULT_MAX_STEPS = 50000      # runs of this check take < 1000 steps (evidence: steps_per_run_below); no progress within 50000 is reported
    dcheck.replay(res, ID, scenario, rep)
