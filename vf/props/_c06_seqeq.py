"""C06 helper: two-source event model, generator and runner for sequence_equal.

The model is written from the statement: the result is list(first) == list(second) under the comparer, the
output carries the time of the first event after which that answer is determined (a mismatching pair, one side
finished while the other side has more elements, or both finished with equal length), and an error of either
source that arrives before the decision is passed on. Events of the two sources that share an instant are
ordered as they were observed in `lab.ev` (never guessed); events that were not observed (the operator had
already unsubscribed) are put after the observed ones of that instant.
"""
from __future__ import annotations

from typing import Any

import reactivex.operators as ops

from .. import registry as R
from ..single import SUB_AT, cut_after_terminal, make_input
from ..vlab import FALSY, Lab, gen_timeline, gen_value, show_timeline
from ..common import show

KINDS = ["obs", "iter", "list"]


class LoggedIterable:
    """An iterable (harness code) that records every pull into lab.ev as ('it', 'N'|'C', value)."""

    def __init__(self, lab: Lab, values: list) -> None:
        self.lab, self.values = lab, list(values)
        self.iterations = 0

    def __iter__(self) -> Any:
        self.iterations += 1
        for v in self.values:
            self.lab.add("it", "N", v)
            yield v
        self.lab.add("it", "C", None)


def gen_case(r: Any, kind: str, with_cmp: bool) -> dict:
    domain = r.choice(["dups", "falsy", "falsy", "ints"])
    tl1 = gen_timeline(r, domain, maxlen=5)
    vals1 = [v for (_, k, v) in tl1 if k == "N"]
    vals2 = list(vals1)
    c = r.random()
    mutation = "same"
    if c < 0.45:
        pass
    elif c < 0.60 and vals2:
        i = r.randrange(len(vals2))
        vals2[i] = gen_value(r, domain)
        mutation = "replace"
    elif c < 0.72:
        vals2.insert(r.randint(0, len(vals2)), gen_value(r, domain))
        mutation = "longer"
    elif c < 0.84 and vals2:
        del vals2[r.randrange(len(vals2))]
        mutation = "shorter"
    elif c < 0.92 and vals2:
        # equal under ==, different type (0 / False / 0.0) or another falsy value
        i = r.randrange(len(vals2))
        v = vals2[i]
        vals2[i] = {0: False, 1: True}.get(v, r.choice(FALSY)) if isinstance(v, int) and not isinstance(v, bool) else r.choice(FALSY)
        mutation = "retype"
    else:
        vals2 = [gen_value(r, domain) for _ in range(r.randint(0, 4))]
        mutation = "random"
    hot1 = r.random() < 0.35
    case: dict = {"op": "sequence_equal", "kind": kind, "cmp": r.choice(sorted(R.COMPARERS)) if with_cmp else None,
                  "domain": domain, "mutation": mutation, "hot": hot1}
    if kind == "obs":
        steps = (0, 5, 5, 10, 10, 15, 1, 4, 6)
        t = 0
        tl2 = []
        for v in vals2:
            t += r.choice(steps)
            tl2.append((t, "N", v))
        t += r.choice(steps)
        term2 = r.choice(["C", "C", "C", "C", "E", None])
        if term2 == "C":
            tl2.append((t, "C", None))
        elif term2 == "E":
            from ..vlab import SrcErr
            tl2.append((t, "E", SrcErr("src2@%s" % t)))
        case["hot2"] = r.random() < 0.35
        case["tl2"] = tl2
    else:
        case["vals2"] = vals2
        if kind == "list":
            # a plain list/tuple cannot be observed: keep the first source clear of the subscription instant
            tl1 = [(t + 5, k, v) for (t, k, v) in tl1]
            case["as_tuple"] = r.random() < 0.3
    case["tl1"] = tl1
    return case


def describe(case: dict) -> dict:
    d = {"op": "sequence_equal", "second": case["kind"], "comparer": case["cmp"], "hot": case["hot"],
         "timeline": show_timeline(case["tl1"])}
    if case["kind"] == "obs":
        d["second_timeline"] = show_timeline(case["tl2"])
        d["second_hot"] = case["hot2"]
    else:
        d["second_values"] = show(case["vals2"])
        if case.get("as_tuple"):
            d["second_type"] = "tuple"
    return d


def run(r: Any, case: dict) -> tuple:
    """Returns (lab, observer, seen1, seen2 | None)."""
    msgs1, seen1 = make_input(r, case["tl1"], case["hot"])
    lab = Lab("num")
    s1 = lab.hot("s", msgs1) if case["hot"] else lab.cold("s", msgs1)
    seen2 = None
    if case["kind"] == "obs":
        msgs2, seen2 = make_input(r, case["tl2"], case["hot2"])
        second: Any = lab.hot("s2", msgs2) if case["hot2"] else lab.cold("s2", msgs2)
    elif case["kind"] == "iter":
        second = LoggedIterable(lab, case["vals2"])
    else:
        second = tuple(case["vals2"]) if case.get("as_tuple") else list(case["vals2"])
    cmp = R.COMPARERS[case["cmp"]] if case["cmp"] else None
    obs = lab.observer("top")

    def do_sub() -> None:
        op = ops.sequence_equal(second, cmp) if cmp is not None else ops.sequence_equal(second)
        obs.subscribe_to(s1.pipe(op))
    lab.at(SUB_AT, do_sub)
    lab.run()
    return lab, obs, seen1, seen2


def merged_events(lab: Lab, case: dict, seen1: list, seen2: list | None) -> tuple[list, dict]:
    """[(time, side, kind, value)] in the order in which the operator was (or would have been) offered them."""
    info = {"ties": 0, "unobserved": 0}
    obs_a = [e for e in lab.ev if e[2] == "emit" and e[3] == "s"]
    if case["kind"] == "obs":
        obs_b = [(e[0], e[1], e[5], e[6]) for e in lab.ev if e[2] == "emit" and e[3] == "s2"]
        plan_b = [(t, k, v) for (t, k, v) in cut_after_terminal(seen2 or [])]
    elif case["kind"] == "iter":
        obs_b = [(e[0], e[1], e[3], e[4]) for e in lab.ev if e[2] == "it"]
        plan_b = [(None, "N", v) for v in case["vals2"]] + [(None, "C", None)]
    else:
        obs_b = []
        plan_b = [(SUB_AT, "N", v) for v in case["vals2"]] + [(SUB_AT, "C", None)]
    rows = []
    for i, (t, k, v) in enumerate(cut_after_terminal(seen1)):
        if i < len(obs_a):
            e = obs_a[i]
            assert e[5] == k and abs(e[1] - t) < 1e-9, ("harness: first source log differs from plan", e, (t, k, v))
            rows.append((t, 0, e[0], "a", k, v))
        else:
            info["unobserved"] += 1
            rows.append((t, 1, i, "a", k, v))
    last_t = SUB_AT
    for i, (t, k, v) in enumerate(plan_b):
        if i < len(obs_b):
            seq, to, ko, vo = obs_b[i]
            assert ko == k and (t is None or abs(to - t) < 1e-9), ("harness: second source log differs from plan", obs_b[i], (t, k, v))
            rows.append((to, 0, seq, "b", k, v))
            last_t = to
        else:
            if case["kind"] != "list":
                info["unobserved"] += 1
            rows.append((last_t if t is None else t, 1, 10 ** 6 + i, "b", k, v))
    rows.sort(key=lambda x: (x[0], x[1], x[2]))
    times_a = {x[0] for x in rows if x[3] == "a"}
    info["ties"] = sum(1 for x in rows if x[3] == "b" and x[0] in times_a)
    return [(x[0], x[3], x[4], x[5]) for x in rows], info


def model(case: dict, events: list) -> tuple[list, str]:
    eq = R.COMPARERS[case["cmp"]] if case["cmp"] else (lambda a, b: a == b)
    A: list = []
    B: list = []
    done = {"a": False, "b": False}
    for (t, side, k, v) in events:
        if k == "E":
            return [(t, "E", v)], "error"
        mine, other, oside = (A, B, "b") if side == "a" else (B, A, "a")
        if k == "N":
            mine.append(v)
            i = len(mine) - 1
            if i < len(other):
                if not eq(A[i], B[i]):
                    return [(t, "N", False), (t, "C", None)], "mismatch"
            elif done[oside]:
                return [(t, "N", False), (t, "C", None)], "longer"
        else:
            done[side] = True
            if len(other) > len(mine):
                return [(t, "N", False), (t, "C", None)], "shorter"
            if done[oside] and len(other) == len(mine):
                return [(t, "N", True), (t, "C", None)], "equal"
    return [], "undecided"
