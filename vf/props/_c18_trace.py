"""Trace utilities shared by C18 (windows/buffers) and C19 (groups).

The models of these properties are driven by the *observed* input trace: every `emit` event of a probe source
(lab.ev) is one input.  The interval of input i is the open range of event sequence numbers
(seq(input i), seq(input i+1)); everything a synchronous operator does because of input i is recorded inside that
interval.  Index -1 is the interval between subscription and the first input.
"""
from __future__ import annotations

import bisect
from typing import Any, Callable

from ..common import show, strict

INF = float("inf")
EPS = 1e-6


def teq(a: float, b: float) -> bool:
    return abs(a - b) <= EPS


def tlt(a: float, b: float) -> bool:
    return a < b - EPS


class In:
    __slots__ = ("idx", "seq", "t", "src", "k", "v")

    def __init__(self, idx: int, seq: int, t: float, src: str, k: str, v: Any) -> None:
        self.idx, self.seq, self.t, self.src, self.k, self.v = idx, seq, t, src, k, v

    def __repr__(self) -> str:
        return "#%d %s@%s %s %r" % (self.idx, self.src, self.t, self.k, self.v)


class Trace:
    def __init__(self, lab: Any) -> None:
        self.inputs: list[In] = []
        for e in lab.ev:
            if e[2] == "emit":
                self.inputs.append(In(len(self.inputs), e[0], e[1], e[3], e[5], e[6]))
        self._seqs = [i.seq for i in self.inputs]

    def owner(self, seq: int) -> int:
        """index of the input in whose interval `seq` lies (-1: before the first input)"""
        return bisect.bisect_left(self._seqs, seq) - 1

    def lo(self, idx: int) -> float:
        return self.inputs[idx].seq if idx >= 0 else -1

    def hi(self, idx: int) -> float:
        return self.inputs[idx + 1].seq if idx + 1 < len(self.inputs) else INF

    def within(self, seq: int, idx: int) -> bool:
        return self.lo(idx) < seq < self.hi(idx)

    def show(self) -> list:
        return [[i.idx, i.src, i.t, i.k, show(i.v)] for i in self.inputs]


def ident(v: Any) -> Any:
    return v


def deliveries(tr: Trace, obs: Any, src: str = "s", ignore_after: float = INF,
               mapv: Callable[[Any], Any] = ident) -> tuple[list[int], list[tuple[str, str]]]:
    """Attribute every element an inner probe received to the source emission that carried it.
    Returns (input indices in reception order, [(category, problem)])."""
    owners: list[int] = []
    probs: list[tuple[str, str]] = []
    seen_term = False
    for (kind, value, t, seq) in obs.recv:
        if seq >= ignore_after:
            break
        if kind != "N":
            if seen_term:
                probs.append(("elements", "%s: second terminal notification %s at t=%s" % (obs.name, kind, t)))
            seen_term = True
            continue
        if seen_term:
            probs.append(("element_after_end", "%s: element %r at t=%s after the window/group had ended" % (obs.name, value, t)))
            continue
        o = tr.owner(seq)
        inp = tr.inputs[o] if o >= 0 else None
        if inp is None or inp.src != src or inp.k != "N":
            probs.append(("element_outside_source_emission",
                          "%s: element %r at t=%s was not delivered during a source emission (during %r)" % (obs.name, value, t, inp)))
            continue
        if strict(mapv(inp.v)) != strict(value):
            probs.append(("elements", "%s: element %r at t=%s differs from the source element %r being emitted" % (obs.name, value, t, inp.v)))
            continue
        if owners and owners[-1] == o:
            probs.append(("element_duplicated", "%s: source element #%d %r delivered twice" % (obs.name, o, inp.v)))
            continue
        owners.append(o)
    return owners, probs


def terminal_of(obs: Any, ignore_after: float = INF) -> tuple | None:
    for r in obs.recv:
        if r[3] >= ignore_after:
            return None
        if r[0] in "EC":
            return r
    return None


def check_end(tr: Trace, obs: Any, close: tuple | None, ignore_after: float = INF) -> tuple[str, str] | None:
    """close = None (must stay open) | (kind, cause idx|None, time|None, err|None, why)
    kind may be a 2-tuple of alternatives [(kind, cause, time, err), ...] under why == 'tie'."""
    term = terminal_of(obs, ignore_after)
    if close is None:
        if term is not None:
            return ("close", "%s: ended with %s at t=%s but the rule keeps it open" % (obs.name, term[0], term[2]))
        return None
    if close[4] == "tie":
        errs = []
        for alt in close[0]:
            e = check_end(tr, obs, (alt[0], alt[1], alt[2], alt[3], "alt"), ignore_after)
            if e is None:
                return None
            errs.append(e[1])
        return ("close", "%s: end matches neither tie outcome: %s" % (obs.name, " | ".join(errs)))
    kind, cause, t, err, why = close
    cat = "terminal_kind" if why == "terminal" else "close"
    want = "%s%s%s" % (kind, "" if t is None else " at t=%s" % t, "" if cause is None else " during input #%d" % cause)
    if term is None:
        return (cat, "%s: still open, expected to end with %s (%s)" % (obs.name, want, why))
    if term[0] != kind:
        return (cat, "%s: ended with %s at t=%s, expected %s (%s)" % (obs.name, term[0], term[2], want, why))
    if t is not None and not teq(term[2], t):
        return (cat, "%s: ended at t=%s, expected %s (%s)" % (obs.name, term[2], want, why))
    if cause is not None and not tr.within(term[3], cause):
        return (cat, "%s: ended at t=%s during input #%d, expected %s (%s)" % (obs.name, term[2], tr.owner(term[3]), want, why))
    if kind == "E" and err is not None and term[1] is not err:
        return (cat, "%s: ended with error %r, expected the source's error object %r" % (obs.name, term[1], err))
    return None


def check_windows(tr: Trace, top: Any, specs: list[dict], optional_tail: int = 0, ignore_after: float = INF,
                  src: str = "s", mapv: Callable[[Any], Any] = ident, sequential: bool = False) -> list[tuple[str, str]]:
    """specs[k] = {open_t, open_cause (idx | -1 | None), open_after (idx|None), elems [input idx], close}
    sequential: the rule makes the windows non-overlapping (window k+1 starts when window k has been closed)"""
    probs: list[tuple[str, str]] = []
    opens = [r for r in top.recv if r[0] == "N" and r[3] < ignore_after]
    if len(top.children) < len(opens):
        probs.append(("window_count", "outer sequence emitted %d values but only %d are observables" % (len(opens), len(top.children))))
        return probs
    n_req = len(specs) - optional_tail
    if not (n_req <= len(opens) <= len(specs)):
        probs.append(("window_count", "outer sequence emitted %d windows/groups, the rule gives %s" % (
            len(opens), n_req if optional_tail == 0 else "%d..%d" % (n_req, len(specs)))))
    for k, spec in enumerate(specs[:len(opens)]):
        r, child = opens[k], top.children[k]
        if spec.get("open_t") is not None and not teq(r[2], spec["open_t"]):
            probs.append(("open", "%s: emitted at t=%s, rule says t=%s" % (child.name, r[2], spec["open_t"])))
        oc = spec.get("open_cause")
        if oc is not None and not tr.within(r[3], oc):
            probs.append(("open", "%s: emitted at t=%s during input #%d, rule says during input #%d" % (child.name, r[2], tr.owner(r[3]), oc)))
        oa = spec.get("open_after")
        if oa is not None and not r[3] > tr.lo(oa):
            probs.append(("open", "%s: emitted at t=%s before source element #%d arrived" % (child.name, r[2], oa)))
        owners, ps = deliveries(tr, child, src, ignore_after, mapv)
        probs.extend(ps)
        if owners != spec["elems"]:
            probs.append(("elements", "%s: holds source elements %s, rule says %s" % (child.name, owners, spec["elems"])))
        e = check_end(tr, child, spec["close"], ignore_after)
        if e is not None:
            probs.append(e)
        if sequential and k + 1 < len(opens):
            term = terminal_of(child, ignore_after)
            if term is not None and not term[3] < opens[k + 1][3]:
                probs.append(("next_window_opened_before_previous_closed",
                              "%s: closed at t=%s only after window %d had been emitted (non-overlapping rule)" % (child.name, term[2], k + 1)))
    return probs


def check_top_term(tr: Trace, top: Any, term: Any, ignore_after: float = INF) -> list[tuple[str, str]]:
    """term: None (no terminal expected) | "skip" | (kind, cause idx, err)"""
    if term == "skip":
        return []
    e = check_end(tr, top, None if term is None else (term[0], term[1], None, term[2], "terminal"), ignore_after)
    if e is not None:
        return [("top_terminal", e[1])]
    return []


def _is_sublist(small: list, big: list) -> bool:
    it = iter(big)
    return all(any(x == y for y in it) for x in small)


def check_buffers(tr: Trace, top: Any, bspecs: list[dict], ignore_after: float = INF) -> list[tuple[str, str]]:
    """bspecs[j] = {values, cause idx|None, t|None, win, why, pre}: exact one-to-one comparison, in order."""
    probs: list[tuple[str, str]] = []
    outs = [r for r in top.recv if r[0] == "N" and r[3] < ignore_after]
    if len(outs) != len(bspecs):
        cat = "buffer_count"
        if len(outs) < len(bspecs) and all(b.get("why") == "terminal" for b in bspecs[len(outs):]):
            cat = "no_buffer_at_source_completion"
        probs.append((cat, "%d buffers emitted, the window model gives %d" % (len(outs), len(bspecs))))
    for j, (r, b) in enumerate(zip(outs, bspecs)):
        if not isinstance(r[1], list):
            probs.append(("buffer", "buffer %d is not a list: %r" % (j, r[1])))
            continue
        if strict(r[1]) != strict(b["values"]):
            cat = "buffer"
            nv = len(b["values"])
            pre = [strict(x) for x in b.get("pre", [])]
            got = [strict(x) for x in r[1]]
            if pre and len(got) > nv and got[len(got) - nv:] == [strict(x) for x in b["values"]] and _is_sublist(got[:len(got) - nv], pre):
                cat = "buffer_has_element_from_before_opening"
            probs.append((cat, "buffer %d = %r, its window (#%s) holds %r" % (j, r[1], b.get("win"), b["values"])))
        if b.get("t") is not None and not teq(r[2], b["t"]):
            probs.append(("buffer_time", "buffer %d emitted at t=%s, its window closes at t=%s" % (j, r[2], b["t"])))
        if b.get("cause") is not None and not tr.within(r[3], b["cause"]):
            probs.append(("buffer_time", "buffer %d emitted at t=%s during input #%d, its window closes during input #%d" % (
                j, r[2], tr.owner(r[3]), b["cause"])))
    return probs


def windows_to_buffers(tr: Trace, specs: list[dict], mapv: Callable[[Any], Any] = ident) -> list[dict]:
    """Buffers are emitted when their window completes normally; ordered by closing moment, then window index."""
    out = []
    for k, s in enumerate(specs):
        c = s["close"]
        if c is None or c[4] == "tie" or c[0] != "C":
            continue
        oc = s.get("open_cause")
        pre = [mapv(i.v) for i in tr.inputs if oc is not None and oc >= 0 and i.src == "s" and i.k == "N" and i.idx < oc
               and teq(i.t, tr.inputs[oc].t)]
        out.append({"values": [mapv(tr.inputs[i].v) for i in s["elems"]], "cause": c[1], "t": c[2], "win": k,
                    "order": s.get("close_order", 0), "why": c[4], "pre": pre})
    out.sort(key=lambda b: (b["order"], b["win"]))
    return out


def check_subscribed(lab: Any, tr: Trace, wanted: list[tuple[str, int | None]], cat: str = "aux_not_subscribed") -> list[tuple[str, str]]:
    """wanted = [(probe source name, input idx in whose interval it must be subscribed | None = any time)]"""
    subs: dict[str, int] = {}
    for e in lab.ev:
        if e[2] == "sub" and e[3] not in subs:
            subs[e[3]] = e[0]
    probs = []
    for name, idx in wanted:
        if name not in subs:
            probs.append((cat, "the sequence %s that governs the window/group was never subscribed" % name))
        elif idx is not None and not tr.within(subs[name], idx):
            probs.append((cat, "the sequence %s that governs the window/group was subscribed during input #%d, not when it opened (input #%d)" % (
                name, tr.owner(subs[name]), idx)))
    return probs
