"""C39 Fluent operator methods equal their piped operators (behavioural differential, virtual time).

For every public method defined by the Observable mixins (enumerated by reflection) the fluent call
`source.<name>(*args)` and the piped form `source.pipe(reactivex.operators.<name>(*args))` are executed with equal
generated arguments on the same timeline in two fresh laboratories.  The verdict compares
  (a) the subscriber traces (type-strict values, kinds, virtual times; windows / groups through child probes;
      partition's list element-wise; to_future through the future's final state; connectables through a fixed
      connect instant and a late second subscriber), and
  (b) the interaction log of every argument object: invocations (with arguments) of each callback probe,
      sub/unsub/emit logs of each argument source, and the call log of a counting proxy around `scheduler`.
A forwarding spy (reactivex.operators attributes wrapped while the fluent method runs) is advisory evidence only.

Not judged (not mixin methods, outside the statement's "operator method"): Observable.pipe/subscribe/run and the
dunder sugar (__add__, __getitem__, __await__ ...).
"""
from __future__ import annotations

import dataclasses
import datetime as _dt
import functools
import inspect
import sys
from typing import Any

import reactivex
import reactivex.operators as ops
from reactivex import ConnectableObservable, Observable, abc
from reactivex.observer import Observer
from reactivex.scheduler import NewThreadScheduler, TimeoutScheduler

from ..common import UnitResult, case_rng, show
from ..vlab import Lab, ProbeObserver, ProbeSource
from . import _c39_recipes as RC
from ._c39_recipes import ACTION_LIMIT, CONNECT_AT, HORIZON, LATE_AT, SUB_AT, Ctx

ID = "C39"
LEVEL = "exploration"
RULE = ("every public method of the mixin classes in Observable's MRO (reflection) x argument shapes derived from its "
        "signature (minimal, one optional at a time, all positional, all keywords, var-args 1/2) x seeded variants "
        "(source timeline 0..6 elements hot/cold ending C/E/never, parameter values from per-name generators with "
        "per-method overrides); fluent call vs source.pipe(ops.<name>(...)) in two fresh labs with equally seeded "
        "generators; compared: observer tree traces and per-object interaction logs (callback probes with arguments, "
        "argument sources sub/unsub/emit, scheduler proxy calls) with virtual times; non-trivial = neither call raised "
        "and some observer received a notification / the future settled; distinct = (method, shape, generated "
        "arguments, timelines). Sensitivity self-check: on the piped side each optional argument is replaced by the "
        "operator's default and adjacent positional arguments are swapped; the same comparison must notice.")
ASSUMPTIONS = ["reactivex.operators.<name> is the reference; C39 says nothing about the operator's own semantics",
               "reactivex.testing.TestScheduler is the clock (checked by C28); probe sources/observers are harness code",
               "both sides run the same deterministic single-threaded program, so any difference in a per-object log is "
               "caused by the fluent method"]
VARIANTS = {"quick": 8, "thorough": 160}
N_METHODS_TODAY = 131
REQUIRED = {"set:methods_enumerated": N_METHODS_TODAY, "set:methods_judged": N_METHODS_TODAY,
            "set:sched_proxy_methods": 20, "sensitivity_drop_detected": 60, "sensitivity_swap_detected": 25}

# optional parameters whose replacement by the operator's default cannot change behaviour, with the reason
INSENSITIVE_OK = {
    "to_marbles.scheduler": "ops.to_marbles shadows its scheduler argument by the subscribe-time scheduler (operator ignores it)",
    "group_by_until.element_mapper": "required parameter of both forms (no default to fall back to)",
}


# ------------------------------------------------------------------------------------------ enumeration
def mixin_classes() -> list:
    return [c for c in Observable.__mro__ if c.__module__.startswith("reactivex.observable.mixins")]


def enumerate_methods() -> dict:
    """name -> (function, defining class name); every public function defined by a mixin class"""
    out: dict = {}
    for cls in mixin_classes():
        for name, f in vars(cls).items():
            if name.startswith("_"):
                continue
            if isinstance(f, (staticmethod, classmethod)):
                f = f.__func__
            if inspect.isfunction(f) and name not in out:
                out[name] = (f, cls.__name__)
    return out


def params_of(f: Any) -> list:
    return list(inspect.signature(f).parameters.values())[1:]


def ann_of(p: inspect.Parameter) -> str:
    a = p.annotation
    if a is inspect.Parameter.empty:
        return ""
    return a if isinstance(a, str) else inspect.formatannotation(a)


def generator_for(method: str, p: inspect.Parameter) -> Any:
    ov = RC.OVERRIDES.get(method, {}).get("p", {})
    if p.name in ov:
        return ov[p.name]
    if p.kind is p.VAR_POSITIONAL:
        return RC.BY_NAME_VAR.get(p.name)
    if p.kind is p.VAR_KEYWORD:
        return None
    return RC.BY_NAME.get(p.name)


def recipe_problem(method: str, f: Any) -> str | None:
    if not callable(getattr(ops, method, None)):
        return "no function reactivex.operators.%s to compare with" % method
    for p in params_of(f):
        if generator_for(method, p) is None:
            return "no argument recipe for parameter %r of Observable.%s%s" % (p.name, method, inspect.signature(f))
    return None


# ------------------------------------------------------------------------------------------ shapes
def shapes_of(method: str, f: Any) -> list[dict]:
    """argument shapes: {"name", "pos": [names passed positionally], "kw": [names passed by keyword], "nvar": k}"""
    ps = params_of(f)
    P = inspect.Parameter
    req = [p.name for p in ps if p.kind in (P.POSITIONAL_ONLY, P.POSITIONAL_OR_KEYWORD) and p.default is P.empty]
    opt = [p.name for p in ps if p.kind in (P.POSITIONAL_ONLY, P.POSITIONAL_OR_KEYWORD) and p.default is not P.empty]
    kwo = [p.name for p in ps if p.kind is P.KEYWORD_ONLY]
    var = [p.name for p in ps if p.kind is P.VAR_POSITIONAL]
    posonly = [p.name for p in ps if p.kind is P.POSITIONAL_ONLY]
    together = RC.OVERRIDES.get(method, {}).get("with", {})
    out: list[dict] = []

    def add(name: str, pos: list, kw: list, nvar: int) -> None:
        for p in list(pos) + list(kw):
            for q in together.get(p, []):
                if q not in pos and q not in kw:
                    kw = kw + [q]
        sig = (tuple(pos), tuple(sorted(kw)), nvar)
        if all(s["sig"] != sig for s in out):
            out.append({"name": name, "pos": pos, "kw": kw, "nvar": nvar, "sig": sig})

    add("min", req, [], 0)
    if var:
        add("var1", req, [], 1)
        add("var2", req, [], 2)
    for o in opt + kwo:
        if len(opt + kwo) >= 2:
            add("only_" + o, req, [o], 0)
    add("full_pos", req + opt, kwo, 2 if var else 0)
    if not var:
        add("kw", list(posonly), [n for n in req + opt if n not in posonly] + kwo, 0)
    return out


# ------------------------------------------------------------------------------------------ canonical values
def canon(v: Any, depth: int = 0) -> Any:
    """type-strict, laboratory-independent canonical form (no object identities)"""
    if depth > 8:
        return "..."
    if v is None or isinstance(v, (bool, int, str, bytes)):
        return (type(v).__name__, v)
    if isinstance(v, float):
        return ("float", "nan" if v != v else v)
    if isinstance(v, (list, tuple)):
        return (type(v).__name__, tuple(canon(x, depth + 1) for x in v))
    if isinstance(v, dict):
        return ("dict", tuple((canon(k, depth + 1), canon(x, depth + 1)) for k, x in v.items()))
    if isinstance(v, (set, frozenset)):
        return (type(v).__name__, tuple(sorted((canon(x, depth + 1) for x in v), key=repr)))
    if isinstance(v, BaseException):
        return ("exc", type(v).__name__, canon(v.args, depth + 1))
    if isinstance(v, _dt.datetime):
        return ("datetime", v.isoformat())
    if isinstance(v, _dt.timedelta):
        return ("timedelta", v.total_seconds())
    if type(v).__module__ == "reactivex.notification":
        k = getattr(v, "kind", "?")
        if k == "N":
            return ("notification", "N", canon(v.value, depth + 1))
        if k == "E":
            return ("notification", "E", canon(v.exception, depth + 1))
        return ("notification", k)
    c = getattr(v, "__canon__", None)
    if c is not None:
        return canon(c(), depth + 1)
    if isinstance(v, ProbeSource):
        return ("probe", v.name)
    if isinstance(v, abc.ObservableBase):
        if hasattr(v, "key"):
            return ("observable", type(v).__name__, canon(getattr(v, "key"), depth + 1))
        return ("observable", type(v).__name__)
    if dataclasses.is_dataclass(v) and not isinstance(v, type):
        return (type(v).__name__, tuple((f.name, canon(getattr(v, f.name), depth + 1)) for f in dataclasses.fields(v)))
    if isinstance(v, RC.SchedProxy):
        return ("scheduler", "proxy")
    if isinstance(v, abc.SchedulerBase):
        return ("scheduler", type(v).__name__)
    return ("obj", type(v).__qualname__)


_PRIM = {"NoneType", "bool", "int", "str", "bytes", "float"}


def plain(c: Any) -> Any:
    """compact human-readable rendering of canonical forms / log entries (evidence and violation details only)"""
    if isinstance(c, tuple):
        if len(c) == 2 and c[0] in _PRIM:
            return c[1]
        if len(c) == 2 and c[0] in ("tuple", "list", "set", "frozenset") and isinstance(c[1], tuple):
            items = [plain(x) for x in c[1]]
            return tuple(items) if c[0] == "tuple" else (items if c[0] == "list" else {"set": items})
        if len(c) == 2 and c[0] == "dict" and isinstance(c[1], tuple):
            return {repr(plain(k)): plain(v) for k, v in c[1]}
        if len(c) == 3 and c[0] == "exc":
            return "%s%r" % (c[1], plain(c[2]))
        if c and c[0] in ("probe", "observable", "notification", "obj", "scheduler", "datetime", "timedelta"):
            return "<%s>" % " ".join(str(plain(x)) for x in c)
        return tuple(plain(x) for x in c)
    return c


def pretty(entries: list) -> list:
    return [" ".join(repr(plain(x)) if not isinstance(x, str) else x for x in e) if isinstance(e, tuple) else repr(e)
            for e in entries]


# ------------------------------------------------------------------------------------------ one side of a case
class Side:
    def __init__(self) -> None:
        self.lab: Lab | None = None
        self.ctx: Ctx | None = None
        self.raised: Any = None
        self.rtype: str = ""
        self.logs: dict = {}
        self.order: list = []
        self.received = 0
        self.runaway = False
        self.spy_calls: list = []
        self.intended: tuple = ((), {})


def _tuple_children(kind: str, value: Any, obs: ProbeObserver) -> None:
    """group_join emits (left, window): subscribe child probes to observables inside tuples"""
    if kind == "N" and isinstance(value, tuple):
        for item in value:
            if isinstance(item, abc.ObservableBase) and not isinstance(item, ProbeSource):
                child = ProbeObserver(obs.lab, "%s/%d" % (obs.name, len(obs.children)), on_recv=_tuple_children)
                obs.children.append(child)
                child.subscribe_to(item)


def _observer(lab: Lab, name: str) -> ProbeObserver:
    return lab.observer(name, on_recv=_tuple_children, inner_opts={"on_recv": _tuple_children})


def attach(lab: Lab, ctx: Ctx, result: Any, futures: list) -> None:
    """subscribe probes to whatever the method returned"""
    def sub_at(t: float, name: str, o: Any) -> None:
        ob = _observer(lab, name)
        lab.at(t, lambda: ob.subscribe_to(o))

    if isinstance(result, abc.ObservableBase):
        sub_at(SUB_AT, "top", result)
        if ctx.late:
            sub_at(LATE_AT, "late", result)
        if isinstance(result, ConnectableObservable):
            lab.at(CONNECT_AT, lambda: result.connect(lab.ts))
    elif isinstance(result, (list, tuple)) and result and all(isinstance(x, abc.ObservableBase) for x in result):
        for i, x in enumerate(result):
            sub_at(SUB_AT, "top%d" % i, x)
    elif hasattr(result, "add_done_callback") and hasattr(result, "done"):
        futures.append(result)
    else:
        lab.add("result", canon(result))


def future_state(f: Any) -> Any:
    if not f.done():
        return ("pending",)
    if f.cancelled():
        return ("cancelled",)
    e = f.exception()
    if e is not None:
        return ("exception", canon(e))
    return ("result", canon(f.result()))


class Spy:
    """records calls of reactivex.operators.<attr> functions while the fluent method runs"""

    def __init__(self) -> None:
        self.calls: list = []
        self.saved: dict = {}

    def __enter__(self) -> "Spy":
        for name, f in list(vars(ops).items()):
            if name.startswith("_") or not inspect.isfunction(f) or f.__module__ != ops.__name__:
                continue
            self.saved[name] = f
            setattr(ops, name, self._wrap(name, f))
        return self

    def _wrap(self, name: str, f: Any) -> Any:
        calls = self.calls

        @functools.wraps(f)
        def spy(*a: Any, **k: Any) -> Any:
            caller = sys._getframe(1).f_code.co_filename.replace("\\", "/")
            calls.append((name, a, k, "/observable/mixins/" in caller))
            return f(*a, **k)
        return spy

    def __exit__(self, *exc: Any) -> None:
        for name, f in self.saved.items():
            setattr(ops, name, f)


def op_param_map(method: str, f: Any) -> dict:
    """method parameter name -> operator parameter (same name, else same position)"""
    op = getattr(ops, method)
    ops_params = list(inspect.signature(op).parameters.values())
    by_name = {p.name: p for p in ops_params}
    m: dict = {}
    for i, p in enumerate(params_of(f)):
        if p.name in by_name:
            m[p.name] = by_name[p.name]
        elif i < len(ops_params):
            m[p.name] = ops_params[i]
    return m


def build_operator(method: str, f: Any, shape: dict, values: dict) -> tuple:
    """(callable operator-factory, args, kwargs) of the piped form"""
    if method == "do":
        # Observable.do(on_next, on_error, on_completed) <-> ops.do_action(on_next, on_error, on_completed): the method's own
        # documentation names this pipe form (ops.do(Observer(...)) shares ONE stateful observer object between subscriptions,
        # so it differs for a second subscriber - by construction of the comparison, not of the library)
        return ops.do_action, [values.get("on_next"), values.get("on_error"), values.get("on_completed")], {}
    pm = op_param_map(method, f)
    op_names = set(inspect.signature(getattr(ops, method)).parameters)
    declared = [p.name for p in params_of(f) if p.kind is not p.VAR_POSITIONAL]
    var: list = []
    for p in params_of(f):
        if p.kind is p.VAR_POSITIONAL and p.name in values:
            var.extend(values[p.name])
    args: list = [values[n] for n in shape["pos"]]
    kwargs: dict = {}
    if all(n in op_names for n in shape["kw"]):
        kwargs = {n: values[n] for n in shape["kw"]}
    else:
        # the operator names its parameters differently: same arguments by position where the supplied
        # parameters are a prefix of the declaration, else by the operator's name of the same position
        supplied = [n for n in declared if n in shape["pos"] or n in shape["kw"]]
        if supplied == declared[:len(supplied)] and not var:
            args = [values[n] for n in supplied]
        else:
            kwargs = {pm[n].name: values[n] for n in shape["kw"]}
    args.extend(var)
    return getattr(ops, method), args, kwargs


def run_side(side: str, method: str, f: Any, shape: dict, seed: int, variant: int, mutate: tuple | None = None,
             spy: bool = False) -> Side:
    S = Side()
    lab = Lab("num")
    r = case_rng(seed, ID, method, shape["name"], variant)
    supplied = set(shape["pos"]) | set(shape["kw"])
    ps = params_of(f)
    for p in ps:
        if p.kind is p.VAR_POSITIONAL and shape["nvar"]:
            supplied.add(p.name)
    ctx = Ctx(lab, r, method, supplied)
    ov = RC.OVERRIDES.get(method, {})
    # a late second subscriber: always for the multicast family, and in every third variant for every other method (what the method
    # binds at CALL time, e.g. an iterator, must not be shared between the subscriptions of its result)
    ctx.late = bool(ov.get("late")) or variant % 3 == 2
    S.lab, S.ctx = lab, ctx
    source = ov.get("src", RC.src_default)(ctx)
    values: dict = {}
    for p in ps:
        if p.name not in supplied:
            continue
        g = generator_for(method, p)
        if p.kind is p.VAR_POSITIONAL:
            values[p.name] = g(ctx, p.name, ann_of(p), shape["nvar"])
        else:
            values[p.name] = g(ctx, p.name, ann_of(p))
    futures: list = []
    result = None
    if mutate is not None:
        values = mutated(method, f, shape, values, mutate)
    try:
        if side == "fluent":
            args = [values[n] for n in shape["pos"]]
            for p in ps:
                if p.kind is p.VAR_POSITIONAL and p.name in values:
                    args.extend(values[p.name])
            kwargs = {n: values[n] for n in shape["kw"]}
            if spy:
                S.intended = build_operator(method, f, shape, values)
                with Spy() as sp:
                    try:
                        result = getattr(source, method)(*args, **kwargs)
                    finally:
                        S.spy_calls = sp.calls
            else:
                result = getattr(source, method)(*args, **kwargs)
        else:
            opf, a, k = build_operator(method, f, shape, values)
            result = source.pipe(opf(*a, **k))
        S.rtype = type(result).__name__
    except Exception as e:  # raised while building: part of the behaviour, compared
        S.raised = canon(e)
        lab.add("raised", canon(e))
    if S.raised is None:
        attach(lab, ctx, result, futures)

    def guard(n: int) -> None:
        if n > ACTION_LIMIT:
            S.runaway = True
            lab.ts.stop()

    lab.action_hook = guard
    lab.run(until=HORIZON)
    for i, fu in enumerate(futures):
        lab.add("future", i, future_state(fu))
    project(S)
    return S


class _Skip(Exception):
    pass


def mutated(method: str, f: Any, shape: dict, values: dict, mutate: tuple) -> dict:
    """harness-level argument mutations of the PIPED side, used only for the sensitivity self-check"""
    values = dict(values)
    if mutate[0] == "drop":
        name = mutate[1]
        p = next(q for q in params_of(f) if q.name == name)
        if p.kind is p.VAR_POSITIONAL:
            values[name] = []
            return values
        if method == "do":
            values[name] = None
            return values
        op_p = op_param_map(method, f).get(name)
        if op_p is None or op_p.default is inspect.Parameter.empty:
            raise _Skip()
        values[name] = op_p.default
        return values
    if mutate[0] == "swap":
        a, b = mutate[1], mutate[2]
        values[a], values[b] = values[b], values[a]
        return values
    raise ValueError(mutate)


# ------------------------------------------------------------------------------------------ projection / comparison
def base(name: str) -> str:
    return name.split("#")[0]


def project(S: Side) -> None:
    logs: dict = {}
    order: list = []
    for e in S.lab.ev:
        t, kind, data = e[1], e[2], e[3:]
        if kind in ("sub", "unsub"):
            key, entry = ("source", data[0]), (t, kind, data[1])
        elif kind == "emit":
            key, entry = ("source", data[0]), (t, "emit", data[1], data[2], canon(data[3]))
        elif kind == "escaped":
            key, entry = ("source", data[0]), (t, "escaped", data[1], canon(data[2]))
        elif kind == "recv":
            key, entry = ("observer", data[0]), (t, data[1], canon(data[2]))
            S.received += 1
        elif kind == "cb":
            key, entry = ("callback", data[0]), (t, data[1], canon(data[2]))
        elif kind == "sched":
            key, entry = ("scheduler", "scheduler"), (t, data[0], canon(data[1]))
        elif kind == "future":
            key, entry = ("observer", "future%d" % data[0]), (t, data[1])
            if data[1][0] != "pending":
                S.received += 1
        elif kind == "escaped_sched":
            key, entry = ("misc", kind), (t, str(data[0]).split("(")[0])
        else:
            key, entry = ("misc", kind), (t,) + tuple(canon(x) if not isinstance(x, tuple) else x for x in data)
        logs.setdefault(key, []).append(entry)
        order.append((key, entry))
    S.logs, S.order = logs, order


PRIORITY = ["raises", "result_type", "scheduler", "callback", "source", "observer", "misc", "order"]


def compare(A: Side, B: Side) -> list[dict]:
    """differences fluent (A) vs piped (B): [{"cat", "what", "detail"}], most specific first"""
    diffs: list[dict] = []
    if A.raised != B.raised:
        diffs.append({"cat": "raises", "what": "raises", "detail": {"fluent_raised": plain(A.raised), "piped_raised": plain(B.raised)}})
    if A.rtype != B.rtype:
        diffs.append({"cat": "result_type", "what": "result_type", "detail": {"fluent": A.rtype, "piped": B.rtype}})
    for key in sorted(set(A.logs) | set(B.logs)):
        la, lb = A.logs.get(key, []), B.logs.get(key, [])
        if la != lb:
            i = next((j for j in range(min(len(la), len(lb))) if la[j] != lb[j]), min(len(la), len(lb)))
            cat = key[0]
            what = {"scheduler": "scheduler", "callback": "callback:" + base(key[1]), "source": "source:" + base(key[1]),
                    "observer": "trace", "misc": "misc:" + key[1]}[cat]
            diffs.append({"cat": cat, "what": what, "detail": {
                "object": "%s %s" % key, "first_difference_at": i, "fluent_len": len(la), "piped_len": len(lb),
                "fluent": pretty(la[i:i + 3]), "piped": pretty(lb[i:i + 3])}})
    if not diffs and A.order != B.order:
        i = next((j for j in range(min(len(A.order), len(B.order))) if A.order[j] != B.order[j]), 0)
        diffs.append({"cat": "order", "what": "interleaving", "detail": {
            "first_difference_at": i, "fluent": pretty([(k[1],) + e for k, e in A.order[i:i + 3]]),
            "piped": pretty([(k[1],) + e for k, e in B.order[i:i + 3]])}})
    diffs.sort(key=lambda d: PRIORITY.index(d["cat"]))
    return diffs


# ------------------------------------------------------------------------------------------ wall-clock guard
WALL = {"hits": 0}


def _install_wallclock_guard() -> None:
    if getattr(TimeoutScheduler, "_c39_guard", False):
        return
    for cls in (TimeoutScheduler, NewThreadScheduler):
        for m in ("schedule", "schedule_relative", "schedule_absolute"):
            orig = getattr(cls, m)

            def wrapped(self: Any, *a: Any, __orig: Any = orig, **k: Any) -> Any:
                WALL["hits"] += 1
                return __orig(self, *a, **k)
            setattr(cls, m, wrapped)
    TimeoutScheduler._c39_guard = True  # type: ignore[attr-defined]


# ------------------------------------------------------------------------------------------ cases
def describe(method: str, shape: dict, variant: int, S: Side) -> dict:
    return {"method": method, "shape": shape["name"], "positional": shape["pos"], "keywords": shape["kw"],
            "varargs": shape["nvar"], "variant": variant, "generated": S.ctx.desc if S.ctx else {}}


class MethodStats:
    def __init__(self) -> None:
        self.nontrivial = 0
        self.cases = 0
        self.sched_calls = 0
        self.drop: dict = {}    # optional param -> detected?
        self.swap: dict = {}
        self.wall = 0


def run_case(method: str, f: Any, shape: dict, seed: int, variant: int, res: UnitResult, st: MethodStats,
             sensitivity: bool = True, spy: bool = False) -> None:
    w0 = WALL["hits"]
    A = run_side("fluent", method, f, shape, seed, variant)
    B = run_side("piped", method, f, shape, seed, variant)
    desc = describe(method, shape, variant, B)
    st.cases += 1
    if WALL["hits"] != w0:
        st.wall += 1
    if A.runaway or B.runaway:
        res.count("runaway_cases")
        res.inconclusive.append("runaway scheduler loop in %s shape %s variant %d" % (method, shape["name"], variant))
    nontrivial = B.raised is None and B.received > 0
    if nontrivial:
        st.nontrivial += 1
    if B.raised is not None and A.raised == B.raised:
        res.count("cases_both_raised_equally")
    if B.ctx is not None and B.ctx.proxy is not None:
        st.sched_calls += B.ctx.proxy.ncalls
        res.count("scheduler_proxy_calls_compared", B.ctx.proxy.ncalls)
    diffs = compare(A, B)
    nobj = len(B.logs)
    res.count("object_logs_compared", nobj)
    res.count("log_entries_compared", sum(len(v) for v in B.logs.values()))
    res.case(key=desc, nontrivial=nontrivial,
             sample={"case": desc, "piped_observer_trace": {k[1]: pretty(v[:6]) for k, v in B.logs.items() if k[0] == "observer"},
                     "argument_objects": sorted("%s %s" % k for k in B.logs if k[0] != "observer")})
    if diffs:
        d = diffs[0]
        res.violation("C39:%s:%s" % (method, d["what"]),
                      {"why": "fluent method and piped operator differ in: " + ", ".join(sorted({x["what"] for x in diffs})),
                       "case": desc, "first": d["detail"], "others": [x["detail"] for x in diffs[1:3]]},
                      {"seed": seed, "method": method, "shape": shape["name"], "variant": variant})
        return
    if sensitivity and nontrivial:
        sensitivity_checks(method, f, shape, seed, variant, B, res, st)
    if spy:
        spy_run(method, f, shape, seed, variant, res)


def sensitivity_checks(method: str, f: Any, shape: dict, seed: int, variant: int, B: Side, res: UnitResult,
                       st: MethodStats) -> None:
    """piped(args) vs piped(args with one argument defaulted / two swapped): the comparison must notice"""
    ps = params_of(f)
    supplied = [p for p in ps if p.name in (set(shape["pos"]) | set(shape["kw"])) or (p.kind is p.VAR_POSITIONAL and shape["nvar"])]
    for p in supplied:
        optional = p.default is not inspect.Parameter.empty or p.kind is p.VAR_POSITIONAL
        if not optional:
            continue
        st.drop.setdefault(p.name, False)
        if st.drop[p.name]:
            continue
        try:
            M = run_side("piped", method, f, shape, seed, variant, mutate=("drop", p.name))
        except _Skip:
            continue
        res.count("sensitivity_runs")
        if compare(M, B):
            st.drop[p.name] = True
    pos = list(shape["pos"])
    if shape["name"] == "full_pos":
        for a, b in zip(pos, pos[1:]):
            st.swap.setdefault((a, b), False)
            if st.swap[(a, b)]:
                continue
            M = run_side("piped", method, f, shape, seed, variant, mutate=("swap", a, b))
            res.count("sensitivity_runs")
            if compare(M, B):
                st.swap[(a, b)] = True


def same_value(a: Any, b: Any) -> bool:
    if a is b:
        return True
    if type(a) is type(b) and isinstance(a, (int, float, str, bool, bytes, tuple, type(None), _dt.datetime, _dt.timedelta)):
        return a == b
    return False


def spy_run(method: str, f: Any, shape: dict, seed: int, variant: int, res: UnitResult) -> None:
    """advisory: which reactivex.operators functions did the fluent method call, with which arguments"""
    S = run_side("fluent", method, f, shape, seed, variant, spy=True)
    direct = [c for c in S.spy_calls if c[3]]
    res.count("spy_operator_calls_seen", len(S.spy_calls))
    if not direct:
        if S.spy_calls:
            res.note("spy_indirect_only", "%s->%s" % (method, S.spy_calls[0][0]))
        else:
            res.note("spy_blind", "%s:%s" % (method, shape["name"]))
        return
    for (name, a, k, _) in direct:
        if name == method:
            res.note("spy_same_name", method)
        else:
            res.note("spy_other_name", "%s->%s" % (method, name))
    same = [c for c in direct if c[0] == method]
    if same and method != "do":
        opf, ia, ik = S.intended
        sig = inspect.signature(opf)
        try:
            got = sig.bind(*same[0][1], **same[0][2])
            want = sig.bind(*ia, **ik)
            got.apply_defaults()
            want.apply_defaults()
        except TypeError as e:
            res.note("spy_args_unbindable", "%s:%s:%s" % (method, shape["name"], e))
            return
        bad = []
        for n, w in want.arguments.items():
            g = got.arguments.get(n)
            if sig.parameters[n].kind is inspect.Parameter.VAR_POSITIONAL:
                ok = len(g or ()) == len(w) and all(same_value(x, y) for x, y in zip(g or (), w))
            else:
                ok = same_value(g, w)
            if not ok:
                bad.append(n)
        if bad:
            res.note("spy_args_not_identical", "%s:%s:%s" % (method, shape["name"], ",".join(bad)))
        else:
            res.count("spy_bound_arguments_identical")


# ------------------------------------------------------------------------------------------ protocol
def units(tier: str, seed: int) -> list[dict]:
    names = sorted(enumerate_methods())
    n = 16 if tier == "quick" else 48
    out = []
    for i in range(n):
        part = names[i::n]
        if part:
            out.append({"methods": part, "seed": seed, "tier": tier, "enumerated": len(names) if i == 0 else None})
    return out


def run_unit(unit: dict, res: UnitResult) -> None:
    _install_wallclock_guard()
    methods = enumerate_methods()
    seed, tier = unit["seed"], unit["tier"]
    if unit.get("enumerated") is not None:
        for m in methods:
            res.note("methods_enumerated", m)
        res.count("mixin_classes", len(mixin_classes()))
    for method in unit["methods"]:
        if method not in methods:
            res.inconclusive.append("method %s vanished between enumeration and run" % method)
            continue
        f, cls = methods[method]
        why = recipe_problem(method, f)
        if why is not None:
            res.inconclusive.append("method not judged: " + why)
            res.note("methods_without_recipe", method)
            continue
        shapes = shapes_of(method, f)
        st = MethodStats()
        nviol = res.counters.get("violations_seen", 0)
        for shape in shapes:
            res.note("shapes", "%s:%s" % (method, shape["name"]))
            for variant in range(VARIANTS[tier]):
                run_case(method, f, shape, seed, variant, res, st, spy=(variant == 0))
        res.note("shapes_per_method", "%s=%d" % (method, len(shapes)))
        res.count("shapes_total", len(shapes))
        ps = params_of(f)
        covered = set()
        for s in shapes:
            covered |= set(s["pos"]) | set(s["kw"])
            if s["nvar"]:
                covered |= {p.name for p in ps if p.kind is p.VAR_POSITIONAL}
        missing = [p.name for p in ps if p.name not in covered]
        if missing:
            res.inconclusive.append("parameters of %s never supplied: %s" % (method, missing))
        if st.nontrivial == 0:
            res.inconclusive.append("method %s: no non-trivial case (nothing was received in any of %d cases)" % (method, st.cases))
        else:
            res.note("methods_judged", method)
        if st.wall:
            res.count("cases_reaching_wallclock_scheduler", st.wall)
            res.inconclusive.append("method %s reached a wall-clock scheduler in %d cases" % (method, st.wall))
        if any(p.name == "scheduler" for p in ps):
            res.note("methods_with_scheduler_param", method)
            if st.sched_calls > 0:
                res.note("sched_proxy_methods", method)
            else:
                res.note("sched_param_never_used_by_operator", method)
        violated = res.counters.get("violations_seen", 0) > nviol
        for pname, hit in st.drop.items():
            tag = "%s.%s" % (method, pname)
            if hit:
                res.count("sensitivity_drop_detected")
            elif tag in INSENSITIVE_OK:
                res.note("sensitivity_drop_undetectable_documented", tag)
            elif not violated:
                res.note("sensitivity_drop_missed", tag)
                res.inconclusive.append("recipe cannot see a dropped argument %s (piped form with the operator default "
                                        "was indistinguishable in every case)" % tag)
        for (a, b), hit in st.swap.items():
            if hit:
                res.count("sensitivity_swap_detected")
            elif not violated:
                res.note("sensitivity_swap_missed", "%s(%s<->%s)" % (method, a, b))
                res.inconclusive.append("recipe cannot see swapped arguments %s(%s<->%s)" % (method, a, b))


def replay(rep: dict, res: UnitResult) -> None:
    _install_wallclock_guard()
    methods = enumerate_methods()
    f, _ = methods[rep["method"]]
    shape = next(s for s in shapes_of(rep["method"], f) if s["name"] == rep["shape"])
    run_case(rep["method"], f, shape, rep["seed"], rep["variant"], res, MethodStats(), sensitivity=False)
