"""C24 Multicasting shares one source subscription per connection (virtual time, trace-consuming model).

Two things are monitored on every generated history:
  * the connection state machine, read off the probe source's sub/unsub log: a source subscription may appear only
    inside a call that (by the statement) connects, exactly once; it may end only inside a call that disconnects or
    after the source terminated; after a disconnecting call it must be gone;
  * every subscriber's trace = the subject model (C20-C23, `_subjects.SubjectCore`) applied to the notifications the
    probe source was *observed* to deliver (``emit`` events) while connected.
"""
from __future__ import annotations

from typing import Any

import reactivex.operators as ops
from reactivex import Observable
from reactivex.disposable import CompositeDisposable
from reactivex.subject import AsyncSubject, BehaviorSubject, ReplaySubject, Subject

from ..common import UnitResult, case_rng, chunks, show
from ..vlab import Lab, SrcErr, show_timeline
from ._subjects import Runtime, SubjectCore, TraceMonitor, ValueGen, is_falsy_value, new_observer

ID = "C24"
LEVEL = "exploration"
RULE = ("seeded random cases: program (publish | share | replay(buffer,window) | publish_value(initial) | "
        "multicast(subject=Subject/BehaviorSubject/ReplaySubject/AsyncSubject) | multicast(subject_factory=, mapper=) | "
        "publish(mapper) | replay(mapper=) | publish_value(initial, mapper) | publish/replay/publish_value + ref_count | "
        "publish/replay/publish_value + auto_connect(0..3)), a fresh operator object per case, a cold or hot probe source "
        "with 0..6 unique values (incl. falsy) ending in C/E/never, and a history of 2..10 calls "
        "(subscribe/unsubscribe, plus connect/disconnect for plain connectables) at generated virtual times on the same "
        "grid as the source (same-instant pairs frequent); observers may unsubscribe self/other or subscribe a new "
        "observer inside a callback; mappers: identity, map-tag, 'twice' (two subscriptions to the multicasted sequence). "
        "non-trivial = the source was subscribed at least once or a subscriber received something; "
        "distinct = digest of (program, parameters, source, history)")
ASSUMPTIONS = ["reactivex.testing.TestScheduler is the clock (C28); probe sources/observers are harness code",
               "the subject kinds behave as C20-C23 state (their model is reused here)",
               "auto_connect(n) is read as in the statement and the docstring: it connects when the n-th subscriber "
               "arrives (arrivals are counted, not currently subscribed observers)"]
CASES = {"quick": 3200, "thorough": 400000}
PROGRAMS = ["publish", "share", "replay", "publish_value", "multicast_subject", "multicast_factory", "publish_mapper",
            "replay_mapper", "publish_value_mapper", "publish_ref_count", "replay_ref_count", "publish_value_ref_count",
            "auto_connect_0", "auto_connect_1", "auto_connect_2", "auto_connect_3"]
MANUAL = {"publish", "replay", "publish_value", "multicast_subject"}
FACTORY = {"multicast_factory", "publish_mapper", "replay_mapper", "publish_value_mapper"}
REQUIRED = {"set:programs": len(PROGRAMS), "set:subject_kinds": 4, "set:mappers": 3, "set:source_kinds": 2,
            "connects_effective": {"quick": 2500, "thorough": 80000},
            "disconnects_effective": {"quick": 800, "thorough": 25000},
            "reconnects": {"quick": 150, "thorough": 5000},
            "redundant_connects": {"quick": 80, "thorough": 2500},
            "ref_count_reconnects": {"quick": 80, "thorough": 2500},
            "auto_connect_threshold_reached": {"quick": 300, "thorough": 9000},
            "deliveries": {"quick": 8000, "thorough": 250000},
            "same_instant_call_and_emission": {"quick": 300, "thorough": 9000},
            "falsy_delivered": {"quick": 800, "thorough": 25000}}
STEPS = (0, 0, 5, 5, 5, 10, 10, 15, 1, 4, 6)
T_BUILD = 50


def units(tier: str, seed: int) -> list[dict]:
    return [{"lo": lo, "hi": hi, "seed": seed} for lo, hi in chunks(CASES[tier], 16 if tier == "quick" else 64)]


# ------------------------------------------------------------------------------------------ generation

def gen_subject(r: Any, vg: ValueGen, kind: str) -> dict:
    s: dict = {"kind": kind}
    if kind == "behavior":
        s["initial"] = vg.value(force_falsy=r.random() < 0.5)
    if kind == "replay":
        s["buffer_size"] = r.choice([None, None, 0, 1, 2, 3])
        s["window"] = r.choice([None, None, 0, 5, 10, 15, 20, 1000])
    return s


def gen_case(r: Any, idx: int) -> dict:
    program = PROGRAMS[idx % len(PROGRAMS)]
    vg = ValueGen(r, 0.3, falsy_err_rate=0.0)
    hot = r.random() < 0.5
    t = 100 if hot else 0
    msgs: list = []
    for _ in range(r.randint(0, 6)):
        t += r.choice(STEPS)
        msgs.append((t, "N", vg.value()))
    term = r.choice(["C", "C", "E", None, None])
    t += r.choice(STEPS)
    if term == "C":
        msgs.append((t, "C", None))
    elif term == "E":
        msgs.append((t, "E", SrcErr("src")))
    base = program
    n_auto = None
    if program.startswith("auto_connect_"):
        n_auto = int(program[-1])
        base = r.choice(["publish", "replay", "publish_value"])
    elif program.endswith("_ref_count"):
        base = program[: -len("_ref_count")]
    elif program == "share":
        base = "publish"
    if base in ("publish", "publish_mapper"):
        subj = gen_subject(r, vg, "subject")
    elif base in ("replay", "replay_mapper"):
        subj = gen_subject(r, vg, "replay")
    elif base in ("publish_value", "publish_value_mapper"):
        subj = gen_subject(r, vg, "behavior")
    else:
        subj = gen_subject(r, vg, r.choice(["subject", "behavior", "replay", "async"]))
    mapper = r.choice(["id", "tag", "twice"]) if program in FACTORY else None
    manual = program in MANUAL
    st = {"next_id": 0, "plans": {}, "max_obs": 8}
    n = r.randint(4, 10) if manual else r.randint(2, 10)
    calls: list = []
    times: list = []
    tc = 90
    top: list = []
    for k in range(n):
        tc += r.choice(STEPS)
        if manual:
            op = r.choices(["sub", "unsub", "connect", "disconnect"], weights=(0.34, 0.14, 0.30, 0.22))[0]
        else:
            op = r.choices(["sub", "unsub"], weights=(0.6, 0.4))[0]
        if op == "sub" and st["next_id"] >= st["max_obs"]:
            op = "unsub"
        if op == "unsub" and not top:
            op = "sub"
        if op == "sub":
            oid = new_observer(r, st, 0, False, 0.3)
            top.append(oid)
            calls.append(("sub", oid))
        elif op == "unsub":
            calls.append(("unsub", r.choice(top) if r.random() < 0.85 else r.randrange(0, st["next_id"])))
        else:
            calls.append((op,))
        times.append(tc)
    return {"program": program, "base": base, "n_auto": n_auto, "subject": subj, "mapper": mapper, "hot": hot,
            "msgs": msgs, "calls": calls, "times": times, "plans": st["plans"],
            "connect_with_scheduler": r.random() < 0.5}


def describe(case: dict) -> dict:
    return {"program": case["program"], "base": case["base"], "subject": show(case["subject"]), "mapper": case["mapper"],
            "source": "hot" if case["hot"] else "cold", "msgs": show_timeline(case["msgs"]),
            "calls": [[t] + [show(x) for x in c] for c, t in zip(case["calls"], case["times"])],
            "observers": {str(i): {"mode": p["mode"], "react": {str(k): list(a) for k, a in sorted(p["react"].items())}}
                          for i, p in sorted(case["plans"].items()) if p["react"]}}


# ------------------------------------------------------------------------------------------ program under test

def make_subject(s: dict, sched: Any) -> Any:
    k = s["kind"]
    if k == "subject":
        return Subject()
    if k == "behavior":
        return BehaviorSubject(s["initial"])
    if k == "replay":
        return ReplaySubject(s["buffer_size"], s["window"], sched)
    return AsyncSubject()


def tag(v: Any) -> Any:
    return ("m", v)


def twice(c: Observable) -> Observable:
    """harness mapper that uses the multicasted sequence twice (a two-way merge without any scheduler)"""
    def subscribe(observer: Any, scheduler: Any = None) -> Any:
        done = [0]

        def completed() -> None:
            done[0] += 1
            if done[0] == 2:
                observer.on_completed()

        d1 = c.subscribe(observer.on_next, observer.on_error, completed, scheduler=scheduler)
        d2 = c.subscribe(observer.on_next, observer.on_error, completed, scheduler=scheduler)
        return CompositeDisposable(d1, d2)
    return Observable(subscribe)


MAPPERS = {"id": lambda c: c, "tag": lambda c: c.pipe(ops.map(tag)), "twice": twice}


def build(case: dict, src: Any, sched: Any) -> tuple[Any, Any]:
    """-> (observable the observers subscribe to, connectable or None).  Every operator object is created here,
    for this one source."""
    s, base, P = case["subject"], case["base"], case["program"]
    if P in FACTORY:
        m = MAPPERS[case["mapper"]]
        if P == "publish_mapper":
            return src.pipe(ops.publish(m)), None
        if P == "replay_mapper":
            return src.pipe(ops.replay(s["buffer_size"], s["window"], mapper=m, scheduler=sched)), None
        if P == "publish_value_mapper":
            return src.pipe(ops.publish_value(s["initial"], m)), None
        return src.pipe(ops.multicast(subject_factory=lambda scheduler: make_subject(s, sched), mapper=m)), None
    if base == "publish":
        conn = src.pipe(ops.publish())
    elif base == "replay":
        conn = src.pipe(ops.replay(s["buffer_size"], s["window"], scheduler=sched))
    elif base == "publish_value":
        conn = src.pipe(ops.publish_value(s["initial"]))
    else:
        conn = src.pipe(ops.multicast(subject=make_subject(s, sched)))
    if P == "share":
        return src.pipe(ops.share()), None
    if P.endswith("_ref_count"):
        return conn.pipe(ops.ref_count()), None
    if case["n_auto"] is not None:
        return conn.auto_connect(case["n_auto"]), None
    return conn, conn


def execute(case: dict) -> tuple[Lab, Runtime]:
    lab = Lab("num")
    src = (lab.hot if case["hot"] else lab.cold)("src", case["msgs"])
    rt = Runtime(case["plans"], lab.add, lab.now, scheduler=lab.ts)
    box: dict = {"conn": None, "handles": []}

    def do_build() -> None:
        lab.add("build_begin")
        rt.target, box["conn"] = build(case, src, lab.ts)
        lab.add("build_end")

    def do_call(idx: int, c: tuple) -> None:
        lab.add("call_begin", idx, c[0])
        outcome = "ok"
        try:
            if c[0] == "sub":
                rt.subscribe(c[1])
            elif c[0] == "unsub":
                rt.unsub(c[1])
            elif c[0] == "connect":
                h = box["conn"].connect(lab.ts) if case["connect_with_scheduler"] else box["conn"].connect()
                if h is not None:
                    box["handles"].append(h)
            elif c[0] == "disconnect":
                hs, box["handles"] = box["handles"], []
                for h in reversed(hs):
                    h.dispose()
        except Exception as e:  # noqa: BLE001
            outcome = "raised:%r" % (e,)
        lab.add("call_end", idx, outcome)

    lab.at(T_BUILD, do_build)
    for idx, (c, t) in enumerate(zip(case["calls"], case["times"])):
        lab.at(t, lambda idx=idx, c=c: do_call(idx, c))
    lab.run()
    return lab, rt


# ------------------------------------------------------------------------------------------ monitor

class Bracket:
    def __init__(self, what: str) -> None:
        self.what = what
        self.connect: str | None = None        # None | "required" | "optional"
        self.consumed = False
        self.owner: Any = None
        self.opened_sid: Any = None
        self.disconnect_sid: Any = None         # sid that must be closed when the bracket ends
        self.has_disconnect = False


def check(case: dict, lab: Lab) -> dict:
    P = case["program"]
    s = case["subject"]
    factory = P in FACTORY
    mode = ("factory" if factory else "manual" if P in MANUAL else "auto_connect" if case["n_auto"] is not None else "ref_count")
    sync = s["kind"] != "replay"
    mon = TraceMonitor(sync=sync)
    problems = mon.problems       # one chronologically ordered list for connection and trace problems
    st = {k: 0 for k in ("connects_effective", "disconnects_effective", "reconnects", "redundant_connects",
                         "redundant_disconnects", "ref_count_reconnects", "auto_connect_threshold_reached",
                         "connect_after_source_end_ties", "late_ref_count_ties", "same_instant_call_and_emission",
                         "source_subscriptions", "unsub_in_callback", "sub_in_callback", "replayed_or_current_owed")}

    def new_core() -> SubjectCore:
        return SubjectCore(s["kind"], initial=s.get("initial"), buffer_size=s.get("buffer_size"), window=s.get("window"))

    core = None if factory else new_core()
    cores: dict = {}
    vk_of: dict = {}
    sid_of: dict = {}
    owner_of_sid: dict = {}
    connected = False
    cur_sid: Any = None
    ever_connected = False
    arrivals = departures = 0
    n_connects = 0
    terminated_sids: set = set()
    closed_sids: set = set()
    opened_sids: list = []
    free_sids: set = set()       # opened while the shared subject had already terminated: may end at any time
    stack: list[Bracket] = []
    nested_flag: dict = {}
    call_times = set(case["times"])
    emit_times: set = set()

    def problem(mech: str, text: str) -> None:
        problems.append((mech, text))

    def end_bracket(b: Bracket, t: float) -> None:
        if b.connect == "required" and not b.consumed:
            extra = ""
            if mode == "auto_connect" and departures:
                extra = ":after_unsubscribe_before_threshold"
            problem("missing_source_subscription" + extra,
                    "%s at %s must connect, but the source was not subscribed" % (b.what, t))
        sid = b.disconnect_sid
        if b.has_disconnect and sid == "opened_here":
            sid = b.opened_sid
        if b.has_disconnect and sid is not None and sid not in closed_sids and sid not in free_sids:
            problem("source_open_after_disconnect", "%s at %s must disconnect, but source subscription #%s is still open" % (b.what, t, sid))

    for e in lab.ev:
        t, kind = e[1], e[2]
        if kind == "build_begin":
            b = Bracket("building auto_connect(0)")
            if mode == "auto_connect" and case["n_auto"] == 0:
                b.connect = "required"
                connected = ever_connected = True
                st["connects_effective"] += 1
                st["auto_connect_threshold_reached"] += 1
            stack.append(b)
        elif kind in ("build_end",):
            end_bracket(stack.pop(), t)
        elif kind == "call_begin":
            idx, name = e[3], e[4]
            mon.boundary(t, "call #%d %s" % (idx, name))
            b = Bracket("call #%d %s" % (idx, name))
            if name == "connect":
                if not connected:
                    b.connect = "required"
                    connected = True
                    st["connects_effective"] += 1
                    if n_connects:
                        st["reconnects"] += 1
                    n_connects += 1
                elif cur_sid in terminated_sids:
                    b.connect = "optional"     # 'connected', but the source of that connection has ended: left open
                    st["connect_after_source_end_ties"] += 1
                else:
                    st["redundant_connects"] += 1
            elif name == "disconnect":
                if connected:
                    b.has_disconnect, b.disconnect_sid = True, cur_sid
                    connected = False
                    st["disconnects_effective"] += 1
                else:
                    st["redundant_disconnects"] += 1
            stack.append(b)
        elif kind == "call_end":
            if e[4] != "ok":
                problem("call_raised", "call #%d %s at %s raised: %s" % (e[3], case["calls"][e[3]][0], t, e[4]))
            end_bracket(stack.pop(), t)
        elif kind == "sub_begin":
            oid = e[3]
            if e[4]:
                st["sub_in_callback"] += 1
            b = Bracket("subscribe(%s)" % oid)
            if factory:
                c = cores[oid] = new_core()
                vks = [(oid, 0), (oid, 1)] if case["mapper"] == "twice" else [(oid, 0)]
                vk_of[oid] = vks
                mon.add_observer(oid, vks, tag if case["mapper"] == "tag" else None)
                for vk in vks:
                    items = c.subscribe(vk, t)
                    st["replayed_or_current_owed"] += sum(1 for it in items if it[0] == "N")
                    mon.owe(vk, items, t)
                b.connect, b.owner = "required", oid
                st["connects_effective"] += 1
            else:
                before = len(core.subs)
                items = core.subscribe(oid, t)
                st["replayed_or_current_owed"] += sum(1 for it in items if it[0] == "N")
                mon.add_observer(oid)
                mon.owe(oid, items, t)
                if mode == "ref_count" and before == 0:
                    if oid in core.subs:
                        b.connect = "required"
                        connected = True
                        st["connects_effective"] += 1
                        if n_connects:
                            st["ref_count_reconnects"] += 1
                        n_connects += 1
                    else:   # the shared subject has terminated: the subscriber leaves at once; connecting is left open
                        b.connect = "optional"
                        st["late_ref_count_ties"] += 1
                elif mode == "auto_connect":
                    arrivals += 1
                    if arrivals == case["n_auto"] and not ever_connected:
                        b.connect = "required"
                        connected = ever_connected = True
                        st["connects_effective"] += 1
                        st["auto_connect_threshold_reached"] += 1
            stack.append(b)
        elif kind == "sub_end":
            if e[4] != "ok":
                problem("call_raised", "subscribe(%s) at %s raised: %s" % (e[3], t, e[4]))
            end_bracket(stack.pop(), t)
        elif kind == "unsub_begin":
            oid = e[3]
            nested_flag[oid] = bool(e[4])
            if e[4]:
                st["unsub_in_callback"] += 1
            b = Bracket("unsubscribe(%s)" % oid)
            if factory:
                if mon.active(oid):
                    b.has_disconnect, b.disconnect_sid = True, sid_of.get(oid)
                    st["disconnects_effective"] += 1
            elif mode == "ref_count" and oid in core.subs and len(core.subs) == 1:
                b.has_disconnect, b.disconnect_sid = True, cur_sid
                connected = False
                st["disconnects_effective"] += 1
            if mode == "auto_connect" and not ever_connected and mon.active(oid):
                departures += 1
            stack.append(b)
        elif kind == "unsub_end":
            oid = e[3]
            if e[4] != "ok":
                problem("call_raised", "unsubscribe(%s) at %s raised: %s" % (oid, t, e[4]))
            if oid in mon.vkeys:
                mon.unsub(oid, t, nested_flag.get(oid, False))
                if factory:
                    for vk in vk_of[oid]:
                        cores[oid].unsubscribe(vk)
                else:
                    core.unsubscribe(oid)
            end_bracket(stack.pop(), t)
        elif kind == "sub":            # probe source: subscribed
            sid = e[4]
            opened_sids.append(sid)
            st["source_subscriptions"] += 1
            b = next((x for x in reversed(stack) if x.connect is not None and not x.consumed), None)
            if b is None:
                inside = stack[-1].what if stack else "no call"
                problem("unexpected_source_subscription",
                        "source subscribed (#%s) at %s inside %s, which must not connect (model: %s)" % (
                            sid, t, inside, "connected" if connected else "not connected"))
            else:
                b.consumed, b.opened_sid = True, sid
                if b.connect == "optional":
                    if mode == "ref_count":
                        free_sids.add(sid)
                        b.has_disconnect, b.disconnect_sid = False, None
                if factory:
                    sid_of[b.owner] = sid
                    owner_of_sid[sid] = b.owner
            if not factory:
                cur_sid = sid
        elif kind == "unsub":          # probe source: subscription disposed
            sid = e[4]
            closed_sids.add(sid)
            ok = sid in terminated_sids or sid in free_sids
            if not ok:
                for b in stack:
                    d = b.opened_sid if b.disconnect_sid == "opened_here" else b.disconnect_sid
                    if b.has_disconnect and d == sid:
                        ok = True
            if not ok:
                inside = stack[-1].what if stack else "no call (source emission or scheduler action)"
                problem("source_unsubscribed_while_connected",
                        "source subscription #%s disposed at %s inside %s although the connection must still exist" % (sid, t, inside))
        elif kind == "emit":
            sid, k, v = e[4], e[5], e[6]
            mon.boundary(t, "source emission %s" % k)
            emit_times.add(t)
            if factory:
                oid = owner_of_sid.get(sid)
                if oid is None:
                    problem("emission_from_unknown_subscription", "source delivered %s on #%s at %s" % (k, sid, t))
                    continue
                for (vk, items) in cores[oid].emit(k, v, t):
                    mon.owe(vk, items, t)
            else:
                if sid != cur_sid or (not connected and sid not in free_sids):
                    problem("emission_while_disconnected", "source delivered %s on subscription #%s at %s while the model is %s (current #%s)" % (
                        k, sid, t, "connected" if connected else "not connected", cur_sid))
                for (key, items) in core.emit(k, v, t):
                    mon.owe(key, items, t)
            if k in "EC":
                terminated_sids.add(sid)
                if mode == "ref_count":
                    connected = False       # every subscriber has been sent the terminal: the count is back to 0
        elif kind == "recv":
            mon.recv(e[3], e[4], e[5], t)
        elif kind == "escaped":
            problem("exception_escaped_to_source", "exception reached the source at %s: %r" % (t, e[5]))
        elif kind == "escaped_sched":
            problem("exception_escaped_to_scheduler", "exception escaped into the scheduler at %s: %s" % (t, e[3]))
    mon.finish()
    # subscriptions still open at the end
    for sid in opened_sids:
        if sid in closed_sids or sid in terminated_sids:
            continue
        if factory:
            ok = mon.active(owner_of_sid.get(sid))
        else:
            ok = (sid == cur_sid and connected) or (sid in free_sids and any(mon.active(o) for o in mon.vkeys))
        if not ok:
            problem("source_open_at_end", "source subscription #%s is still open at the end although the model is not connected" % sid)
    st["same_instant_call_and_emission"] = len(call_times & emit_times)
    st["ties"] = mon.ties
    st["deliveries"] = mon.matched
    st["falsy_delivered"] = mon.falsy_matched
    return {"problems": problems, "stats": st}


def run_case(seed: int, idx: int, res: UnitResult) -> None:
    r = case_rng(seed, ID, idx)
    case = gen_case(r, idx)
    lab, rt = execute(case)
    if lab.max_same_instant > 90:
        res.count("skipped_too_many_same_instant_actions")
        return
    out = check(case, lab)
    desc = describe(case)
    st = out["stats"]
    observed = {str(i): [[k, show(v), tt] for (k, v, tt) in o.recv] for i, o in sorted(rt.obs.items())}
    source_log = [[e[1], e[2]] + [show(x) for x in e[4:]] for e in lab.ev if e[2] in ("sub", "unsub", "emit")]
    res.case(key=desc, nontrivial=st["source_subscriptions"] > 0 or st["deliveries"] > 0,
             sample={"case": desc, "source_log": source_log, "observed": observed})
    for k, v in st.items():
        if v:
            res.count(k, v)
    res.note("programs", case["program"])
    res.note("subject_kinds", case["subject"]["kind"])
    res.note("source_kinds", "hot" if case["hot"] else "cold")
    if case["mapper"]:
        res.note("mappers", case["mapper"])
    if case["subject"]["kind"] == "behavior" and is_falsy_value(case["subject"]["initial"]):
        res.count("falsy_initial_cases")
    if out["problems"]:
        mech, text = out["problems"][0]
        group = "factory" if case["program"] in FACTORY else (
            "connectable" if case["program"] in MANUAL else "auto_connect" if case["n_auto"] is not None else
            "share" if case["program"] == "share" else "ref_count")
        res.violation("%s:%s:%s" % (ID, group, mech),
                      {"why": text, "all_problems": [p[1] for p in out["problems"][:4]], "case": desc,
                       "source_log": source_log, "observed": observed},
                      {"seed": seed, "idx": idx})


def run_unit(unit: dict, res: UnitResult) -> None:
    for idx in range(unit["lo"], unit["hi"]):
        run_case(unit["seed"], idx, res)


def replay(rep: dict, res: UnitResult) -> None:
    run_case(rep["seed"], rep["idx"], res)
