"""C04 Cold observables can be subscribed again with identical results (virtual time, self-differential).

ONE observable object is built from cold probe sources, non-multicasting operators and deterministic callbacks
and subscribed 2-3 times; the notification trees (windows/groups through their child probes), expressed relative
to each subscription's own start, must be identical.
"""
from __future__ import annotations

from typing import Any

from ..common import UnitResult, case_rng, chunks, show
from ..vlab import show_timeline
from ._c04_ops import (ACTION_BUDGET, C04_ENTRIES, C04_STAGES, ENTRIES, Env, count_children, gen_source, new_lab, show_tree,
                       tree_trace)

ID = "C04"
LEVEL = "exploration"
RULE = ("seeded random cases: one catalog entry (a call shape of one library function with generated arguments: "
        "tuple/list/range/str iterables, registry callbacks, counts 0..n+k, virtual durations on a coarse grid) over "
        "1-4 generated cold probe sources (0..5 elements, ending in C/E/never), optionally followed by 1-2 further "
        "single-source operator stages; the ONE resulting observable object is subscribed 2-3 times in one of three "
        "schedules: seq (next subscription after the previous one terminated/went quiet, gap 0..13), overlap (offsets "
        "taken from the sources' own event times, so the earlier subscription is usually still active), cut (sequential, "
        "every subscription disposed at the same generated relative time; notifications before that time are compared). "
        "non-trivial = the first subscription received >= 1 notification; distinct = digest of "
        "(entry, arguments, stages, source timelines, schedule)")
ASSUMPTIONS = ["reactivex.testing.TestScheduler is the clock and orders same-instant actions FIFO (checked by C28)",
               "cold probe sources are harness code: every subscription replays the same timeline relative to its start",
               "exceptions are compared by type and arguments (operators create a fresh exception object per subscription)",
               "callbacks are pure functions of their arguments; those marked `since` also read the virtual time since the "
               "current subscription began and are used in the sequential schedules only"]
CASES = {"quick": 6400, "thorough": 240000}
REQUIRED = {"set:entries": len(C04_ENTRIES),
            "overlap_active": {"quick": 800, "thorough": 20000},
            "seq_after_terminal": {"quick": 800, "thorough": 20000},
            "cut_prefix_nonempty": {"quick": 150, "thorough": 4000},
            "children_compared": {"quick": 300, "thorough": 8000},
            "since_cases": {"quick": 150, "thorough": 5000},
            "notifications_compared": {"quick": 20000, "thorough": 500000}}

# mechanism labels of triaged findings (key = library function); anything else is reported as 'resubscription-differs'
LABELS = {
    "catch": "iterator-built-once",
    "on_error_resume_next": "iterator-built-once",
    "zip_with_iterable": "iterator-built-once",
    "while_do": "iterator-built-once",
    "do_while": "iterator-built-once-via-while_do",
    "for_in": "iterator-built-once",
    "map_indexed": "index-generator-built-once",
    "flat_map_indexed": "index-generator-built-once-via-map_indexed",
    "skip_while_indexed": "index-generator-built-once-via-map_indexed",
    "switch_map_indexed": "index-generator-built-once-via-map_indexed",
    "slice": "index-generator-built-once-via-map_indexed",
}
T0S = [0, 7, 100]
LEAKS: list = []


def units(tier: str, seed: int) -> list[dict]:
    return [{"lo": lo, "hi": hi, "seed": seed} for lo, hi in chunks(CASES[tier], 16 if tier == "quick" else 64)]


# ------------------------------------------------------------------------------------------ generation

def gen_case(r: Any, idx: int) -> dict:
    name = C04_ENTRIES[idx % len(C04_ENTRIES)]
    e = ENTRIES[name]
    domain = e.domain or r.choice(["ints", "ints", "dups", "hfalsy"])
    P = e.gen(r)
    tls = [gen_source(r, s, domain) for s in e.srcs]
    stages = []
    if r.random() < 0.35:
        for _ in range(r.choice([1, 1, 2])):
            sn = r.choice(C04_STAGES)
            stages.append([sn, ENTRIES[sn].gen(r)])
    since = e.since
    mode = r.choice(["seq", "seq", "cut"]) if since else r.choice(["seq", "overlap", "overlap", "overlap", "cut"])
    nsub = 2 if mode == "cut" else r.choice([2, 2, 3])
    times = sorted({m[0] for tl in tls for m in tl})
    cand = sorted({0, 1, 5} | {t + d for t in times for d in (-1, 0, 1) if t + d >= 0})
    early = [c for c in cand if not times or c <= times[-1]] or [0]
    case = {"entry": name, "P": P, "tls": tls, "stages": stages, "mode": mode, "nsub": nsub, "t0": r.choice(T0S), "domain": domain,
            "gaps": [r.choice([0, 0, 1, 5, 10, 13]) for _ in range(nsub - 1)],
            "offs": [r.choice(early) for _ in range(nsub - 1)],
            "cut": r.choice([c for c in cand if c >= 1])}
    return case


def describe(case: dict) -> dict:
    d = {"entry": case["entry"], "args": show(case["P"]), "sources": [show_timeline(tl) for tl in case["tls"]],
         "stages": show(case["stages"]), "mode": case["mode"], "subscriptions": case["nsub"], "first_at": case["t0"]}
    if case["mode"] == "seq":
        d["gaps_after_quiet"] = case["gaps"]
    elif case["mode"] == "overlap":
        d["start_offsets"] = case["offs"]
    else:
        d["dispose_each_at_rel"] = case["cut"]
        d["gaps_after_quiet"] = case["gaps"]
    return d


# ------------------------------------------------------------------------------------------ execution

def build(env: Env, case: dict, nstages: int | None = None, skip: int | None = None, only: int | None = None) -> Any:
    """skip (localisation only): leave out stage number `skip` (0 = the head, which must be an `op` entry);
    only (localisation only): stage number `only` alone, applied to the bare first source"""
    e = ENTRIES[case["entry"]]
    if only is not None and only > 0:
        sn, sp = case["stages"][only - 1]
        return env.src(0).pipe(ENTRIES[sn].make(env, sp))
    if only == 0:
        nstages = 0
    if skip == 0:
        o = env.src(0)
    else:
        o = e.make(env, case["P"])
        if e.kind == "op":
            o = env.src(0).pipe(o)
    stages = case["stages"] if nstages is None else case["stages"][:nstages]
    for j, (sn, sp) in enumerate(stages):
        if skip != j + 1:
            o = o.pipe(ENTRIES[sn].make(env, sp))
    return o


class Run:
    def __init__(self) -> None:
        self.subs: list = []          # [observer, start time, start seq, raised]
        self.escaped: list = []       # per segment (seq/cut modes)
        self.over_budget: list = []
        self.lab: Any = None
        self.env: Any = None


def execute(case: dict, nstages: int | None = None, skip: int | None = None, only: int | None = None) -> Run:
    run = Run()
    lab = new_lab()
    env = Env(lab, case["tls"])
    run.lab, run.env = lab, env
    mode = case["mode"]
    obs = build(env, case, nstages, skip, only)   # built ONCE, before any subscription

    def do_sub(k: int) -> None:
        o = lab.observer("sub%d" % k)
        t = lab.now()
        env.cur_start = t if mode != "overlap" else None
        rec = [o, t, lab.add("note", "start", k), None]
        run.subs.append(rec)
        try:
            o.subscribe_to(obs)
        except Exception as ex:  # subscribe() itself raised: part of what the subscriber observed
            rec[3] = ex

    def segment() -> None:
        lab.budget = lab.nactions + ACTION_BUDGET
        lab.over_budget = False
        n0 = len(lab.escaped_to_scheduler)
        lab.run()
        run.escaped.append(len(lab.escaped_to_scheduler) - n0)
        run.over_budget.append(bool(lab.over_budget))

    t0 = case["t0"]
    if mode == "overlap":
        t = t0
        lab.at(t, lambda: do_sub(0))
        for k in range(1, case["nsub"]):
            t += case["offs"][k - 1]
            lab.at(t, lambda k=k: do_sub(k))
        segment()
    else:
        lab.at(t0, lambda: do_sub(0))
        if mode == "cut":
            lab.at(t0 + case["cut"], lambda: run.subs[0][0].dispose())
        segment()
        for k in range(1, case["nsub"]):
            if run.over_budget[-1]:
                break
            t = lab.now() + case["gaps"][k - 1]
            lab.at(t, lambda k=k: do_sub(k))
            if mode == "cut":   # every subscription is disposed at the same relative time
                lab.at(t + case["cut"], lambda k=k: run.subs[k][0].dispose())
            segment()
    return run


def traces(case: dict, run: Run) -> list:
    before = case["cut"] if case["mode"] == "cut" else None
    out = []
    for i, (o, t, _seq, raised) in enumerate(run.subs):
        tr = tree_trace(o, t, before)
        extra = []
        if raised is not None:
            extra.append(("subscribe_raised", type(raised).__qualname__, repr(raised.args)))
        if case["mode"] == "seq" and i < len(run.escaped) and run.escaped[i]:
            extra.append(("escaped_to_scheduler", run.escaped[i]))
        out.append((tuple(tr), tuple(extra)))
    return out


def mismatch(case: dict, run: Run) -> tuple | None:
    """None, or (k, reason): subscription k differs from subscription 0."""
    if run.over_budget[0]:
        return None   # the first run segment itself is unbounded: not judged (counted as over_budget_segments)
    trs = traces(case, run)
    for k in range(1, len(trs)):
        if trs[k] != trs[0]:
            a, b = trs[0][0], trs[k][0]
            pos = next((i for i in range(min(len(a), len(b))) if a[i] != b[i]), min(len(a), len(b)))
            return (k, "first difference at notification #%d" % pos)
    if any(run.over_budget):
        return (run.over_budget.index(True), "this subscription did not quiesce within the action budget, the first one did")
    return None


def localise(case: dict) -> str:
    """Stage that introduced the difference. The same schedule is re-run on every pipeline prefix; `fail` is the
    shortest prefix that already differs. fail == 0: the head entry on its own. Otherwise the stages of that prefix
    that are NECESSARY for the difference are determined by leaving each one out (an `op` head is replaced by the bare
    source; a `create` head passed on its own, so it is not blamed). Among the necessary stages one whose library
    function has a triaged finding (LABELS) is preferred: such a stage pollutes everything downstream even when the
    difference only shows after a later stage changed how much of the shared iterator is consumed. The stage whose
    addition made the prefix fail is reported when it has a triaged finding itself or when no necessary stage has one."""
    names = [case["entry"]] + [sn for sn, _ in case["stages"]]
    n = len(case["stages"])
    fail = n
    for k in range(0, n):
        if mismatch(case, execute(case, k)) is not None:
            fail = k
            break
    if fail == 0 or ENTRIES[names[fail]].group in LABELS:
        return names[fail]
    necessary = []
    for j in range(0, fail + 1):
        if j == 0 and ENTRIES[names[0]].kind != "op":
            continue
        if mismatch(case, execute(case, fail, skip=j)) is None:
            necessary.append(j)
    for j in necessary:
        if ENTRIES[names[j]].group in LABELS and guilty_alone(case, j):
            return names[j]
    return names[fail]


def guilty_alone(case: dict, j: int) -> bool:
    """does stage j on its own (head: as generated; later stage: applied to the bare first source) differ between
    subscriptions under a handful of other schedules?"""
    tls = case["tls"] if case["tls"] else [[(5, "N", 1), (10, "N", 2), (15, "N", 3), (20, "C", None)]]
    times = sorted({m[0] for tl in tls for m in tl}) or [0]
    mid, last = times[len(times) // 2], times[-1]
    alts = [{"mode": "seq", "nsub": 3, "gaps": [0, 5]}, {"mode": "cut", "nsub": 2, "gaps": [0], "cut": max(1, mid)},
            {"mode": "cut", "nsub": 2, "gaps": [1], "cut": last + 1}]
    if not ENTRIES[case["entry"]].since or j > 0:
        alts += [{"mode": "overlap", "nsub": 3, "offs": [0, 1]}, {"mode": "overlap", "nsub": 3, "offs": [mid, 1]},
                 {"mode": "overlap", "nsub": 2, "offs": [max(0, last - 1)]}]
    for alt in alts:
        c = dict(case)
        c.update(alt)
        c["tls"] = tls
        if mismatch(c, execute(c, only=j)) is not None:
            return True
    return False


def run_case(seed: int, idx: int, res: UnitResult) -> None:
    r = case_rng(seed, ID, idx)
    case = gen_case(r, idx)
    run = execute(case)
    desc = describe(case)
    mode = case["mode"]
    first = run.subs[0][0] if run.subs else None
    nontrivial = bool(first is not None and first.recv)
    shown = [{"started_at": t, "trace_rel": show_tree(o, t)} for (o, t, _s, _x) in run.subs]
    res.case(key=desc, nontrivial=nontrivial, sample={"case": desc, "subscriptions": shown})
    e = ENTRIES[case["entry"]]
    res.note("entries", case["entry"])
    res.note("groups", e.group)
    for sn, _ in case["stages"]:
        res.note("stage_entries", sn)
    if isinstance(case["P"], dict) and "shape" in case["P"]:
        res.note("argument_shapes", "%s:%s" % (e.group, case["P"]["shape"]))
    res.count("mode:" + mode)
    res.count("subscriptions", len(run.subs))
    if case["stages"]:
        res.count("pipelines_with_extra_stages")
    if run.env.since_calls:
        res.count("since_cases")
        res.count("since_calls", run.env.since_calls)
    if any(run.over_budget):
        res.count("over_budget_segments")
    if first is not None:
        res.count("notifications_compared", sum(len(o.tree()) and sum(len(x.recv) for x in o.tree()) for (o, _t, _s, _x) in run.subs[1:]))
        res.count("children_compared", sum(count_children(o) for (o, _t, _s, _x) in run.subs[1:]))
        if first.terminal is not None and first.terminal[0] == "E":
            res.count("first_ended_with_error")
    for k in range(1, len(run.subs)):
        prev_terms = [o.terminal for (o, _t, _s, _x) in run.subs[:k]]
        start_seq = run.subs[k][2]
        if mode == "overlap":
            if any(t is None or t[3] > start_seq for t in prev_terms) and run.subs[0][0].recv:
                res.count("overlap_active")
                if any(rc[3] < start_seq for rc in run.subs[0][0].recv) and any(rc[3] > start_seq for rc in run.subs[0][0].recv):
                    res.count("overlap_started_mid_sequence")
            else:
                res.count("overlap_after_terminal")
        elif mode == "seq":
            if prev_terms[-1] is not None:
                res.count("seq_after_terminal")
            else:
                res.count("seq_after_quiescent_unterminated")
    if mode == "cut" and run.subs:
        o, t, _s, _x = run.subs[0]
        if any(rc[2] - t < case["cut"] for rc in o.recv):
            res.count("cut_prefix_nonempty")
        if o.terminal is None:
            res.count("cut_before_terminal")

    if LEAKS or run.env.since_misuse:
        res.inconclusive.append("harness: %s in case %d (%s)" % (LEAKS or "since() outside sequential mode", idx, case["entry"]))
        del LEAKS[:]
        return
    mm = mismatch(case, run)
    if mm is not None:
        culprit = localise(case) if case["stages"] else case["entry"]
        group = ENTRIES[culprit].group
        mech = "C04:%s:%s" % (group, LABELS.get(group, "resubscription-differs"))
        res.violation(mech, {"why": "subscription %d differs from subscription 0 (%s)" % mm, "culprit_stage": culprit,
                             "case": desc, "subscriptions": shown}, {"seed": seed, "idx": idx})


def run_unit(unit: dict, res: UnitResult) -> None:
    _guard_real_time()
    for idx in range(unit["lo"], unit["hi"]):
        run_case(unit["seed"], idx, res)


def replay(rep: dict, res: UnitResult) -> None:
    _guard_real_time()
    run_case(rep["seed"], rep["idx"], res)


def _guard_real_time() -> None:
    """Everything must run in virtual time: a pipeline that reaches the wall-clock TimeoutScheduler is a harness bug."""
    from reactivex.scheduler import TimeoutScheduler

    def boom(self: Any, *a: Any, **kw: Any) -> Any:
        LEAKS.append("TimeoutScheduler")
        raise AssertionError("harness: wall-clock TimeoutScheduler reached from a virtual-time case")
    TimeoutScheduler.schedule = boom  # type: ignore[method-assign]
    TimeoutScheduler.schedule_relative = boom  # type: ignore[method-assign]
    TimeoutScheduler.schedule_absolute = boom  # type: ignore[method-assign]
