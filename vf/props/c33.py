"""C33 Cancelling an asyncio-scheduled action is effective from any thread (dsched + controlled asyncio loop)."""
from __future__ import annotations

import os
from typing import Any

from ..common import UnitResult, case_rng

ID = "C33"
LEVEL = "exploration"
RULE = ("programs of 1-3 scheduled actions (immediate, relative with a delay, absolute) each optionally disposed after a virtual sleep that is "
        "shorter than / equal to / longer than its delay, in three situations: (loop) scheduling and disposing from callbacks on the loop "
        "thread, AsyncIOScheduler and AsyncIOThreadSafeScheduler; (foreign) scheduling and disposing from another thread while the loop runs, "
        "AsyncIOThreadSafeScheduler; (stopped) scheduling and disposing while the loop is not running, then starting it; run on a real asyncio "
        "SelectorEventLoop whose selector and clock are controlled, under the deterministic thread scheduler (yield points include "
        "asyncio/base_events.py and asyncio/events.py so that the window between the cancelled-test and Handle._run is schedulable); oracle: "
        "actions run on the loop thread at loop-clock >= due, and an action whose dispose() returned earlier in the serialised history never "
        "starts; distinct = (program, decision list); non-trivial = the program contains a dispose and a preemptive switch happened")
ASSUMPTIONS = ["trusted substitutions: the loop's selector is a stub whose select(timeout) is a cooperative wait on the loop's wake-up flag with a "
               "virtual deadline, loop.time() is the controller clock, _write_to_self() sets the flag, concurrent.futures.Future as used by "
               "asynciothreadsafescheduler.py is replaced by a cooperative VFuture",
               "line-granular serialisation; threading primitives replaced by instrumented equivalents"]
REQUIRED = {"decided_runs": {"quick": 500, "thorough": 5000}, "registered_foreign_runs": {"quick": 100, "thorough": 1000}, "preemptive_switches": {"quick": 800, "thorough": 8000},
            "disposes_before_start": {"quick": 400, "thorough": 4000}, "actions_started": {"quick": 300, "thorough": 3000},
            "set:situations": 3}
UNIT_TIMEOUT = {"quick": 240, "thorough": 3000}


def files() -> tuple:
    import asyncio
    from .. import dsched as D
    adir = os.path.dirname(asyncio.__file__)
    return D.repo_file("scheduler/eventloop/asynciothreadsafescheduler.py", "scheduler/eventloop/asyncioscheduler.py") + (
        os.path.join(adir, "base_events.py"), os.path.join(adir, "events.py"))


_LOOP_CLS: Any = None


def loop_class() -> Any:
    global _LOOP_CLS
    if _LOOP_CLS is not None:
        return _LOOP_CLS
    import asyncio
    import selectors
    from .. import dsched as D
    import reactivex.scheduler.eventloop.asynciothreadsafescheduler as M
    M.Future = D.VFuture  # type: ignore[misc,assignment]

    class StubSelector(selectors._BaseSelectorImpl):  # type: ignore[name-defined]
        loop: Any = None

        def select(self, timeout: float | None = None) -> list:
            lp = self.loop
            if timeout is None or timeout > 0:
                D.ctl().block(lambda: lp._wake, timeout, "select")
            lp._wake = False
            return []

    class VLoop(asyncio.SelectorEventLoop):
        def __init__(self) -> None:
            sel = StubSelector()
            self._wake = False
            super().__init__(sel)
            sel.loop = self

        def time(self) -> float:
            return D.ctl().clock

        def _write_to_self(self) -> None:
            self._wake = True

    _LOOP_CLS = VLoop
    return VLoop


def gen_program(r: Any, situation: str) -> dict:
    items = []
    for i in range(r.randint(1, 3)):
        mode = r.choice(["imm", "rel", "rel", "abs"])
        # (1/3 s and 0.4 us are not whole microseconds: a float delay goes to the loop as it is)
        delay = 0.0 if mode == "imm" else r.choice([0.1, 0.2, 0.5, 0.1, 0.2, 1.0 / 3.0, 4e-7] if mode == "rel" else [0.1, 0.2, 0.5])
        disp = r.choice([None, 0.0, 0.0, delay / 2, delay, delay + 0.1]) if delay else r.choice([None, 0.0, 0.0, 0.05])
        items.append({"mode": mode, "delay": delay, "dispose_after": disp})
    sched = "ts" if situation == "foreign" else r.choice(["ts", "plain"])
    # registered: the disposing foreign thread has made the loop its policy-current loop with asyncio.set_event_loop()
    # (the usual main-thread set-up when the loop itself runs in a worker thread); it is still not RUNNING there
    return {"situation": situation, "sched": sched, "items": items, "registered": situation == "foreign" and r.random() < 0.5}


HAND = [
    {"situation": "foreign", "sched": "ts", "items": [{"mode": "imm", "delay": 0.0, "dispose_after": 0.0}]},
    {"situation": "foreign", "sched": "ts", "items": [{"mode": "rel", "delay": 0.2, "dispose_after": 0.2}]},
    {"situation": "foreign", "sched": "ts", "registered": True, "items": [{"mode": "rel", "delay": 0.2, "dispose_after": 0.0}]},
    {"situation": "stopped", "sched": "ts", "items": [{"mode": "rel", "delay": 0.2, "dispose_after": 0.0}, {"mode": "imm", "delay": 0.0, "dispose_after": None}]},
    {"situation": "loop", "sched": "plain", "items": [{"mode": "imm", "delay": 0.0, "dispose_after": 0.0}, {"mode": "rel", "delay": 0.1, "dispose_after": 0.1}]},
]


def scenario(c: Any, P: dict) -> dict:
    import datetime
    from reactivex.scheduler.eventloop import AsyncIOScheduler, AsyncIOThreadSafeScheduler
    from .. import dsched as D
    loop = loop_class()()
    s = AsyncIOThreadSafeScheduler(loop) if P["sched"] == "ts" else AsyncIOScheduler(loop)
    viol: list = []
    info: dict = {}
    lt = D.VThread(target=loop.run_forever, name="L")
    situation = P["situation"]

    def make(i: int) -> Any:
        def act(sch: Any, st: Any) -> None:
            c.log("start", i)
            info[i]["start"] = (len(c.events), c.clock, c.me().name)
            c.yp("in-action")
        return act

    def schedule(i: int, it: dict) -> None:
        due = c.clock + it["delay"]
        info[i] = {"due": due}
        c.log("sched", i, it["mode"], due)
        if it["mode"] == "imm":
            d = s.schedule(make(i))
        elif it["mode"] == "rel":
            d = s.schedule_relative(it["delay"], make(i))
        else:
            d = s.schedule_absolute(datetime.datetime.fromtimestamp(due, tz=D.UTC), make(i))
        info[i]["disp"] = d

    def dispose(i: int) -> None:
        c.log("dispose_call", i)
        info[i]["disp"].dispose()
        c.log("dispose_ret", i)
        info[i]["dispose_ret"] = (len(c.events), c.clock)

    if situation == "stopped":
        for i, it in enumerate(P["items"]):
            schedule(i, it)
        for i, it in enumerate(P["items"]):
            if it["dispose_after"] is not None:
                dispose(i)                     # loop is not running: dispose() must be effective whatever the delay
        lt.start()
        c.sleep(1.5)
    elif situation == "foreign":
        if P.get("registered"):
            import asyncio
            asyncio.set_event_loop(loop)
        lt.start()
        # the statement covers a foreign-thread dispose "while the loop is running": a loop that is only just being
        # started concurrently with dispose() is outside it, so wait until run_forever() has marked the loop running
        c.block(lambda: loop.is_running(), None, "loop-running")
        c.yp("after-loop-start")
        for i, it in enumerate(P["items"]):
            schedule(i, it)
        order = sorted((it["dispose_after"], i) for i, it in enumerate(P["items"]) if it["dispose_after"] is not None)
        t0 = c.clock
        for after, i in order:
            wait = t0 + after - c.clock
            if wait > 0:
                c.sleep(wait)
            dispose(i)
        c.sleep(1.5)
    else:   # everything from callbacks on the loop thread
        def kickoff() -> None:
            for i, it in enumerate(P["items"]):
                schedule(i, it)
            for i, it in enumerate(P["items"]):
                if it["dispose_after"] is not None:
                    if it["dispose_after"] <= 0:
                        dispose(i)
                    else:
                        loop.call_later(it["dispose_after"], dispose, i)
        loop.call_soon(kickoff)
        lt.start()
        c.sleep(1.5)
    loop.call_soon_threadsafe(loop.stop)
    lt.join()
    if P.get("registered"):
        import asyncio
        asyncio.set_event_loop(None)
    try:
        loop.close()
    except Exception:  # noqa: BLE001
        pass
    started = 0
    before = 0
    for i, it in info.items():
        st = it.get("start")
        dr = it.get("dispose_ret")
        if st is not None:
            started += 1
            if not st[2].startswith("L"):
                viol.append(("C33:%s:%s:action-not-on-loop-thread" % (situation, P["sched"]), {"item": i, "thread": st[2]}))
            if st[1] < it["due"] - 1e-9:
                viol.append(("C33:%s:%s:action-before-due" % (situation, P["sched"]), {"item": i, "due": it["due"], "clock": st[1]}))
        if dr is not None and (st is None or st[0] > dr[0]):
            before += 1
        if dr is not None and st is not None and st[0] > dr[0]:
            viol.append(("C33:%s:%s:%s:action-started-after-dispose-returned" % (situation, P["sched"], P["items"][i]["mode"]),
                         {"item": i, "dispose_ret_seq": dr[0], "start_seq": st[0]}))
        if dr is None and st is None and "disp" in it:
            viol.append(("C33:%s:%s:undisposed-action-never-ran" % (situation, P["sched"]), {"item": i}))
    exc = [(n, repr(e)) for n, e in c.thread_exc]
    return {"viol": viol, "obs": {"actions_started": started, "disposes_before_start": before, "registered_foreign_runs": 1 if P.get("registered") else 0}, "sig": {"started": sorted(i for i in info if "start" in info[i])},
            "decided": any(it["dispose_after"] is not None for it in P["items"]), "thread_exc": exc}


def units(tier: str, seed: int) -> list[dict]:
    q = tier == "quick"
    us: list[dict] = []
    for hi, _ in enumerate(HAND):
        us.append({"mode": "dfs", "hand": hi, "bound": 1, "seed": seed, "max_runs": 800 if q else 40000, "hot_runs": 80 if q else 1500})
    nprog = 4 if q else 40
    for sit in ("foreign", "foreign", "stopped", "loop"):
        for lo in range(0, nprog, 2 if q else 5):
            us.append({"mode": "random", "situation": sit, "progs": [lo, lo + (2 if q else 5)], "runs": 40 if q else 300, "seed": seed,
                       "salt": len(us)})
    return us


def run_unit(unit: dict, res: UnitResult) -> None:
    from .. import dcheck, dsched as D
    D.install(())
    D.set_files(files())
    if not dcheck.check_install(res):
        return
    loop_class()
    if unit["mode"] == "dfs":
        P = HAND[unit["hand"]]
        res.note("situations", P["situation"])
        name = "hand%d-%s" % (unit["hand"], P["situation"])
        dcheck.explore(res, ID, name, scenario, P, "dfs", bound=unit["bound"], max_runs=unit["max_runs"])
        dcheck.explore(res, ID, name, scenario, P, "hot", seed=unit["seed"], runs=unit["hot_runs"], hot=("in-action", "after-loop-start"))
        return
    for pi in range(*unit["progs"]):
        P = gen_program(case_rng(unit["seed"], ID, unit["situation"], unit["salt"], pi), unit["situation"])
        res.note("situations", P["situation"])
        name = "gen%d-%d-%s" % (unit["salt"], pi, P["situation"])
        dcheck.explore(res, ID, name, scenario, P, "random", seed=unit["seed"], runs=unit["runs"])
        dcheck.explore(res, ID, name, scenario, P, "pct", seed=unit["seed"], runs=unit["runs"] // 2)


def replay(rep: dict, res: UnitResult) -> None:
    from .. import dcheck, dsched as D
    D.install(())
    D.set_files(files())
    loop_class()
    dcheck.replay(res, ID, scenario, rep)
