"""C22 A ReplaySubject replays exactly its retained values, in order (virtual time, trace-consuming model)."""
from __future__ import annotations

import datetime as _dt
from typing import Any

from reactivex.subject import ReplaySubject

from ..common import UnitResult, case_rng, chunks, show
from ..vlab import Lab
from ._subjects import (DISPOSED, ModelDisposed, Runtime, SubjectCore, TraceMonitor, describe_history, gen_history,
                        is_falsy_value, same_item, show_items)

ID = "C22"
LEVEL = "exploration"
RULE = ("call histories as for C20 (1..14 calls from subscribe/unsubscribe/on_next/on_error/on_completed/dispose, observers "
        "that unsubscribe self/other or subscribe a new observer inside a callback, unique values incl. falsy ones) on a "
        "ReplaySubject(buffer_size, window, scheduler=TestScheduler); the calls are scheduled at generated non-decreasing "
        "virtual times (up to 4 calls per instant); buffer_size in {None,0,1,2,3,4}; window in {None, 0, equal to / one "
        "tick below / one tick above an age that occurs in the history, longer than the history, small constants} given as "
        "int, float or timedelta.  Oracle per observer: at subscription time t it is owed the last buffer_size values whose "
        "age t - t_value <= window, then the terminal if one occurred, then every later notification; every reception must "
        "be the head of what it is owed (no loss, duplicate, reorder); what was owed before the instant of its "
        "unsubscription must have been received, what was owed in that same instant may or may not (tie, counted); "
        "DisposedException rules as in C20.  non-trivial = at least one value was owed at a subscription or delivered; "
        "distinct = digest of (buffer_size, window, times, history)")
ASSUMPTIONS = ["reactivex.testing.TestScheduler is the clock (its ordering is checked independently by C28): actions "
               "scheduled without delay run within the current instant",
               "probe observers are harness code; reactions never raise and never emit re-entrantly"]
CASES = {"quick": 4000, "thorough": 300000}
REQUIRED = {"set:buffer_sizes": 6, "set:window_kinds": 7,
            "replayed_values_owed": {"quick": 2000, "thorough": 60000},
            "age_eq_window": {"quick": 150, "thorough": 5000},
            "age_gt_window": {"quick": 300, "thorough": 10000},
            "count_trimmed": {"quick": 300, "thorough": 10000},
            "subscriptions_after_terminal": {"quick": 150, "thorough": 5000},
            "falsy_delivered": {"quick": 500, "thorough": 15000},
            "disposed_calls": {"quick": 100, "thorough": 3000}}
W22 = {"sub": 0.30, "unsub": 0.10, "next": 0.44, "error": 0.04, "completed": 0.08, "dispose": 0.04}
STEPS = (0, 0, 0, 1, 4, 5, 5, 5, 6, 10, 10, 15)


def units(tier: str, seed: int) -> list[dict]:
    from ._subjects_conc import conc_units
    return [{"lo": lo, "hi": hi, "seed": seed} for lo, hi in chunks(CASES[tier], 16 if tier == "quick" else 64)] + conc_units(tier, seed)


def gen(r: Any) -> dict:
    h = gen_history(r, react_p=0.35, weights=W22 if r.random() < 0.7 else None)
    n = len(h["calls"])
    t, run, times = 10, 1, []
    for _ in range(n):
        step = r.choice(STEPS)
        if step == 0:
            run += 1
            if run > 4:
                step, run = 5, 1
        else:
            run = 1
        t += step
        times.append(t)
    h["times"] = times
    ages = sorted({b - a for a in times for b in times if b > a})
    c = r.random()
    if c < 0.22:
        wk, w = "none", None
    elif c < 0.45 and ages:
        wk, w = "eq_age", r.choice(ages)
    elif c < 0.58 and ages:
        wk, w = "age_minus_1", max(0, r.choice(ages) - 1)
    elif c < 0.68 and ages:
        wk, w = "age_plus_1", r.choice(ages) + 1
    elif c < 0.76:
        wk, w = "zero", 0
    elif c < 0.86:
        wk, w = "longer_than_history", times[-1] + 5
    else:
        wk, w = "const", r.choice([1, 4, 5, 10, 15, 20])
    h["window"], h["window_kind"] = w, wk
    h["window_as"] = r.choice(["int", "float", "timedelta"])
    h["buffer_size"] = r.choice([None, 0, 1, 2, 3, 4])
    return h


def window_arg(h: dict) -> Any:
    w = h["window"]
    if w is None:
        return None
    if h["window_as"] == "float":
        return float(w)
    if h["window_as"] == "timedelta":
        return _dt.timedelta(seconds=w)
    return w


def run_history(h: dict) -> dict:
    lab = Lab("num")
    subj = ReplaySubject(h["buffer_size"], window_arg(h), lab.ts)
    rt = Runtime(h["plans"], lab.add, lab.now)
    rt.target = subj
    for idx, (c, t) in enumerate(zip(h["calls"], h["times"])):
        lab.at(t, lambda idx=idx, c=c: rt.subject_call(subj, idx, c))
    lab.run()

    core = SubjectCore("replay", buffer_size=h["buffer_size"], window=h["window"])
    mon = TraceMonitor(sync=False)
    calls = h["calls"]
    exp_out: dict[int, str] = {}
    exp_sub: dict[int, str] = {}
    nested: dict[int, bool] = {}
    stats = {"replayed_values_owed": 0, "subscriptions_after_terminal": 0, "sub_in_callback": 0, "unsub_in_callback": 0,
             "disposed_calls": 0, "same_instant_calls": sum(1 for a, b in zip(h["times"], h["times"][1:]) if a == b)}
    for e in lab.ev:
        t, kind = e[1], e[2]
        if kind == "call_begin":
            idx, name = e[3], e[4]
            mon.boundary(t, "call #%d %s" % (idx, name))
            exp_out[idx] = "ok"
            c = calls[idx]
            if name in ("next", "error", "completed"):
                k = {"next": "N", "error": "E", "completed": "C"}[name]
                try:
                    for (key, items) in core.emit(k, c[1] if len(c) > 1 else None, t):
                        mon.owe(key, items, t)
                except ModelDisposed:
                    exp_out[idx] = "disposed"
                    stats["disposed_calls"] += 1
            elif name == "dispose":
                core.dispose()
                for oid in list(mon.vkeys):
                    mon.make_optional(oid)
        elif kind == "call_end":
            idx, outcome = e[3], e[4]
            if calls[idx][0] in ("sub", "unsub"):
                continue
            want = "raised_disposed" if exp_out[idx] == "disposed" else "ok"
            if outcome != want:
                mon.problem("disposed:%s:%s" % (calls[idx][0], "not_raised" if want != "ok" else "unexpected_exception"),
                            "call #%d %s at %s: expected %s, observed %s" % (idx, calls[idx][0], t, want, outcome))
        elif kind == "sub_begin":
            oid = e[3]
            if e[4]:
                stats["sub_in_callback"] += 1
            try:
                if core.terminal is not None and not core.disposed:
                    stats["subscriptions_after_terminal"] += 1
                items = core.subscribe(oid, t)
                exp_sub[oid] = "ok"
                mon.add_observer(oid)
                mon.owe(oid, items, t)
                stats["replayed_values_owed"] += sum(1 for it in items if it[0] == "N")
            except ModelDisposed:
                exp_sub[oid] = "disposed"
                stats["disposed_calls"] += 1
        elif kind == "sub_end":
            oid, outcome = e[3], e[4]
            if exp_sub.get(oid) == "ok" and outcome != "ok":
                mon.problem("subscribe:unexpected_exception", "subscribe(%d) at %s: %s" % (oid, t, outcome))
            elif exp_sub.get(oid) == "disposed":
                o = rt.obs[oid]
                got = o.items()
                raised = outcome == "raised_disposed" and not got
                delivered = (outcome == "ok" and len(got) == 1 and same_item(("E", DISPOSED), got[0])
                             and o.plan["mode"] != "next_only")
                if not (raised or delivered):
                    mon.problem("disposed:subscribe:%s" % ("not_reported" if outcome == "ok" else "other_exception"),
                                "subscribe(%d) on a disposed subject at %s: outcome %s, observer got %s" % (oid, t, outcome, show_items(got)))
        elif kind == "unsub_begin":
            nested[e[3]] = bool(e[4])
            if e[4]:
                stats["unsub_in_callback"] += 1
        elif kind == "unsub_end":
            oid = e[3]
            if e[4] != "ok":
                mon.problem("unsubscribe:raised", "unsubscribe(%d) at %s: %s" % (oid, t, e[4]))
            if exp_sub.get(oid) == "ok":
                mon.unsub(oid, t, nested.get(oid, False))
                core.unsubscribe(oid)
        elif kind == "recv":
            oid = e[3]
            if exp_sub.get(oid) == "disposed":
                continue
            mon.recv(oid, e[4], e[5], t)
        elif kind == "escaped_sched":
            mon.problem("escaped_to_scheduler", "exception escaped into the scheduler at %s: %s" % (t, e[3]))
    mon.finish()
    stats.update(core.boundary)
    stats["ties"] = mon.ties
    stats["deliveries"] = mon.matched
    stats["falsy_delivered"] = mon.falsy_matched
    return {"problems": mon.problems, "stats": stats, "max_same_instant": lab.max_same_instant,
            "observed": {str(i): [[k, show(v), tt] for (k, v, tt) in o.recv] for i, o in sorted(rt.obs.items())},
            "runs:free": {"quick": 1000, "thorough": 20000}, "free_injected_yields": {"quick": 3000, "thorough": 60000}}


def run_case(seed: int, idx: int, res: UnitResult) -> None:
    r = case_rng(seed, ID, idx)
    h = gen(r)
    out = run_history(h)
    desc = describe_history(h)
    desc["window_kind"], desc["window_as"] = h["window_kind"], h["window_as"]
    st = out["stats"]
    if out["max_same_instant"] > 90:       # would trip the scheduler's anti-spin clock bump (C29's subject)
        res.count("skipped_too_many_same_instant_actions")
        return
    res.case(key=desc, nontrivial=st["replayed_values_owed"] > 0 or st["deliveries"] > 0,
             sample={"case": desc, "observed": out["observed"], "stats": st})
    for k, v in st.items():
        if v:
            res.count(k, v)
    res.note("buffer_sizes", str(h["buffer_size"]))
    res.note("window_kinds", h["window_kind"])
    res.note("window_types", h["window_as"] if h["window"] is not None else "none")
    if out["problems"]:
        mech, text = out["problems"][0]
        bs = h["buffer_size"]
        key = "%s:%s:buffer_%s:window_%s" % (ID, mech, "none" if bs is None else ("zero" if bs == 0 else "n"),
                                            "none" if h["window"] is None else "set")
        res.violation(key, {"why": text, "all_problems": [p[1] for p in out["problems"][:4]], "case": desc, "observed": out["observed"]},
                      {"seed": seed, "idx": idx})


def run_unit(unit: dict, res: UnitResult) -> None:
    if unit.get("mode") == "conc":
        from ._subjects_conc import run_conc_unit
        run_conc_unit(ID, 'replay', unit, res)
        return
    for idx in range(unit["lo"], unit["hi"]):
        run_case(unit["seed"], idx, res)


def replay(rep: dict, res: UnitResult) -> None:
    if "scenario" in rep:
        from ._subjects_conc import replay_conc
        replay_conc(ID, 'replay', rep, res)
        return
    run_case(rep["seed"], rep["idx"], res)
