"""Concurrent tier shared by C20-C23: one emitter thread, 1-2 subscriber threads, under the deterministic thread scheduler.

Oracle (per observer): what a subscriber receives must be explainable by SOME position of its subscribe()
inside the single emitter's sequence that is compatible with the recorded call/return order:
  Subject   - a contiguous, increasing run of the emitted values, containing every value whose on_next was called
              after subscribe() returned (and before unsubscribe was called), none that returned before subscribe
              was called; then the terminal, exactly once (also for a subscriber arriving after termination)
  Behavior  - the same, preceded by the value that was current at some instant of the subscribe() call
  Replay    - the same, preceded by the retained values (last `buffer` values) at some instant of the call
  Async     - nothing before the terminal; [last, C] / [C] / [E] for every current and later subscriber
"""
from __future__ import annotations

from typing import Any

KFILES = ("subject/subject.py", "subject/behaviorsubject.py", "subject/replaysubject.py", "subject/asyncsubject.py",
          "subject/innersubscription.py", "observer/scheduledobserver.py")

FREE_FILES = tuple("reactivex/" + f for f in KFILES) + ("reactivex/observer/observer.py",)

HAND = [
    {"n": 2, "term": "C", "subs": [{"unsub": False}], "pre": 0},
    {"n": 2, "term": "E", "subs": [{"unsub": False}], "pre": 1},
    {"n": 2, "term": "C", "subs": [{"unsub": True}], "pre": 0},
    {"n": 1, "term": "C", "subs": [{"unsub": False}, {"unsub": False}], "pre": 0},
]


def gen_program(r: Any) -> dict:
    return {"n": r.randint(1, 3), "term": r.choice(["C", "C", "E", None]), "pre": r.choice([0, 1]),
            "subs": [{"unsub": r.random() < 0.3} for _ in range(r.choice([1, 1, 2]))], "buffer": r.choice([None, 1, 2])}


def make_subject(kind: str, P: dict) -> Any:
    from reactivex.subject import AsyncSubject, BehaviorSubject, ReplaySubject, Subject
    if kind == "subject":
        return Subject()
    if kind == "behavior":
        return BehaviorSubject(0)
    if kind == "replay":
        return ReplaySubject(P.get("buffer"))
    return AsyncSubject()


def scenario_for(pid: str, kind: str) -> Any:
    def scenario(c: Any, P: dict) -> dict:
        from .. import dsched as D
        s = make_subject(kind, P)
        recv: dict = {}
        marks: dict = {}
        viol: list = []
        err = RuntimeError("source error")

        class Obs:
            def __init__(self, name: str) -> None:
                self.name = name
                recv[name] = []

            def _got(self, kind_: str, v: Any) -> None:
                i = c.log("recv", self.name, kind_, v)
                recv[self.name].append((kind_, v, i + 1))
                c.yp("in-observer")

            def on_next(self, v: Any) -> None:
                self._got("N", v)

            def on_error(self, e: Exception) -> None:
                self._got("E", None)

            def on_completed(self) -> None:
                self._got("C", None)

        def mark(name: str) -> None:
            marks[name] = c.log(name) + 1

        pre = []
        for i in range(P["pre"]):
            o = Obs("pre%d" % i)
            mark("sub_call:" + o.name)
            s.subscribe(o)
            mark("sub_ret:" + o.name)
            pre.append(o)

        def emitter() -> None:
            for i in range(1, P["n"] + 1):
                mark("emit_call:%d" % i)
                s.on_next(i)
                mark("emit_ret:%d" % i)
            if P["term"] == "C":
                mark("term_call")
                s.on_completed()
                mark("term_ret")
            elif P["term"] == "E":
                mark("term_call")
                s.on_error(err)
                mark("term_ret")

        def subscriber(j: int, spec: dict) -> None:
            o = Obs("s%d" % j)
            mark("sub_call:" + o.name)
            d = s.subscribe(o)
            mark("sub_ret:" + o.name)
            if spec["unsub"]:
                c.yp("before-unsub")
                mark("unsub_call:" + o.name)
                d.dispose()
                mark("unsub_ret:" + o.name)

        ts = [c.Thread(target=emitter, name="E")] + [c.Thread(target=subscriber, args=(j, sp), name="S") for j, sp in enumerate(P["subs"])]
        for t in ts:
            t.start()
        for t in ts:
            t.join()
        c.wait_quiescent()
        n, term = P["n"], P["term"]
        deliveries = 0
        if c.thread_exc:
            viol.append(("%s:conc:%s:call-raised" % (pid, kind), {"exc": [(n_, repr(e)) for n_, e in c.thread_exc], "program": P}))
        for name, got in recv.items():
            deliveries += len(got)
            vals = [v for (k, v, _) in got if k == "N"]
            kinds = "".join(k for (k, _, _) in got)
            if "sub_ret:" + name not in marks:
                continue            # subscribe() raised: reported above as call-raised
            sub_call, sub_ret = marks["sub_call:" + name], marks["sub_ret:" + name]
            unsub_call, unsub_ret = marks.get("unsub_call:" + name), marks.get("unsub_ret:" + name)

            def V(what: str, **d: Any) -> None:
                d.update({"observer": name, "received": [(k, v) for (k, v, _) in got], "program": P})
                viol.append(("%s:conc:%s:%s" % (pid, kind, what), d))

            # grammar
            if any(k in "EC" for k in kinds[:-1]):
                V("notification-after-terminal")
                continue
            if len(set(vals)) != len(vals):
                V("duplicate-delivery")
                continue
            completed_before = [i for i in range(1, n + 1) if marks.get("emit_ret:%d" % i, 10 ** 9) < sub_call]
            called_before_ret = [i for i in range(1, n + 1) if marks.get("emit_call:%d" % i, 10 ** 9) < sub_ret]
            a, b = len(completed_before), len(called_before_ret)
            must = [i for i in range(1, n + 1) if marks.get("emit_call:%d" % i, -1) > sub_ret and
                    (unsub_call is None or marks.get("emit_ret:%d" % i, 10 ** 9) < unsub_call)]
            term_expected = term is not None and unsub_call is None
            if kind == "async":
                last_before_term = n if n else None
                exp_vals = [n] if (term == "C" and n >= 1) else []
                if term is None:
                    if got:
                        V("delivery-before-termination")
                    continue
                if unsub_call is not None:
                    # unsubscribed at some point: any prefix of the terminal sequence is acceptable
                    full = [("N", v) for v in exp_vals] + [(term, None)]
                    if [(k, v) for (k, v, _) in got] != full[:len(got)]:
                        V("wrong-terminal-sequence", expected=exp_vals + [term])
                    continue
                if vals != exp_vals or not kinds.endswith(term) or len(got) != len(exp_vals) + 1:
                    V("missing-or-wrong-terminal-sequence" if got else "subscriber-got-nothing", expected=exp_vals + [term])
                continue
            if vals != sorted(vals):
                V("out-of-order")
                continue
            if vals and vals != list(range(vals[0], vals[-1] + 1)):
                V("gap-in-delivered-values")
                continue
            live = vals
            if kind == "behavior":
                # first value = the value current at some instant of subscribe(): index in [a, b] (0 = initial), unless
                # the subject had terminated before this subscriber arrived (then: only the terminal)
                terminated_before = term is not None and marks.get("term_ret", 10 ** 9) < sub_call
                if terminated_before:
                    if vals:
                        V("value-delivered-to-subscriber-arriving-after-termination")
                        continue
                elif not vals:
                    if not (term is not None and marks.get("term_call", 10 ** 9) < sub_ret):
                        V("current-value-not-delivered")
                        continue
                else:
                    if not (a <= vals[0] <= b):
                        V("first-value-is-not-the-current-value", allowed=[a, b])
                        continue
                    live = vals[1:]
            elif kind == "replay":
                buf = P.get("buffer")
                if vals:
                    lo = 1 if buf is None else max(1, a - buf + 1)
                    hi = (b + 1)
                    if not (lo <= vals[0] <= max(lo, hi)):
                        V("replay-starts-outside-the-retained-window", allowed=[lo, hi])
                        continue
                # everything retained at the latest possible instant that is not yet received must not be required; only `must`
            else:
                if any(i in completed_before for i in vals) and not (kind == "replay"):
                    V("value-emitted-before-subscribe-was-called", values=[i for i in vals if i in completed_before])
                    continue
            missing = [i for i in must if i not in vals]
            if missing:
                V("value-emitted-after-subscribe-returned-not-delivered", missing=missing)
                continue
            if term_expected and not kinds.endswith(term):
                V("terminal-not-delivered")
                continue
            if kinds and kinds[-1] in "EC" and kinds[-1] != term:
                V("wrong-terminal-kind")
        return {"viol": viol, "obs": {"conc_deliveries": deliveries, "conc_subscribers": len(recv)}, "sig": {k: [(a_, b_) for (a_, b_, _) in v] for k, v in recv.items()},
                "decided": True}
    return scenario


def conc_units(tier: str, seed: int) -> list[dict]:
    q = tier == "quick"
    us = [{"mode": "conc", "dsched": True, "what": "dfs", "hand": hi, "bound": 2, "max_runs": 1500 if q else 60000, "seed": seed,
           "hot_runs": 60 if q else 1500} for hi in range(len(HAND))]
    nprog, per = (8, 4) if q else (96, 8)
    for lo in range(0, nprog, per):
        us.append({"mode": "conc", "dsched": True, "what": "random", "progs": [lo, lo + per], "runs": 30 if q else 250, "seed": seed})
    # free-running tier: the same scenarios with real threads (interleavings inside one source line)
    for lo in range(0, 8 if q else 64, 4):
        us.append({"mode": "conc", "what": "free", "progs": [lo, lo + 4], "runs": 150 if q else 1500, "seed": seed})
    return us


def run_conc_unit(pid: str, kind: str, unit: dict, res: Any) -> None:
    from ..common import case_rng
    if unit["what"] == "free":
        from ..freerun import explore_free
        fn = scenario_for(pid, kind)
        for hi in range(len(HAND)):
            explore_free(res, pid, "free-hand%d" % hi, fn, dict(HAND[hi], buffer=[None, 1, 2, 1][hi % 4]), seed=unit["seed"], runs=unit["runs"] // 4, files=FREE_FILES)
        for pi in range(*unit["progs"]):
            explore_free(res, pid, "free-gen%d" % pi, fn, gen_program(case_rng(unit["seed"], pid, "conc", pi)), seed=unit["seed"], runs=unit["runs"], files=FREE_FILES)
        return
    from .. import dcheck, dsched as D
    D.install(D.repo_file(*KFILES))
    if not dcheck.check_install(res):
        return
    fn = scenario_for(pid, kind)
    if unit["what"] == "dfs":
        P = dict(HAND[unit["hand"]], buffer=[None, 1, 2, 1][unit["hand"] % 4])
        name = "conc-hand%d" % unit["hand"]
        dcheck.explore(res, pid, name, fn, P, "dfs", bound=unit["bound"], max_runs=unit["max_runs"])
        dcheck.explore(res, pid, name, fn, P, "hot", seed=unit["seed"], runs=unit["hot_runs"], hot=("in-observer", "before-unsub"))
        return
    for pi in range(*unit["progs"]):
        P = gen_program(case_rng(unit["seed"], pid, "conc", pi))
        name = "conc-gen%d" % pi
        dcheck.explore(res, pid, name, fn, P, "random", seed=unit["seed"], runs=unit["runs"])
        dcheck.explore(res, pid, name, fn, P, "pct", seed=unit["seed"], runs=unit["runs"] // 2)
        dcheck.explore(res, pid, name, fn, P, "hot", seed=unit["seed"], runs=unit["runs"] // 2, hot=("in-observer", "before-unsub"))


def replay_conc(pid: str, kind: str, rep: dict, res: Any) -> None:
    if rep.get("free"):
        # not replayable: the scenario is run again as often as the run that found it
        from ..freerun import explore_free
        explore_free(res, pid, rep["scenario"], scenario_for(pid, kind), rep["params"], seed=rep.get("seed", 0), runs=rep.get("runs", 1000))
        return
    from .. import dcheck, dsched as D
    D.install(D.repo_file(*KFILES))
    dcheck.replay(res, pid, scenario_for(pid, kind), rep)
