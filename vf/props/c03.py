"""C03 Unsubscribing silences the subscriber and frees its sources (virtual time, enumerated dispose points)."""
from __future__ import annotations

import os
import sys
from collections import Counter
from typing import Any

import reactivex
from reactivex import Observable
from reactivex.observer.autodetachobserver import AutoDetachObserver

from ..catalog import CATALOG
from ..common import UnitResult, case_rng, chunks, show
from ..vlab import CallbackProbe, ProbeObserver
from . import _c01_pipeline as P

ID = "C03"
LEVEL = "exploration"
RULE = ("seeded random pipelines (depth 1-4 from the %d-entry operator catalog without subscribe_on, 1-3 conforming probe "
        "sources) are first run undisturbed to learn the number of scheduler actions A, the elements received R and the "
        "calls of every user callback; then the same case is re-run once per dispose point: (a) dispose() right after "
        "scheduler action j for sampled j from the subscribe action (= before any deferred subscription effect) to the "
        "action before the terminal one (quick <= 10 incl. first two and last two; thorough <= 40), (b) from inside the "
        "subscriber's k-th on_next, (c) from inside the k-th call of an operator callback, (d) every fifth case: the "
        "subscription is made inside a CurrentThreadScheduler (trampoline) action over library from_iterable sources and "
        "dispose() comes from inside the k-th on_next of the synchronous burst; another fifth of the cases puts each "
        "callback-taking catalog entry in turn directly below the subscriber. One evaluation = one (case, dispose point). "
        "After dispose_ret: no notification at the disposed subscriber; no user-callback invocation, pulling a user "
        "iterator included (callbacks of stages up to the window/group operator are excused while a window/group probe "
        "that was live at the dispose is still subscribed; observed, not judged: callbacks after a dispose() that was "
        "called while an Observable.subscribe() call of the pipeline was still executing, and -- dispose point (c) only -- "
        "callbacks made before the stage-handler activation that hosts the disposing callback has returned); every source "
        "subscription closed at the dispose instant (or, when window/group probes were live, by the instant the last of "
        "them ended) and none opened at a later instant, nor opened at the dispose instant and kept open (opened and closed within the dispose instant = observation). When the "
        "subscriber had already terminated before dispose() only silence is asserted. non-trivial = the subscriber had "
        "not terminated when dispose() was called; distinct = digest of (sources, pipeline with arguments, dispose point)"
        % len(CATALOG))
ASSUMPTIONS = ["TestScheduler / HistoricalScheduler are the clock (C28)", "probe sources are harness code and conforming here",
               "the run is cut at virtual time 600", "window/group probes still subscribed are unsubscribed at t=500"]
CASES = {"quick": 960, "thorough": 40000}
REQUIRED = {"set:ops": len(CATALOG) - 12,
            "disposed_while_live": {"quick": 1500, "thorough": 60000},
            "variant_a_at_action": {"quick": 1200, "thorough": 50000},
            "variant_b_in_on_next": {"quick": 250, "thorough": 10000},
            "variant_c_in_callback": {"quick": 150, "thorough": 6000},
            "variant_d_in_on_next_trampoline": {"quick": 60, "thorough": 2500},
            "subscriptions_closed_by_dispose": {"quick": 1500, "thorough": 60000},
            "disposed_with_live_window": {"quick": 50, "thorough": 2000}}
# catalog entries that are thin wrappers: the late call is made by the implementing operator
IMPLEMENTED_BY = {("buffer_when", "closing_mapper"): ("window_when", "closing_mapper"),
                  ("window_toggle", "closing_mapper"): ("group_join", "left_duration_mapper"),
                  ("buffer_toggle", "closing_mapper"): ("group_join", "left_duration_mapper"),
                  ("join", "left_duration_mapper"): ("join", "left_duration_mapper"),
                  ("group_by", "element_mapper"): ("group_by_until", "element_mapper"),
                  ("on_error_resume_next_factory", "factory"): ("on_error_resume_next", "factory")}
VARIANT_NAME = {"a": "at-action", "b": "in-on_next", "c": "in-callback", "d": "in-on_next-trampoline"}
UNIT_TIMEOUT = {"quick": 600, "thorough": 7200}
EXCLUDE = ("sub_on",)     # as in C02 (DESIGN: C03 runs C02's generator)


def units(tier: str, seed: int) -> list[dict]:
    return [{"lo": lo, "hi": hi, "seed": seed, "tier": tier} for lo, hi in chunks(CASES[tier], 16 if tier == "quick" else 64)]


def is_tramp(idx: int) -> bool:
    return idx % 5 == 4


FOCUS = [e.name for e in CATALOG if "uses_callbacks" in e.flags and "sub_on" not in e.flags]


def gen(seed: int, idx: int) -> tuple:
    r = case_rng(seed, ID, idx)
    depth = r.choice([1, 1, 2, 2, 3, 3, 4])
    if idx % 5 == 3:
        # focus family: every callback-taking entry in turn sits directly below the subscriber (or one stage higher)
        depth = r.choice([1, 1, 2])
        name = FOCUS[(idx // 5 + seed * 7) % len(FOCUS)]
        pos = depth - 1 if "flatten" not in P.BY_NAME[name].flags else 1
        plan = {pos: name}
        if "flatten" in P.BY_NAME[name].flags:
            depth, plan[0] = 2, "nested"
        elif depth == 2 and r.random() < 0.5:
            plan = {0: name}
        b = P.build(r, depth, clock="num", exclude=EXCLUDE, plan=plan, maxlen=6)
    elif is_tramp(idx):
        b = P.build(r, depth, clock="num", exclude=EXCLUDE, explicit_sched=True, main_kind="iter",
                    kinds=("iter", "iter", "cold", "sync", "hot"),
                    term_policy={"main": lambda rr: rr.choice(["C", "C", None, "E"])}, maxlen=6)
    else:
        clock = "dt" if r.random() < 0.1 else "num"
        b = P.build(r, depth, clock=clock, exclude=EXCLUDE)
    return b, r.random() < 0.5


LIBDIR = os.path.dirname(os.path.abspath(reactivex.__file__))
SUBSCRIBE_CODE = Observable.subscribe.__code__
PROBE_CALL_CODE = CallbackProbe.__call__.__code__
STAGE_ENTRY_CODES = {AutoDetachObserver.on_next.__code__, AutoDetachObserver.on_error.__code__,
                     AutoDetachObserver.on_completed.__code__}


class Top(ProbeObserver):
    """Probe subscriber that, at the moment it really calls dispose(), looks at which library activations are still on
    the stack:
    * an Observable.subscribe() call of the pipeline in progress (`during_subscribe`): the handle of that subscription
      does not exist yet, so nothing can cancel what the call does synchronously before it returns, and the release of
      what it has set up (finally actions included) can only happen once it has returned -- the very reason why this
      harness has to postpone a dispose requested before its own subscribe() returned. For such dispose points only
      silence and closure are asserted; later callbacks are counted as observations;
    * when dispose() is called from inside an operator's user callback, the activation of the stage handler that hosts
      that callback (`activation`: the function the stage's auto-detaching observer called; the callback's immediate
      caller when there is none): callbacks made before that activation returns are observations as well."""

    during_subscribe = False
    activation: Any = None

    def dispose(self) -> None:
        if self.subscription is not None and self.dispose_seq is None:
            f = sys._getframe(1)
            prev = None
            below_probe = False          # walking up from a CallbackProbe call towards the stage's entry point
            while f is not None:
                if f.f_code is SUBSCRIBE_CODE:
                    self.during_subscribe = True
                if prev is not None and prev.f_code is PROBE_CALL_CODE and self.activation is None:
                    g = f                    # the immediate caller of the disposing callback ...
                    while g is not None and g.f_back is not None and (g.f_code.co_flags & 0x20):
                        # ... which is the library function that pulls the generator when the callback is evaluated inside a
                        # generator / generator expression (while_do's and for_in's lazily evaluated sources): the generator
                        # frame itself returns at the next yield, the work that called next() on it is what is in flight
                        g = g.f_back
                    self.activation = g
                    below_probe = True
                elif below_probe and f.f_code in STAGE_ENTRY_CODES:
                    self.activation = prev   # ... or rather the stage handler that the auto-detaching observer called
                    below_probe = False
                elif below_probe and f.f_code is SUBSCRIBE_CODE:
                    below_probe = False
                prev = f
                f = f.f_back
        super().dispose()


def watch_callbacks(b: P.Built, top: Top) -> None:
    """After the dispose, a callback invoked while the remembered operator activation is still on the stack is marked by
    a ("note", "inflight", "same_activation") event directly behind its "cb" event."""
    lab = b.lab
    for p in b.g.callbacks:
        def make(p: Any, orig: Any) -> Any:
            def impl(*a: Any, **kw: Any) -> Any:
                act = top.activation
                if act is not None and top.dispose_seq is not None:
                    f = sys._getframe(1)
                    while f is not None:
                        if f is act:
                            lab.add("note", "inflight", "same_activation", p.name)
                            break
                        f = f.f_back
                return orig(*a, **kw)
            return impl
        p.impl = make(p, p.impl)


def run(seed: int, idx: int, keep: list | None, variant: tuple | None) -> tuple:
    """variant: None (undisturbed) | ("a", j) | ("b", k) | ("c", callback_name, k) | ("d", k)"""
    b, as_callbacks = gen(seed, idx)
    lab = b.lab
    opts: dict = {}
    if variant is not None and variant[0] in "bd":
        opts["dispose_at"] = variant[1]
    top = Top(lab, "top", **opts)
    if variant is not None:
        watch_callbacks(b, top)
    after = None
    if variant is not None:
        j = variant[1] if variant[0] == "a" else None

        def after(n: int, item: Any) -> None:
            if top.dispose_seq is not None:
                code = getattr(item.action, "__code__", None)
                if code is not None and code.co_filename.startswith(LIBDIR):
                    lab.add("libaction", getattr(item.action, "__qualname__", "?"))
            if n == j:
                top.dispose()
    if variant is not None and variant[0] == "c":
        probe = next((p for p in b.g.callbacks if p.name == variant[1]), None)
        if probe is not None:
            orig, k = probe.impl, variant[2]

            def impl(*a: Any, **kw: Any) -> Any:
                if probe.calls == k:
                    top.dispose()
                return orig(*a, **kw)
            probe.impl = impl
    P.execute(b, keep, top=top, as_callbacks=as_callbacks, trampoline=is_tramp(idx), after_action=after)
    return b, top


def judge(b: P.Built, top: Any, keep: list | None) -> dict | None:
    lab, ev = b.lab, b.lab.ev
    D = top.dispose_seq
    if D is None or b.livelock:
        return None
    TD = ev[D][1]
    call_seq = max(e[0] for e in ev[:D] if e[2] == "dispose_call" and e[3] == "top")
    term = top.terminal
    out: dict = {"problems": [], "obs": Counter(), "TD": TD, "live_before": term is None or term[3] > call_seq}
    live = [(c, s, e, t) for (c, s, e, t) in P.child_intervals(lab, top) if s < D and (e is None or e > D)]
    unbounded = any(t is None for (_, _, _, t) in live)
    L = max([TD] + [t for (_, _, _, t) in live if t is not None])
    out["L"], out["live_windows"] = (None if unbounded else L), len(live)
    nested_stage = b.nested_stage(keep)
    cbinfo = {p.name: p for p in b.g.callbacks}
    for e in ev[D + 1:]:
        if e[2] == "recv" and e[3] == "top":
            out["problems"].append(("recv", "recv", e))
    for e in ev[D + 1:]:
        if e[2] == "libaction":
            # not part of the statement (every stage's auto-detaching observer is stopped by the dispose, so a timer that
            # was not cancelled fires into the void): counted only
            out["obs"]["library_scheduler_actions_run_after_dispose_%s" % ("later" if e[1] > TD else "same_instant")] += 1
    if not out["live_before"]:
        # the subscriber had already terminated (dispose() from a callback that runs during the termination's own
        # clean-up, e.g. a finally_action): only silence is asserted; what termination must release is C02's subject
        return out
    for e in ev[D + 1:]:
        if e[2] == "cb":
            p = cbinfo[e[3]]
            nxt = ev[e[0] + 1] if e[0] + 1 < len(ev) else None
            if top.during_subscribe:
                out["obs"]["callbacks_after_dispose_made_during_a_subscribe_call"] += 1
            elif nxt is not None and nxt[2] == "note" and nxt[3] == "inflight":
                out["obs"]["callbacks_during_" + nxt[4]] += 1
            elif live and nested_stage is not None and p.stage <= nested_stage and (unbounded or e[1] <= L):
                out["obs"]["callbacks_excused_live_window"] += 1
            else:
                out["problems"].append(("callback", p.role, e))
    for key, sub, unsub in P.subscriptions(lab):
        excused = bool(live) and (unbounded or sub[1] <= L)
        if sub[0] > D and not excused:
            if unsub is not None and unsub[1] == sub[1] and sub[1] <= TD:
                # e.g. a stage that was being subscribed when dispose() was called from inside: opened and closed at the dispose instant
                out["obs"]["sub_opened_and_closed_in_one_instant_after_dispose"] += 1
            else:
                # opened and kept open, or opened at a LATER instant at all (a pending timer/trampoline action of the
                # pipeline that dispose() should have cancelled subscribed a source for a subscriber that is gone)
                out["problems"].append(("late-sub", "late-sub", (key, sub[1], None if unsub is None else unsub[1])))
            continue
        if unbounded:
            continue
        if unsub is None or unsub[1] > L:
            out["problems"].append(("leak", "leak", (key, sub[1], None if unsub is None else unsub[1])))
        elif sub[0] < call_seq < unsub[0]:
            out["obs"]["subscriptions_closed_by_dispose"] += 1
    return out


def sample_points(r: Any, lo: int, hi: int, n: int) -> list[int]:
    pts = list(range(lo, hi + 1))
    if len(pts) <= n:
        return pts
    must = {lo, lo + 1, hi, hi - 1}
    rest = [p for p in pts if p not in must]
    return sorted(must | set(r.sample(rest, n - len(must))))


def variants(seed: int, idx: int, keep: list | None, tier: str, full: bool = False) -> list[tuple]:
    """the undisturbed run decides the dispose points"""
    b, top = run(seed, idx, keep, None)
    r = case_rng(seed, ID, idx, "points")
    A = b.lab.nactions
    R = top.counts["N"]
    quick = tier == "quick" and not full
    out: list[tuple] = []
    if b.sub_action is None or b.livelock:
        return out
    if is_tramp(idx):
        ks = list(range(1, min(R, 8) + 1))
        out += [("d", k) for k in (ks if not quick or len(ks) <= 4 else sorted({1, 2, R if R <= 8 else 8, r.choice(ks)}))]
    else:
        last = (b.term_action - 1) if b.term_action is not None else A - 1
        lo = b.sub_action
        if last >= lo:
            n = 10 if quick else (40 if not full else 10 ** 6)
            out += [("a", j) for j in sample_points(r, lo, last, n)]
        ks = list(range(1, min(R, 8) + 1))
        out += [("b", k) for k in (ks if not quick or len(ks) <= 3 else sorted({1, ks[-1], r.choice(ks)}))]
    cbs = [p for p in b.g.callbacks if p.calls > 0 and (keep is None or p.stage in keep)]
    if cbs:
        if quick:
            cbs = r.sample(cbs, min(2, len(cbs)))
        for p in cbs:
            kmax = min(p.calls, 4)
            ks = list(range(1, kmax + 1)) if not quick else [r.randint(1, kmax)]
            out += [("c", p.name, k) for k in ks]
    return out


def mech_of(b: P.Built, kept: list | None, variant: tuple, prob: tuple) -> str:
    if prob[0] == "callback":
        # the operator that made the late call is the mechanism, whatever else the (minimised) witness needs
        p = next(p for p in b.g.callbacks if p.name == prob[2][3])
        op, role = IMPLEMENTED_BY.get((p.opname, p.role), (p.opname, p.role))
        return "C03:%s:%s-after-dispose-%s" % (op, role, VARIANT_NAME[variant[0]])
    opn = "+".join(sorted(set(b.opnames(kept)))) or "source-only"
    return "C03:%s:%s-after-dispose-%s" % (opn, prob[0], VARIANT_NAME[variant[0]])


def evaluate(seed: int, idx: int, keep: list | None, variant: tuple, res: UnitResult, tier: str, minimize: bool) -> None:
    b, top = run(seed, idx, keep, variant)
    j = judge(b, top, keep)
    desc = b.describe(keep)
    desc["dispose"] = show(variant)
    if j is None:
        res.case(key=desc, nontrivial=False)
        res.count("dispose_point_not_reached")
        return
    sample = None
    if j["live_before"] and j["obs"]["subscriptions_closed_by_dispose"]:
        sample = {"case": desc, "dispose_time": j["TD"], "received_before": top.kinds[:20], "live_windows": j["live_windows"],
                  "subscriptions": [[k[0], k[1], s[1], None if u is None else u[1]] for k, s, u in P.subscriptions(b.lab)][:10]}
    res.case(key=desc, nontrivial=j["live_before"], sample=sample)
    res.count("variant_%s_%s" % (variant[0], VARIANT_NAME[variant[0]].replace("-", "_")))
    if j["live_before"]:
        res.count("disposed_while_live")
    if j["live_windows"]:
        res.count("disposed_with_live_window")
    if top.pending_dispose:
        res.count("dispose_requested_before_subscribe_returned")
    if top.during_subscribe:
        res.count("dispose_called_during_a_subscribe_call")
    for k, v in j["obs"].items():
        res.count(k, v)
    res.count("clock_" + b.lab.clock_kind)
    if not j["problems"]:
        return
    prob = j["problems"][0]
    kept = keep
    if minimize and keep is None:
        kind = prob[0]

        def fails(cand: list) -> bool:
            for v in variants(seed, idx, cand, tier, full=True):
                if v[0] != variant[0] or (v[0] == "c" and v[1] != variant[1]):
                    continue
                bb, tt = run(seed, idx, cand, v)
                jj = judge(bb, tt, cand)
                if jj is not None and any(p[0] == kind and p[1] == prob[1] for p in jj["problems"]):
                    found.append((cand, v))
                    return True
            return False

        found: list = []
        kept = P.minimize(lambda: gen(seed, idx)[0], fails)
        if found:
            kept, variant = found[-1]
            b, top = run(seed, idx, kept, variant)
            j = judge(b, top, kept) or j
            prob = next((p for p in j["problems"] if p[0] == kind), j["problems"][0] if j["problems"] else prob)
            desc = b.describe(kept)
            desc["dispose"] = show(variant)
    D = top.dispose_seq or 0
    why = {"recv": "the subscriber received a notification after dispose() returned",
           "callback": "a user callback of the pipeline ran after dispose() returned",
           "leak": "a source subscription is still open after the dispose instant",
           "late-sub": "a source was subscribed after dispose() returned (at a later instant, or kept open)"}[prob[0]]
    res.violation(mech_of(b, kept, variant, prob),
                  {"why": why, "offending": show(prob[2]), "dispose_ret_seq": D, "dispose_time": j["TD"], "closure_deadline": j["L"],
                   "live_windows_at_dispose": j["live_windows"], "all_problems": [show((p[0], p[1])) for p in j["problems"][:8]],
                   "case": desc, "trace_around_dispose": [show(e) for e in b.lab.ev[max(0, D - 12):D + 14]]},
                  {"seed": seed, "idx": idx, "keep": kept, "variant": list(variant)})


def run_case(seed: int, idx: int, res: UnitResult, tier: str) -> None:
    b0, _ = gen(seed, idx)
    for n in b0.opnames():
        res.note("ops", n)
    res.count("pipelines")
    if is_tramp(idx):
        res.count("pipelines_trampoline")
    for v in variants(seed, idx, None, tier):
        evaluate(seed, idx, None, v, res, tier, minimize=True)


def run_unit(unit: dict, res: UnitResult) -> None:
    for idx in range(unit["lo"], unit["hi"]):
        run_case(unit["seed"], idx, res, unit.get("tier", "quick"))


def replay(rep: dict, res: UnitResult) -> None:
    evaluate(rep["seed"], rep["idx"], rep.get("keep"), tuple(rep["variant"]), res, rep.get("tier", "quick"), minimize=False)
