"""C16 Rate-limiting operators follow their timing rules (virtual time, model differential).

Oracles are written from the property statement (DESIGN.md §5 C16, tie policy §4 rule 2):
  debounce(due) / throttle_with_timeout   element x arriving at t is emitted at t+due iff no newer element arrives in
                        [t, t+due); a newer element (or the error) at exactly t+due is a tie (both outcomes accepted);
                        the pending element is flushed at completion and dropped at an error
  throttle_first(w)     emitted iff it is the first element or t - t_last_emitted >= w (exact)
  throttle_with_mapper  the pending (latest) element is emitted at the first N or C of ITS throttle observable unless a
                        newer element arrived before (OBSERVED trace order); flushed at completion, dropped at error
  sample(sampler)       at each sampler tick the latest not-yet-sampled element is emitted; after the source completed
                        the result completes at the next tick; an error passes at once.  Sampler given as observable:
                        exact by observed trace order (not judged from the sampler's own completion on, which the
                        statement does not define).  Sampler given as period p: ticks at t0 + k*p, source
                        notifications at exactly a tick instant may fall on either side (tie).
"""
from __future__ import annotations

from typing import Any

import reactivex.operators as ops

from ..common import UnitResult, case_rng, chunks, show, strict
from ..single import SUB_AT, cut_after_terminal, make_input, match_expected, run_single, show_timed
from ..vlab import Lab, gen_timeline, show_timeline
from . import _c15_time as T

ID = "C16"
LEVEL = "exploration"
RULE = ("seeded random cases: operator (debounce, its alias throttle_with_timeout, throttle_first, throttle_with_mapper, "
        "sample with a period, sample with a sampler observable) x clock (TestScheduler / HistoricalScheduler) x due-time "
        "shape (int, float, timedelta) x scheduler given to the operator or to subscribe x hot/cold coarse-grid timeline "
        "(0..7 elements, same-instant bursts, gaps equal to the parameter, C/E/never with an element pending); throttle "
        "observables / samplers are probe sources; every eighth case additionally a feedback case: the source is a Subject and the "
        "subscriber pushes the next element into it from inside its on_next (i.e. from inside the operator's timer / throttle / "
        "sampler delivery), the chain of elements must come out one per due time / tick, with flush or tick-completion when the "
        "source completes quietly or with the last element pending; non-trivial = the subscriber is offered >= 1 element; distinct = "
        "digest of (operator, parameters, clock, timeline)")
ASSUMPTIONS = ["TestScheduler / HistoricalScheduler are the clock (their ordering is checked independently by C28)",
               "probe sources and probe observers are harness code (conforming here)",
               "sample(period) is observed until a fixed virtual time after the last source notification, then unsubscribed"]
CASES = {"quick": 19200, "thorough": 600000}
OPS = ["debounce", "debounce", "throttle_with_timeout", "throttle_first", "throttle_first", "throttle_with_mapper",
       "throttle_with_mapper", "throttle_with_mapper", "sample_period", "sample_period", "sample_obs", "sample_obs"]
OPSET = sorted(set(OPS))
REQUIRED = {"set:ops": len(OPSET), "set:clocks": 2, "set:shapes": 3,
            "ties": {"quick": 50, "thorough": 1000},
            "debounce_gap_equals_due": {"quick": 20, "thorough": 400},
            "debounce_flush_at_completion": {"quick": 20, "thorough": 400},
            "debounce_drop_at_error": {"quick": 10, "thorough": 200},
            "throttle_first_gap_equals_window": {"quick": 20, "thorough": 400},
            "twm_coinciding": {"quick": 10, "thorough": 200},
            "sample_tick_coincides": {"quick": 20, "thorough": 400},
            "sample_nothing_new_at_tick": {"quick": 20, "thorough": 400},
            "feedback_cases": {"quick": 2000, "thorough": 60000},
            "feedback_elements_pushed_from_inside_a_delivery": {"quick": 4000, "thorough": 120000}}
DUES = [0, 1, 4, 5, 5, 6, 10, 10, 15, 20, 2.5]
WINDOWS = [1, 4, 5, 5, 6, 10, 10, 15, 20, 2.5]
PERIODS = [4, 5, 5, 7, 10, 10, 15, 20]
END = SUB_AT + 160.5      # sample(period) never ends by itself when the source does not: unsubscribe here


def units(tier: str, seed: int) -> list[dict]:
    return [{"lo": lo, "hi": hi, "seed": seed} for lo, hi in chunks(CASES[tier], 16 if tier == "quick" else 64)]


def gen_case(r: Any, idx: int) -> dict:
    op = OPS[idx % len(OPS)]
    clock = r.choice(["num", "dt"])
    domain = r.choice(["ints", "falsy", "dups"])
    hot = r.random() < 0.4
    tl = gen_timeline(r, domain, maxlen=7)
    n = sum(1 for m in tl if m[1] == "N")
    # "both": the operator gets the lab's scheduler AND subscribe() hands down another, working scheduler whose clock is frozen
    P: dict = {"sched": r.choice(["arg", "sub", "both"]) if op not in ("throttle_with_mapper", "sample_obs") else r.choice(["arg", "sub"])}
    if op in ("debounce", "throttle_with_timeout"):
        P["d"] = r.choice(DUES)
        P["shape"] = r.choice(T.SHAPES_REL)
    elif op == "throttle_first":
        P["d"] = r.choice(WINDOWS)
        P["shape"] = r.choice(T.SHAPES_REL)
    elif op == "throttle_with_mapper":
        P["throttles"] = [T.gen_fire_spec(r) for _ in range(n)]
    elif op == "sample_period":
        P["d"] = r.choice(PERIODS)
        P["shape"] = r.choice(T.SHAPES_REL)
    elif op == "sample_obs":
        ticks = []
        t = 0
        for _ in range(r.randint(0, 8)):
            t += r.choice((0, 5, 5, 10, 10, 15, 1, 4))
            ticks.append((t, "N", "tick"))
        if r.random() < 0.25:
            ticks.append((t + r.choice((0, 5, 10)), "C", None))
        P["sampler"] = {"kind": "cold", "msgs": ticks}
    return {"op": op, "P": P, "tl": tl, "hot": hot, "clock": clock, "domain": domain}


def build(case: dict, lab: Lab, src: Any) -> Any:
    op, P = case["op"], case["P"]
    T.arm(lab)
    sch = lab.ts if P["sched"] in ("arg", "both") else None
    if op == "debounce":
        return src.pipe(ops.debounce(T.due(lab, P["shape"], rel=P["d"]), scheduler=sch))
    if op == "throttle_with_timeout":
        return src.pipe(ops.throttle_with_timeout(T.due(lab, P["shape"], rel=P["d"]), scheduler=sch))
    if op == "throttle_first":
        return src.pipe(ops.throttle_first(T.due(lab, P["shape"], rel=P["d"]), scheduler=sch))
    if op == "throttle_with_mapper":
        calls = [0]

        def mapper(x: Any) -> Any:
            i = calls[0]
            calls[0] += 1
            return T.make_probe(lab, "th%d" % i, P["throttles"][i])
        return src.pipe(ops.throttle_with_mapper(mapper))
    if op == "sample_period":
        return src.pipe(ops.sample(T.due(lab, P["shape"], rel=P["d"]), scheduler=sch))
    if op == "sample_obs":
        return src.pipe(ops.sample(T.make_probe(lab, "sm", P["sampler"])))
    raise KeyError(op)


# ------------------------------------------------------------------------------------------- models

def model_debounce(seen: list, due: float, tie: T.Tie, marks: dict) -> list:
    out: list = []
    pending: tuple | None = None
    for (t, k, v) in cut_after_terminal(seen):
        if pending is not None:
            fire = pending[0] + due
            if fire < t:
                out.append((fire, "N", pending[1]))
                pending = None
            elif fire == t:
                # the timer of the pending element and this notification are due at the same instant (rule 2)
                marks["gap_equals_due"] = True
                if tie.choose(2) == 1:
                    out.append((fire, "N", pending[1]))
                    pending = None
        if k == "N":
            if pending is not None:
                marks["superseded"] = True
            pending = (t, v)
        elif k == "C":
            if pending is not None:
                marks["flush"] = True
                out.append((t, "N", pending[1]))
            out.append((t, "C", None))
            return out
        else:
            if pending is not None:
                marks["drop_at_error"] = True
            out.append((t, "E", v))
            return out
    if pending is not None:
        out.append((pending[0] + due, "N", pending[1]))
    return out


def model_throttle_first(seen: list, w: float, marks: dict) -> list:
    out: list = []
    last: float | None = None
    for (t, k, v) in cut_after_terminal(seen):
        if k == "N":
            if last is not None and t - last == w:
                marks["gap_equals_window"] = True
            if last is None or t - last >= w:
                out.append((t, "N", v))
                last = t
            else:
                marks["suppressed"] = True
        else:
            out.append((t, k, v))
    return out


def model_twm(lab: Lab) -> list:
    """Observed trace: the latest element is pending until the first N/C of ITS throttle source th<i>."""
    out: list = []
    pending: tuple | None = None
    n = 0
    for (seq, t, name, sid, k, v) in T.emits(lab):
        if name == "s":
            if k == "N":
                pending = (n, v)
                n += 1
            elif k == "C":
                if pending is not None:
                    out.append((t, "N", pending[1]))
                out.append((t, "C", None))
                return out
            else:
                out.append((t, "E", v))
                return out
        elif name.startswith("th") and k in "NC":
            if pending is not None and pending[0] == int(name[2:]):
                out.append((t, "N", pending[1]))
                pending = None
    return out


def model_sample_obs(lab: Lab, marks: dict) -> tuple[list, int | None]:
    """Observed trace.  Returns (expected outputs, trace position from which the case is no longer judged)."""
    out: list = []
    has = False
    val: Any = None
    at_end = False
    for (seq, t, name, sid, k, v) in T.emits(lab):
        if name == "s":
            if k == "N":
                has, val = True, v
            elif k == "C":
                at_end = True
            else:
                out.append((t, "E", v))
                return out, None
        elif name == "sm":
            if k == "N":
                if has:
                    out.append((t, "N", val))
                    has = False
                else:
                    marks["nothing_new"] = True
                if at_end:
                    out.append((t, "C", None))
                    return out, None
            else:
                # what the sampler's own completion means is not part of the statement: stop judging here
                marks["sampler_completed"] = True
                return out, seq
    return out, None


def model_sample_period(seen: list, t0: float, p: float, end: float, tie: T.Tie, marks: dict) -> list:
    out: list = []
    evs = cut_after_terminal(seen)
    st = {"has": False, "val": None, "at_end": False}
    i = 0

    def feed(m: tuple) -> bool:
        """True when the result terminated"""
        (t, k, v) = m
        if k == "N":
            st["has"], st["val"] = True, v
        elif k == "C":
            st["at_end"] = True
        else:
            out.append((t, "E", v))
            return True
        return False

    j = 1
    while t0 + j * p < end:
        tick = t0 + j * p
        j += 1
        while i < len(evs) and evs[i][0] < tick:
            if feed(evs[i]):
                return out
            i += 1
        same = 0
        while i + same < len(evs) and evs[i + same][0] == tick:
            same += 1
        if same:
            # the interval timer and the source fire at the same instant (rule 2): the tick may fall anywhere in the burst
            marks["coincide"] = True
            for _ in range(tie.choose(same + 1)):
                if feed(evs[i]):
                    return out
                i += 1
        if st["has"]:
            out.append((tick, "N", st["val"]))
            st["has"] = False
        else:
            marks["nothing_new"] = True
        if st["at_end"]:
            out.append((tick, "C", None))
            return out
    while i < len(evs):
        if feed(evs[i]):
            return out
        i += 1
    return out


def describe(case: dict) -> dict:
    P = dict(case["P"])
    if "throttles" in P:
        P["throttles"] = [T.show_spec(s) for s in P["throttles"]]
    if "sampler" in P:
        P["sampler"] = T.show_spec(P["sampler"])
    return {"op": case["op"], "params": show(P), "clock": case["clock"], "hot": case["hot"],
            "timeline": show_timeline(case["tl"])}


def run_case(seed: int, idx: int, res: UnitResult) -> None:
    r = case_rng(seed, ID, idx)
    case = gen_case(r, idx)
    op, P = case["op"], case["P"]
    msgs, seen = make_input(r, case["tl"], case["hot"])
    if P["sched"] == "both":
        res.count("cases_with_a_different_scheduler_at_subscribe")
    lab, obs, src = run_single(lambda lab, s: build(case, lab, s), msgs, case["hot"], clock=case["clock"], sub_scheduler=T.frozen_scheduler if P["sched"] == "both" else None,
                               dispose_at=END if op == "sample_period" else None)
    desc = describe(case)
    if T.spun(lab):
        res.count("same_instant_livelocks")
        res.case(key=desc, nontrivial=False)
        res.violation("C16:%s:same-instant-livelock" % op,
                      {"why": "more than %d scheduler actions at one virtual instant (%d): the operator keeps rescheduling "
                              "itself without advancing; run stopped" % (T.SPIN_GUARD, lab.max_same_instant),
                       "case": desc, "observed_so_far": show_timed(obs.timed())}, {"seed": seed, "idx": idx})
        return
    actual = obs.timed()
    marks: dict = {}
    seen_cut = cut_after_terminal(seen)
    alts: list[list]
    points = 0

    if op in ("debounce", "throttle_with_timeout"):
        alts, points = T.alternatives(lambda tie: model_debounce(seen, P["d"], tie, marks))
        why = T.match_any(alts, actual)
        for m, c in (("gap_equals_due", "debounce_gap_equals_due"), ("flush", "debounce_flush_at_completion"),
                     ("drop_at_error", "debounce_drop_at_error"), ("superseded", "debounce_superseded")):
            if marks.get(m):
                res.count(c)
        if P["d"] == 0 and seen_cut:
            res.count("debounce_zero_due")
    elif op == "throttle_first":
        alts = [model_throttle_first(seen, P["d"], marks)]
        why = T.match_any(alts, actual)
        if marks.get("gap_equals_window"):
            res.count("throttle_first_gap_equals_window")
            res.count("boundary_hits")
        if marks.get("suppressed"):
            res.count("throttle_first_suppressed")
    elif op == "throttle_with_mapper":
        alts = [model_twm(lab)]
        why = T.match_any(alts, actual)
        em = T.emits(lab)
        times = [t for (seq, t, name, sid, k, v) in em if name.startswith("th")]
        stimes = {t for (seq, t, name, sid, k, v) in em if name == "s"}
        if any(t in stimes for t in times):
            res.count("twm_coinciding")
            res.count("ties")
        if why is None and not case["hot"]:
            # cross-check with the description where no coincidence is involved: element i (arriving at t_i) is emitted
            # at t_i + offset_i when nothing else arrives in [t_i, t_i + offset_i]
            idx_n = [q for q, m in enumerate(seen_cut) if m[1] == "N"]
            for i, q in enumerate(idx_n):
                t, v = seen_cut[q][0], seen_cut[q][2]
                off = T.fires_at(P["throttles"][i])
                if off is None or any(t <= m[0] <= t + off for j, m in enumerate(seen_cut) if j != q):
                    continue
                res.count("twm_isolated_elements_checked")
                if not any(a[0] == t + off and a[1] == "N" and strict(a[2]) == strict(v) for a in actual):
                    why = "element %d (at %s, throttle fires after %s, nothing else arrives until then) was not emitted at %s" % (i, t, off, t + off)
                    break
    elif op == "sample_obs":
        expected, cutoff = model_sample_obs(lab, marks)
        alts = [expected]
        actual = T.recv_before(obs, cutoff)
        why = T.match_any(alts, actual)
        if why is None:
            # the trace-driven model is only as good as the trace: the sampler must have been subscribed once, at
            # subscription time, and kept until the result terminated (or the sampler itself completed)
            sm_subs = T.subs(lab, "sm")
            sm_unsub = [e[0] for e in lab.ev if e[2] == "unsub" and e[3] == "sm"]
            term_seq = obs.terminal[3] if obs.terminal is not None else None
            if len(sm_subs) != 1 or sm_subs[0][1] != SUB_AT:
                why = "sampler subscriptions at %s, expected exactly one at %s" % ([t for (_, t) in sm_subs], SUB_AT)
            elif sm_unsub and cutoff is None and (term_seq is None or sm_unsub[0] < term_seq):
                why = "sampler unsubscribed before the result terminated"
        em = T.emits(lab)
        stimes = {t for (seq, t, name, sid, k, v) in em if name == "s"}
        if any(name == "sm" and t in stimes for (seq, t, name, sid, k, v) in em):
            res.count("sample_tick_coincides")
            res.count("ties")
        if marks.get("nothing_new"):
            res.count("sample_nothing_new_at_tick")
        if marks.get("sampler_completed"):
            res.count("sample_not_judged_after_sampler_completion")
    else:
        alts, points = T.alternatives(lambda tie: model_sample_period(seen, SUB_AT, P["d"], END, tie, marks))
        why = T.match_any(alts, actual)
        if marks.get("coincide"):
            res.count("sample_tick_coincides")
        if marks.get("nothing_new"):
            res.count("sample_nothing_new_at_tick")

    if points:
        res.count("ties")
        res.count("tie_points", points)
        res.count("boundary_hits")
    times = [t for (t, k, v) in seen_cut]
    if len(times) != len(set(times)):
        res.count("same_instant_bursts")
    nontrivial = any(m[1] == "N" for m in seen)
    res.case(key=desc, nontrivial=nontrivial,
             sample={"case": desc, "expected": show_timed(alts[0]), "accepted_alternatives": len(alts),
                     "observed": show_timed(actual)} if idx % 11 == 0 else None)
    res.note("ops", op)
    res.note("clocks", case["clock"])
    if "shape" in P:
        res.note("shapes", P["shape"])
    res.count("outputs_compared", len(alts[0]))
    if why is None and lab.escaped_to_scheduler:
        why = "exception escaped to scheduler: %r" % (lab.escaped_to_scheduler[0],)
    if why is not None:
        res.violation("C16:%s" % op, {"why": why, "case": desc, "accepted": [show_timed(a) for a in alts[:4]],
                                      "accepted_alternatives": len(alts), "observed": show_timed(actual)},
                      {"seed": seed, "idx": idx})


FEEDBACK_OPS = ["debounce", "throttle_with_timeout", "throttle_with_mapper", "sample_period", "sample_obs"]


def feedback_case(seed: int, idx: int, res: UnitResult) -> None:
    """The "game loop": the subscriber reacts to every element it receives by pushing the next one into the (Subject)
    source, from inside its on_next - i.e. while the operator is delivering from its timer / throttle / sampler callback.
    The source stays serial (the nested emission is not inside another source emission); the new element is the pending
    one at the next tick / after the next due time and must come out then."""
    from reactivex.subject import Subject
    r = case_rng(seed, ID, "feedback", idx)
    op = FEEDBACK_OPS[idx % len(FEEDBACK_OPS)]
    d = r.choice([1, 5, 5, 10, 2.5])
    n = r.randint(1, 5)               # elements pushed by the feedback (after the first, external one)
    first = r.choice([0, 0, 7, -3])
    complete = r.choice([None, None, "quiet", "pending"])
    lab = Lab(r.choice(["num", "dt"]))
    T.arm(lab)
    src: Any = Subject()
    pushed = [0]

    def on_recv(kind: str, value: Any, obs: Any) -> None:
        if kind == "N" and pushed[0] < n:
            pushed[0] += 1
            src.on_next(value + 1)
    top = lab.observer("top", inner=False, on_recv=on_recv)
    t_first = SUB_AT + 0.5            # never on a tick (periods are multiples of 0.5 >= 1)
    if op in ("debounce", "throttle_with_timeout"):
        f = ops.debounce if op == "debounce" else ops.throttle_with_timeout
        o = src.pipe(f(T.due(lab, r.choice(T.SHAPES_REL), rel=d), scheduler=lab.ts))
        times = [t_first + (i + 1) * d for i in range(n + 1)]
    elif op == "throttle_with_mapper":
        cnt = [0]

        def mapper(x: Any) -> Any:
            cnt[0] += 1
            return lab.cold("th%d" % cnt[0], [(d, "N", "fire")] + ([(d, "C", None)] if x % 2 else []))
        o = src.pipe(ops.throttle_with_mapper(mapper))
        times = [t_first + (i + 1) * d for i in range(n + 1)]
    elif op == "sample_period":
        o = src.pipe(ops.sample(T.due(lab, r.choice(T.SHAPES_REL), rel=d), scheduler=lab.ts))
        times = [SUB_AT + (i + 1) * d for i in range(n + 1)]
    else:
        sampler = lab.cold("sm", [((i + 1) * d, "N", "tick") for i in range(n + 9)])
        o = src.pipe(ops.sample(sampler))
        times = [SUB_AT + (i + 1) * d for i in range(n + 1)]
    lab.at(SUB_AT, lambda: top.subscribe_to(o))
    lab.at(t_first, lambda: src.on_next(first))
    expected = [(t, "N", first + i) for i, t in enumerate(times)]
    t_done = None
    if complete == "quiet":
        t_done = times[-1] + 3 * d + 0.25
    elif complete == "pending" and n >= 1:
        t_done = times[-2] + d / 4.0          # the last element is pending when the source completes
    if t_done is not None:
        lab.at(t_done, src.on_completed)
        if op.startswith("sample"):
            # sample completes at the first tick after the source completed; a pending element is delivered at that tick
            k = int((t_done - SUB_AT) // d) + 1
            t_c = SUB_AT + k * d
            expected = [e for e in expected if e[0] <= t_c] + [(t_c, "C", None)]
        else:
            # debounce / throttle_with_mapper flush the pending element and complete at once
            if complete == "pending":
                expected = expected[:-1] + [(t_done, "N", expected[-1][2]), (t_done, "C", None)]
            else:
                expected.append((t_done, "C", None))
    lab.at(times[-1] + 6 * d + 20.5, top.dispose)
    lab.run()
    got = top.timed()
    desc = {"family": "feedback", "op": op, "due_or_period": d, "feedback_elements": n, "first": first, "source_completes": complete, "clock": lab.clock_kind}
    res.case(key=desc, nontrivial=True, sample={"case": desc, "expected": show_timed(expected), "observed": show_timed(got)} if idx % 60 == 0 else None)
    res.count("feedback_cases")
    res.count("feedback_elements_pushed_from_inside_a_delivery", pushed[0])
    if T.spun(lab):
        res.violation("C16:%s:feedback:same-instant-livelock" % op, {"case": desc}, {"seed": seed, "idx": idx, "family": "feedback"})
        return
    why = match_expected(expected, got)
    if why is not None:
        res.violation("C16:%s:feedback" % op, {"why": why, "case": desc, "expected": show_timed(expected), "observed": show_timed(got)},
                      {"seed": seed, "idx": idx, "family": "feedback"})


def run_unit(unit: dict, res: UnitResult) -> None:
    for idx in range(unit["lo"], unit["hi"]):
        run_case(unit["seed"], idx, res)
        if idx % 8 == 0:
            feedback_case(unit["seed"], idx // 8, res)


def replay(rep: dict, res: UnitResult) -> None:
    if rep.get("family") == "feedback":
        feedback_case(rep["seed"], rep["idx"], res)
        return
    run_case(rep["seed"], rep["idx"], res)
