"""Private helpers shared by the time-operator checks C15, C16, C17.

* due-time shapes (plain number, timedelta, absolute datetime) for both virtual clocks;
* a tie enumerator: a model asks `tie.choose(n)` wherever the statement leaves n outcomes open
  (DESIGN.md §4 rule 2); `alternatives()` runs the model once per combination of answers;
* trace helpers over `lab.ev` for the models that must follow the OBSERVED order of emissions;
* probe-source specifications (JSON-able) for delay/throttle/timeout/sampler observables.
"""
from __future__ import annotations

import datetime as _dt
from typing import Any, Callable

from ..common import show, strict
from ..single import match_expected
from ..vlab import EPOCH, Lab

UTC_ZERO = _dt.datetime.fromtimestamp(0, tz=_dt.timezone.utc)
# VirtualTimeScheduler.start() bumps the clock artificially after > 100 actions at one instant; cases that
# come anywhere near that are not judged (they do not occur with the small timelines used here).
SPIN_GUARD = 60
SHAPES_REL = ("int", "float", "td")


def clock_base(lab: Lab) -> _dt.datetime:
    return UTC_ZERO if lab.clock_kind == "num" else EPOCH


def due(lab: Lab, shape: str, rel: float | None = None, at: float | None = None) -> Any:
    """The due-time argument handed to the operator.
    shape int/float/td: relative time `rel` seconds; shape abs: absolute datetime of virtual second `at`."""
    if shape == "abs":
        assert at is not None
        return clock_base(lab) + _dt.timedelta(seconds=at)
    assert rel is not None
    if shape == "td":
        return _dt.timedelta(seconds=rel)
    if shape == "int" and float(rel).is_integer():
        return int(rel)
    return float(rel)


def clock_seconds(lab: Lab, reading: Any) -> Any:
    """scheduler.now reading (a datetime on both clocks) -> virtual seconds; non-datetimes are returned as a marker."""
    if not isinstance(reading, _dt.datetime):
        return ("not-a-datetime", repr(reading))
    return (reading - clock_base(lab)).total_seconds()


# ------------------------------------------------------------------------------------------- ties

class Tie:
    """Answers the model's open choices from a prefix, then with 0; remembers what was asked."""

    def __init__(self, prefix: list[int]) -> None:
        self.prefix = prefix
        self.taken: list[int] = []
        self.arity: list[int] = []

    def choose(self, n: int) -> int:
        """one of range(n); n <= 1 is no choice at all"""
        if n <= 1:
            return 0
        i = len(self.taken)
        c = self.prefix[i] if i < len(self.prefix) else 0
        self.taken.append(c)
        self.arity.append(n)
        return c


def alternatives(model: Callable[[Tie], list], limit: int = 2048) -> tuple[list[list], int]:
    """All outputs the model accepts (deduplicated) and the number of open choice points on the all-zero path."""
    outs: list[list] = []
    seen: set = set()
    stack: list[list[int]] = [[]]
    first_points = None
    runs = 0
    while stack:
        pre = stack.pop()
        tie = Tie(pre)
        out = model(tie)
        runs += 1
        if first_points is None:
            first_points = len(tie.arity)
        key = repr([(t, k, strict(v) if not isinstance(v, type) else v.__name__) for (t, k, v) in out])
        if key not in seen:
            seen.add(key)
            outs.append(out)
        for j in range(len(pre), len(tie.arity)):
            for c in range(1, tie.arity[j]):
                stack.append(tie.taken[:j] + [c])
        if runs > limit:
            raise RuntimeError("tie enumeration exceeded %d runs" % limit)
    return outs, first_points or 0


def match_any(alts: list[list], actual: list) -> str | None:
    """None when `actual` equals one accepted alternative, else the reason for the first alternative."""
    why0 = None
    for a in alts:
        why = match_expected(a, actual)
        if why is None:
            return None
        if why0 is None:
            why0 = why
    return why0 if why0 is not None else "no alternative"


# ------------------------------------------------------------------------------------------- traces

def emits(lab: Lab) -> list[tuple]:
    """(seq, time, name, sid, kind, value) of every probe-source emission, in observed order"""
    return [(e[0], e[1], e[3], e[4], e[5], e[6]) for e in lab.ev if e[2] == "emit"]


def subs(lab: Lab, name: str) -> list[tuple]:
    """(seq, time) of every subscription to the probe source `name`"""
    return [(e[0], e[1]) for e in lab.ev if e[2] == "sub" and e[3] == name]


def recv_before(obs: Any, seq: int | None) -> list:
    """timed() of a probe observer restricted to notifications recorded before trace position seq"""
    return [(r[2], r[0], r[1]) for r in obs.recv if seq is None or r[3] < seq]


class SpinBudget(Exception):
    """raised by the armed action hook: too many scheduler actions at one virtual instant"""


def arm(lab: Lab) -> None:
    """Stop a run that executes more than SPIN_GUARD scheduler actions at one virtual instant.  The cases of
    C15-C17 have <= ~10 source notifications and every operator needs O(1) actions per notification, so this
    only happens when an operator keeps rescheduling itself at the current instant (virtual-time livelock).
    Stopping early also keeps the run away from VirtualTimeScheduler's artificial clock bump after 100 spins
    (which would falsify all later times, and deadlocks on the datetime clock)."""
    def hook(n: int) -> None:
        if lab.same_instant > SPIN_GUARD:
            raise SpinBudget("%d scheduler actions at virtual time %s" % (lab.same_instant, lab.now()))
    lab.action_hook = hook


def spun(lab: Lab) -> bool:
    return lab.max_same_instant > SPIN_GUARD


# ------------------------------------------------------------------------------------------- probe specs

FIRE_STEPS = (0, 5, 5, 10, 10, 15, 1, 4)


def gen_fire_spec(r: Any, allow_sync: bool = True, allow_never: bool = True) -> dict:
    """A small observable that 'fires' (first N or C) at some offset: used as delay / throttle / timeout signal."""
    c = r.random()
    if allow_sync and c < 0.10:
        return {"kind": "sync", "msgs": [(0, r.choice("NC"), None)]}
    if allow_never and c < 0.16:
        return {"kind": "cold", "msgs": []}
    d = r.choice(FIRE_STEPS)
    c = r.random()
    if c < 0.5:
        msgs = [(d, "N", "tick")]
    elif c < 0.75:
        msgs = [(d, "C", None)]
    else:
        d2 = d + r.choice((0, 5, 10))
        msgs = [(d, "N", "tick"), (d2, "N", "tick2"), (d2 + r.choice((0, 5)), "C", None)]
    return {"kind": "cold", "msgs": msgs}


def make_probe(lab: Lab, name: str, spec: dict) -> Any:
    return lab.sync(name, spec["msgs"]) if spec["kind"] == "sync" else lab.cold(name, spec["msgs"])


def show_spec(spec: dict | None) -> Any:
    if spec is None:
        return None
    return {"kind": spec["kind"], "msgs": [[t, k, show(v)] for (t, k, v) in spec["msgs"]]}


def fires_at(spec: dict) -> float | None:
    """offset of the first notification of the spec (None = never)"""
    return spec["msgs"][0][0] if spec["msgs"] else None


def frozen_scheduler(lab: Lab) -> Any:
    """A second, fully working scheduler object whose CLOCK IS FROZEN (it always reads the lab's epoch + 1000 s): it runs everything
    through the lab's scheduler at the same virtual instants, so work that legitimately falls to the subscribe-time scheduler behaves
    as before, while an operator that reads the time from it instead of from the scheduler it was given gets constant readings."""
    import datetime as dt
    from reactivex.scheduler.scheduler import Scheduler
    inner = lab.ts
    frozen = clock_base(lab) + dt.timedelta(seconds=1000)

    class Frozen(Scheduler):
        @property
        def now(self) -> Any:
            return frozen

        def _wrap(self, action: Any) -> Any:
            return lambda sch, st=None: action(self, st)

        def schedule(self, action: Any, state: Any = None) -> Any:
            return inner.schedule(self._wrap(action), state)

        def schedule_relative(self, duetime: Any, action: Any, state: Any = None) -> Any:
            # ... and it is slow: every positive relative delay takes 1000 s longer. Timers of an operator that was given the lab's
            # scheduler must not end up here.
            d = self.to_timedelta(duetime)
            if d > dt.timedelta(0):
                d += dt.timedelta(seconds=1000)
            return inner.schedule_relative(d, self._wrap(action), state)

        def schedule_absolute(self, duetime: Any, action: Any, state: Any = None) -> Any:
            return inner.schedule_absolute(duetime, self._wrap(action), state)
    return Frozen()
