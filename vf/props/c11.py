"""C11 Merging keeps each inner order and completes when all complete (virtual time, event model over the trace).

The model walks the ordered event log. Inner sequences "arrive" with the observed outer emissions (or are the static
argument list of merge(a, b, ...)); every observed emission of a subscribed inner must appear in the output at its own
virtual time; completion is expected at the event that closes the last open party (outer, queued and subscribed
inners); the first observed error terminates. An inner subscription counts as open from its `sub` event to its own
terminal notification (or unsubscription). The order of two producers' notifications at one virtual instant is not
fixed by the statement: the exact comparison is tried first, a same-instant permutation that keeps every producer's
own order is accepted and counted.
"""
from __future__ import annotations

from typing import Any

import reactivex as rx
import reactivex.operators as ops

from ..common import UnitResult, case_rng, chunks, show
from ..vlab import Lab, gen_value
from ._c1x_common import (SUB_AT, build_source, gen_source, match_exact, match_same_instant_perm, new_lab, run_pipeline,
                          show_source, show_timed, show_trace, src_name)

ID = "C11"
LEVEL = "exploration"
RULE = ("seeded random cases: operator and call form (merge factory / merge operator with arguments / merge_all / "
        "merge(max_concurrent=n), n in 1..4 / flat_map and flat_map_indexed with a mapper, a constant observable or an "
        "iterable mapper result / concat_map), outer probe source (cold, hot or synchronous) with 0..5 arrivals ending "
        "in C / E / never, 1..4 inner probe sources (cold, hot, synchronous) with 0..3 elements ending in C / E / never, "
        "the same inner may arrive twice, subscription with scheduler=TestScheduler or without a scheduler argument; non-trivial = at least two inner subscriptions; distinct = digest of "
        "(operator, form, parameters, timelines)")
ASSUMPTIONS = ["reactivex.testing.TestScheduler is the clock (checked by C28)", "probe sources are harness code (conforming)",
               "map / map_indexed / from_iterable are used inside the operators under test (checked by C05 / C37)"]
CASES = {"quick": 6000, "thorough": 360000}
UNIT_TIMEOUT = {"quick": 300, "thorough": 3600}
OPS = ["merge", "merge_all", "flat_map", "flat_map_indexed", "concat_map", "merge_max_concurrent"]
REQUIRED = {"set:ops": len(OPS), "inner_subscriptions": {"quick": 6000, "thorough": 120000},
            "queued_arrivals": {"quick": 300, "thorough": 6000}, "completions_checked": {"quick": 1500, "thorough": 30000},
            "completed_by_outer_last": {"quick": 100, "thorough": 2000}, "completed_by_inner_last": {"quick": 300, "thorough": 6000},
            "error_terminations": {"quick": 300, "thorough": 6000}, "concurrency_limit_reached": {"quick": 200, "thorough": 4000},
            "reentrant_terminal_cases": {"quick": 500, "thorough": 10000}}


def units(tier: str, seed: int) -> list[dict]:
    return [{"lo": lo, "hi": hi, "seed": seed} for lo, hi in chunks(CASES[tier], 16 if tier == "quick" else 64)]


# ------------------------------------------------------------------------------------------ generation

def gen_case(r: Any, idx: int) -> dict:
    op = OPS[idx % len(OPS)]
    P: dict = {}
    uniq = [100] if r.random() < 0.5 else None
    domain = "uniq" if uniq else r.choice(["ints", "dups", "falsy"])
    ninner = r.randint(1, 4)
    limited = op in ("concat_map", "merge_max_concurrent")
    inners: dict = {}
    for i in range(ninner):
        name = "i%d" % i
        term = r.choice(["C", "C", "C", "C", "E", None]) if limited else r.choice(["C", "C", "C", "E", None])
        inners[name] = gen_source(r, name, domain=domain, maxlen=3, term=term, uniq=uniq,
                                  kinds=("cold", "cold", "cold", "cold", "hot", "sync", "sync"),
                                  hot_base=SUB_AT + r.choice([0, 5, 10, 20, 30]))
    names = sorted(inners)
    static = None
    outer = None
    if op == "merge":
        P["form"] = r.choice(["factory", "operator"])
        k = r.randint(0 if P["form"] == "factory" else 1, 4)
        static = [r.choice(names) for _ in range(k)]
    else:
        if op == "merge_max_concurrent":
            P["n"] = r.randint(1, 4)
        elif op == "concat_map":
            P["n"] = 1
        if op in ("flat_map", "flat_map_indexed"):
            P["form"] = r.choice(["mapper", "mapper", "mapper", "const", "iterable"])
            if P["form"] == "iterable":
                for nm in names:
                    if r.random() < 0.5:
                        inners[nm] = {"name": nm, "list": [gen_value(r, domain, uniq) for _ in range(r.randint(0, 3))],
                                      "as": r.choice(["list", "tuple"])}
        outer = gen_source(r, "outer", domain="ints", maxlen=5, term=r.choice(["C", "C", "C", "C", "E", None]),
                           kinds=("cold", "cold", "cold", "hot", "sync"))
        tl = []
        for (t, k, v) in outer["tl"]:
            tl.append((t, k, ("const" if P.get("form") == "const" else r.choice(names)) if k == "N" else v))
        outer["tl"] = tl
        if P.get("form") == "const":
            # the constant inner must be re-subscribable
            P["const"] = r.choice(names)
    P["scheduler_arg"] = r.random() < 0.7
    return {"op": op, "P": P, "outer": outer, "inners": inners, "static": static, "domain": domain}


def inner_of(case: dict, key: Any) -> str:
    return case["P"]["const"] if case["P"].get("form") == "const" else key


# ------------------------------------------------------------------------------------------ real pipeline

def build(case: dict, lab: Lab, S: dict, outer_src: Any) -> Any:
    op, P = case["op"], case["P"]

    def result_for(key: Any) -> Any:
        spec = case["inners"][inner_of(case, key)]
        if "list" in spec:
            return list(spec["list"]) if spec["as"] == "list" else tuple(spec["list"])
        return S[spec["name"]]

    if op == "merge":
        L = [S[n] for n in case["static"]]
        return rx.merge(*L) if P["form"] == "factory" else L[0].pipe(ops.merge(*L[1:]))
    if op == "merge_all":
        return outer_src.pipe(ops.merge_all())
    if op == "merge_max_concurrent":
        return outer_src.pipe(ops.merge(max_concurrent=P["n"]))
    if op == "concat_map":
        return outer_src.pipe(ops.concat_map(result_for))
    if op == "flat_map":
        if P["form"] == "const":
            return outer_src.pipe(ops.flat_map(S[P["const"]]))
        return outer_src.pipe(ops.flat_map(result_for))
    if op == "flat_map_indexed":
        if P["form"] == "const":
            return outer_src.pipe(ops.flat_map_indexed(S[P["const"]]))
        return outer_src.pipe(ops.flat_map_indexed(lambda x, i: result_for(x)))
    raise KeyError(op)


# ------------------------------------------------------------------------------------------ model / monitor

def monitor(case: dict, lab: Lab, t0: float) -> tuple[list, list, list, dict]:
    P = case["P"]
    n = P.get("n")
    static = case["static"]
    arrived: list = list(static) if static is not None else []     # probe inners in arrival order
    outer_done = static is not None
    expected: list = []
    owners: list = []
    problems: list = []
    st = {"subs": 0, "queued": 0, "max_open": 0, "limit_reached": 0, "completed_by": None, "error": 0, "after_end_subs": 0,
          "pseudo_times": [], "handle_not_released": 0, "arrivals": 0}
    out_open = True
    open_: set = set()
    terminated_not_released: set = set()
    n_sub = 0

    def put(t: float, k: str, v: Any, who: Any) -> None:
        nonlocal out_open
        if out_open:
            expected.append((t, k, v))
            owners.append(who)
            if k != "N":
                out_open = False

    def maybe_complete(t: float, who: str) -> None:
        if out_open and outer_done and not open_ and n_sub == len(arrived):
            st["completed_by"] = who
            put(t, "C", None, "op")

    if static is not None and not static:
        maybe_complete(t0, "outer")
    for e in lab.ev:
        kind = e[2]
        if kind == "sub":
            name, sid = e[3], e[4]
            if name == "outer":
                continue
            if not out_open:
                st["after_end_subs"] += 1
                continue
            want = arrived[n_sub] if n_sub < len(arrived) else None
            if want != name:
                problems.append(("order", "inner %s#%d subscribed at seq %d; next inner in arrival order: %s" % (name, sid, e[0], want)))
            n_sub += 1
            st["subs"] += 1
            if terminated_not_released:
                st["handle_not_released"] += 1
            open_.add((name, sid))
            st["max_open"] = max(st["max_open"], len(open_))
            if n is not None:
                if len(open_) > n:
                    problems.append(("concurrency", "%d inner subscriptions open at seq %d with max_concurrent=%d: %s"
                                     % (len(open_), e[0], n, sorted(open_))))
                if len(open_) == n:
                    st["limit_reached"] += 1
        elif kind == "emit":
            name, sid, k, v = e[3], e[4], e[5], e[6]
            if not out_open:
                continue
            if name == "outer":
                if k == "N":
                    st["arrivals"] += 1
                    spec = case["inners"][inner_of(case, src_name(v))]
                    if "list" in spec:
                        # iterable mapper result: converted by the library, no probe; its elements are due at this instant
                        st["pseudo_times"].append(e[1])
                        for x in spec["list"]:
                            put(e[1], "N", x, ("list", e[0]))
                    else:
                        arrived.append(spec["name"])
                        if n is not None and len(open_) >= n:
                            st["queued"] += 1
                elif k == "C":
                    outer_done = True
                    maybe_complete(e[1], "outer")
                else:
                    st["error"] += 1
                    put(e[1], "E", v, "outer")
                continue
            if (name, sid) not in open_:
                continue
            if k == "N":
                put(e[1], "N", v, (name, sid))
            elif k == "C":
                open_.discard((name, sid))
                terminated_not_released.add((name, sid))
                maybe_complete(e[1], "inner")
            else:
                open_.discard((name, sid))
                st["error"] += 1
                put(e[1], "E", v, (name, sid))
        elif kind == "unsub":
            key = (e[3], e[4])
            terminated_not_released.discard(key)
            if key in open_:
                open_.discard(key)
                if out_open:
                    problems.append(("dropped", "inner %s#%d was unsubscribed at seq %d before it terminated while the merge was "
                                     "still open" % (key[0], key[1], e[0])))
        elif kind == "action":
            # a terminated inner whose handle is still held at the end of the action is only an observation
            pass
    if out_open and n_sub < len(arrived) and (n is None or len(open_) < n):
        problems.append(("stall", "inner number %d in arrival order (%s) was never subscribed although %s"
                         % (n_sub + 1, arrived[n_sub], "no limit applies" if n is None else
                            "only %d of max_concurrent=%d are open" % (len(open_), n))))
    return expected, owners, problems, st


def describe(case: dict) -> dict:
    d = {"op": case["op"], "params": show(case["P"]), "static": case["static"],
         "outer": show_source(case["outer"]) if case["outer"] else None,
         "inners": [show_source(s) if "list" not in s else {"name": s["name"], "list": show(s["list"]), "as": s["as"]}
                    for s in case["inners"].values()]}
    return d


def run_case(seed: int, idx: int, res: UnitResult) -> None:
    r = case_rng(seed, ID, idx)
    case = gen_case(r, idx)
    lab = new_lab()
    S = {s["name"]: build_source(lab, s) for s in case["inners"].values() if "list" not in s}
    outer_src = None
    if case["outer"] is not None:
        spec = dict(case["outer"])
        if case["op"] in ("merge_all", "merge_max_concurrent"):
            spec["tl"] = [(t, k, S[v] if k == "N" else v) for (t, k, v) in spec["tl"]]   # the outer emits the observables
        outer_src = build_source(lab, spec)
    top = run_pipeline(lab, lambda: build(case, lab, S, outer_src), with_scheduler=case["P"]["scheduler_arg"])
    actual = top.timed()
    expected, owners, problems, st = monitor(case, lab, SUB_AT)
    desc = describe(case)
    res.case(key=desc, nontrivial=st["subs"] >= 2,
             sample={"case": desc, "expected": show_timed(expected), "observed": show_timed(actual), "trace": show_trace(lab, 40)})
    opname = case["op"]
    res.note("ops", opname)
    res.note("forms", "%s:%s" % (opname, case["P"].get("form", "")))
    res.count("inner_subscriptions", st["subs"])
    res.count("queued_arrivals", st["queued"])
    res.count("concurrency_limit_reached", st["limit_reached"])
    res.count("outputs_compared", len(expected))
    if st["completed_by"]:
        res.count("completions_checked")
        res.count("completed_by_%s_last" % st["completed_by"])
    if st["error"]:
        res.count("error_terminations")
    if st["handle_not_released"]:
        res.count("obs:inner_subscribed_before_terminated_inner_handle_released", st["handle_not_released"])
    if st["after_end_subs"]:
        res.count("obs:subscriptions_after_output_ended", st["after_end_subs"])
    if any(s.get("kind") == "sync" for s in case["inners"].values()):
        res.count("cases_with_sync_inner")
    if any(s.get("kind") == "hot" for s in case["inners"].values()):
        res.count("cases_with_hot_inner")
    if not case["P"]["scheduler_arg"]:
        res.count("cases_subscribed_without_scheduler_argument")
    if st["max_open"] >= 2:
        res.count("cases_with_concurrent_inners")

    why = match_exact(expected, actual)
    if why is not None:
        # (a) an iterable mapper result is emitted by a library-internal scheduler action at the arrival instant; if the
        #     output is terminated by another party at that very instant, whether those elements come first is open
        term = actual[-1] if actual and actual[-1][1] in "EC" else None
        if st["pseudo_times"] and term is not None and term[0] in st["pseudo_times"] and term[1] == "E":
            res.count("ties_not_judged")
            why = None
        else:
            why2 = match_same_instant_perm(expected, actual, owners)
            if why2 is None:
                res.count("ties_same_instant_order")
                why = None
    if why is not None:
        problems.append(("output", why))
    if lab.escaped_to_scheduler:
        problems.append(("escaped", "exception escaped to the scheduler: %r" % (lab.escaped_to_scheduler[0],)))
    if lab.events("escaped"):
        res.count("obs:exception_escaped_into_a_source")
    if getattr(lab, "over_budget", False):
        problems.append(("budget", "more than the action budget of scheduler actions"))
    if problems:
        res.violation("C11:%s:%s" % (opname, problems[0][0]),
                      {"problems": [p[1] for p in problems[:4]], "case": desc, "expected": show_timed(expected),
                       "observed": show_timed(actual), "trace": show_trace(lab)}, {"seed": seed, "idx": idx})


REENTRANT_VARIANTS = ["merge", "merge_op", "merge_all", "merge_max_concurrent", "flat_map", "flat_map_indexed", "concat_map"]


def reentrant_terminal_case(seed: int, idx: int, res: UnitResult) -> None:
    """"terminates on the first error" / "completes only after ...", with a subscriber that reacts to the terminal (or to an
    element) by publishing into an inner Subject that is still active - from inside its own callback, on the same thread.
    Whatever the merged output did before, nothing may follow its terminal notification, and elements pushed from inside an
    on_next (while the output is open) must come out, in order."""
    from reactivex.subject import Subject
    from ..vlab import SrcErr
    r = case_rng(seed, ID, "reentrant", idx)
    variant = REENTRANT_VARIANTS[idx % len(REENTRANT_VARIANTS)]
    lab = Lab("num")
    a: Any = Subject()
    b: Any = Subject()
    outer: Any = Subject()
    err = SrcErr("inner a failed")
    fail_via = r.choice(["inner", "inner", "outer"]) if variant not in ("merge", "merge_op") else "inner"
    react_on = r.choice(["E", "E", "N"])
    pre = r.randint(0, 2)
    pushed: list = []

    def on_recv(kind: str, value: Any, obs: Any) -> None:
        if kind == react_on and len(pushed) < 2 and not (kind == "N" and isinstance(value, str)):
            pushed.append("echo%d" % len(pushed))
            b.on_next(pushed[-1])
    top = lab.observer("top", inner=False, on_recv=on_recv)
    if variant == "merge":
        o = rx.merge(a, b)
    elif variant == "merge_op":
        o = a.pipe(ops.merge(b))
    elif variant == "merge_all":
        o = outer.pipe(ops.merge_all())
    elif variant == "merge_max_concurrent":
        o = outer.pipe(ops.merge(max_concurrent=2))
    elif variant == "flat_map":
        o = outer.pipe(ops.flat_map(lambda x: x))
    elif variant == "flat_map_indexed":
        o = outer.pipe(ops.flat_map_indexed(lambda x, i: x))
    else:
        o = outer.pipe(ops.concat_map(lambda x: x))
    lab.at(SUB_AT, lambda: top.subscribe_to(o))
    if variant not in ("merge", "merge_op"):
        lab.at(SUB_AT + 1, lambda: outer.on_next(b if variant == "concat_map" else a))
        if variant != "concat_map":
            lab.at(SUB_AT + 2, lambda: outer.on_next(b))
    live_a = variant != "concat_map"          # concat_map: only b is subscribed (a would be queued), the error comes from the outer
    if variant == "concat_map":
        fail_via = "outer"
    expected: list = []
    t = SUB_AT + 10
    for i in range(pre):
        src, v = (a, i) if (live_a and i % 2 == 0) else (b, 100 + i)
        lab.at(t, lambda src=src, v=v: src.on_next(v))
        expected.append((t, "N", v))
        if react_on == "N" and len([e for e in expected if isinstance(e[2], int)]) <= 2:
            expected.append((t, "N", "echo%d" % (len([e for e in expected if isinstance(e[2], str)]))))
        t += 10
    lab.at(t, (lambda: a.on_error(err)) if fail_via == "inner" else (lambda: outer.on_error(err)))
    expected.append((t, "E", err))
    lab.at(t + 10, lambda: b.on_next("late"))
    lab.run()
    got = top.timed()
    desc = {"family": "reentrant-terminal", "variant": variant, "error_from": fail_via, "subscriber_publishes_into_active_inner_on": react_on,
            "elements_before_error": pre}
    res.case(key=desc, nontrivial=True, sample={"case": desc, "expected": show_timed(expected), "observed": show_timed(got)} if idx % 50 == 0 else None)
    res.count("reentrant_terminal_cases")
    res.count("reentrant_publications", len(pushed))
    why = match_exact(expected, got)
    if why is not None:
        res.violation("C11:%s:reentrant-publication-%s" % (variant, "after-error" if react_on == "E" else "inside-on_next"),
                      {"why": why, "case": desc, "expected": show_timed(expected), "observed": show_timed(got)},
                      {"seed": seed, "idx": idx, "family": "reentrant"})


def run_unit(unit: dict, res: UnitResult) -> None:
    for idx in range(unit["lo"], unit["hi"]):
        run_case(unit["seed"], idx, res)
        if idx % 10 == 0:
            reentrant_terminal_case(unit["seed"], idx // 10, res)


def replay(rep: dict, res: UnitResult) -> None:
    if rep.get("family") == "reentrant":
        reentrant_terminal_case(rep["seed"], rep["idx"], res)
        return
    run_case(rep["seed"], rep["idx"], res)
