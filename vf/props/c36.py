"""C36 Time values convert consistently between representations (exact integer-microsecond oracle)."""
from __future__ import annotations

import os
import time as _time

# Make "local time" differ from UTC *before* reactivex is imported (POSIX TZ string, no tzdata needed):
# an implementation that builds its epoch or its conversions in local time is then observably wrong.
os.environ["TZ"] = "VST-5:30"
if hasattr(_time, "tzset"):
    _time.tzset()

import asyncio  # noqa: E402
import datetime as _dt  # noqa: E402
import importlib  # noqa: E402
import inspect  # noqa: E402
import math  # noqa: E402
import pkgutil  # noqa: E402
from fractions import Fraction  # noqa: E402
from typing import Any  # noqa: E402

import reactivex.scheduler as _rs  # noqa: E402
from reactivex import abc as _abc  # noqa: E402
from reactivex.scheduler.scheduler import Scheduler  # noqa: E402

from ..common import UnitResult, case_rng, chunks  # noqa: E402

ID = "C36"
LEVEL = "exploration"
RULE = ("seeded values k (integer microseconds since the epoch, |k| <= 2**31 s, magnitudes from 1 us to the bound, "
        "whole seconds, sub-second) presented as float seconds, timedelta and aware datetime in 7 time zones; every "
        "representation is converted with to_seconds/to_datetime/to_timedelta (called on 4 scheduler classes) and "
        "compared with exact integer/Fraction arithmetic; plus ordered pairs of unaligned floats (1-ulp neighbours, "
        "half-microsecond ties, second boundaries) for monotonicity; plus `now` of every scheduler class found by "
        "walking reactivex.scheduler.*; non-trivial = every case; distinct = (shape, value(s))")
ASSUMPTIONS = ["datetime / timedelta / Fraction of the standard library are the trusted base",
               "local time zone of the child process is forced to UTC+05:30 so that local-time mistakes are visible",
               "GUI / green-thread scheduler classes are constructed with a stub toolkit object (their `now` does not use it)"]
CASES = {"quick": 20000, "thorough": 2000000}
REQUIRED = {
    "far_datetime_cases": {"quick": 1500, "thorough": 150000},
    "aligned_roundtrips": {"quick": 9000, "thorough": 900000},
    "monotone_pairs": {"quick": 3000, "thorough": 300000},
    "set:zones": 7,
    "set:shapes": 5,
    "set:now_classes": 18,
    "near_bound_values": {"quick": 500, "thorough": 50000},
}

UTC = _dt.timezone.utc
E0 = _dt.datetime(1970, 1, 1, tzinfo=UTC)           # the harness' own epoch
M = 10 ** 6
BOUND = (2 ** 31) * M                                # |k| <= 2**31 s in microseconds
ZONES = {
    "utc": UTC,
    "+05:30": _dt.timezone(_dt.timedelta(hours=5, minutes=30)),
    "-08:00": _dt.timezone(_dt.timedelta(hours=-8)),
    "+14:00": _dt.timezone(_dt.timedelta(hours=14)),
    "-00:01": _dt.timezone(_dt.timedelta(minutes=-1)),
    "+00:00named": _dt.timezone(_dt.timedelta(0), "Z0"),
    "-11:59:59": _dt.timezone(_dt.timedelta(hours=-11, minutes=-59, seconds=-59)),
}
# (the conversions are classmethods every scheduler class inherits; a class that overrides one must keep the contract)
CONV_CLASSES = ["Scheduler", "VirtualTimeScheduler", "HistoricalScheduler", "TestScheduler", "TrampolineScheduler", "CurrentThreadScheduler",
                "ImmediateScheduler", "TimeoutScheduler", "EventLoopScheduler", "NewThreadScheduler", "ThreadPoolScheduler", "CatchScheduler"]


def _conv_class(name: str) -> Any:
    if name == "Scheduler":
        return Scheduler
    if name == "TestScheduler":
        from reactivex.testing import TestScheduler
        return TestScheduler
    return getattr(_rs, name)


def us_of_td(td: _dt.timedelta) -> int:
    return (td.days * 86400 + td.seconds) * M + td.microseconds


def us_of_dt(d: _dt.datetime) -> int:
    return us_of_td(d - E0)


def f_of_us(k: int) -> float:
    """the float nearest to k microseconds expressed in seconds (correctly rounded)"""
    return float(Fraction(k, M))


def is_aware_utc(d: Any) -> bool:
    return isinstance(d, _dt.datetime) and d.tzinfo is not None and d.utcoffset() == _dt.timedelta(0)


def units(tier: str, seed: int) -> list[dict]:
    return [{"lo": lo, "hi": hi, "seed": seed} for lo, hi in chunks(CASES[tier], 16 if tier == "quick" else 48)]


def gen_k(r: Any) -> int:
    c = r.random()
    if c < 0.08:
        return r.choice([0, 1, -1, 999999, 1000000, -1000000, 500000, -500000, BOUND, -BOUND, BOUND - 1, -BOUND + 1,
                         1577836800 * M, 86400 * M, -86400 * M, 1, 2, 3, 10, 100])
    if c < 0.25:
        k = r.randint(-10 ** 7, 10 ** 7)
    elif c < 0.40:
        k = r.randint(-3600, 3600 * 24 * 400) * M                      # whole seconds
    elif c < 0.60:
        k = r.randint(-BOUND, BOUND)
    elif c < 0.80:
        k = r.choice([-1, 1]) * (BOUND - r.randint(0, 10 ** 9))         # close to the bound
    else:
        k = r.choice([-1, 1]) * r.randint(0, 10 ** r.randint(1, 15))
    return max(-BOUND, min(BOUND, k))


def gen_case(r: Any, idx: int) -> dict:
    shape = ["float", "timedelta", "datetime", "pair", "pair_dt"][idx % 5 if idx % 7 else r.randrange(5)]
    cls = CONV_CLASSES[(idx // 5) % len(CONV_CLASSES)]
    if shape in ("float", "timedelta"):
        return {"shape": shape, "cls": cls, "k": gen_k(r), "as_int": shape == "float" and r.random() < 0.15}
    if shape == "datetime":
        return {"shape": shape, "cls": cls, "k": gen_k(r), "zone": r.choice(sorted(ZONES))}
    if shape == "pair_dt":
        k = gen_k(r)
        k2 = min(BOUND, k + r.choice([0, 1, 1, 2, 7, 1000, M, r.randint(0, 10 ** 9)]))
        return {"shape": shape, "cls": cls, "k": k, "k2": k2, "zone": r.choice(sorted(ZONES)), "zone2": r.choice(sorted(ZONES))}
    # unaligned ordered pair of floats
    k = gen_k(r)
    mode = r.choice(["ulp", "ulp", "tie", "tiny", "second", "random"])
    if mode == "tie":
        x = float(Fraction(2 * k + 1, 2 * M))                          # half a microsecond
    elif mode == "second":
        x = float(k // M) + r.choice([0.0, 1e-9, -1e-9, 0.9999995, 0.9999994999])
    elif mode == "random":
        x = r.uniform(-2.0 ** 31, 2.0 ** 31)
    else:
        x = f_of_us(k) + r.choice([0.0, 1e-7, 3e-7, 4.9e-7, 5e-7, 5.1e-7, -2e-7])
    lim = float(2 ** 31)
    x = max(-lim, min(lim, x))
    if mode in ("ulp", "tie", "second"):
        y = x
        for _ in range(r.choice([1, 1, 2, 3])):
            y = math.nextafter(y, math.inf)
    elif mode == "tiny":
        y = x + r.choice([1e-7, 2.5e-7, 5e-7, 1e-6, 1.5e-6])
    else:
        y = x + r.uniform(0, 1e-5)
    y = max(-lim, min(lim, y))
    if y < x:
        x, y = y, x
    return {"shape": "pair", "cls": cls, "x": x, "y": y, "mode": mode}


def check_case(case: dict, res: UnitResult, rep: dict) -> None:
    S = _conv_class(case["cls"])
    shape = case["shape"]
    bad: list = []

    def expect(name: str, ok: bool, **info: Any) -> None:
        if not ok:
            bad.append((name, {k: repr(v) for k, v in info.items()}))

    res.note("shapes", shape)
    res.note("conv_classes", case["cls"])
    if shape in ("float", "timedelta", "datetime"):
        k = case["k"]
        x = f_of_us(k)
        td = _dt.timedelta(microseconds=k)
        dt_utc = E0 + td
        if abs(k) >= BOUND - 10 ** 9:
            res.count("near_bound_values")
        if k % M:
            res.count("subsecond_values")
        if k < 0:
            res.count("negative_values")
        if shape == "float":
            arg: Any = x
            if case["as_int"] and k % M == 0:
                arg = k // M
                res.count("int_arguments")
            d = S.to_datetime(arg)
            expect("to_datetime(float):aware-utc", is_aware_utc(d), arg=arg, got=d)
            if isinstance(d, _dt.datetime) and d.tzinfo is not None:
                expect("to_datetime(float):value", us_of_dt(d) == k, arg=arg, got=d, expected=dt_utc)
                back = S.to_seconds(d)
                expect("to_seconds(to_datetime(x))==x", back == x, x=arg, got=back)
                t2 = S.to_timedelta(d)
                expect("to_timedelta(to_datetime(x))", isinstance(t2, _dt.timedelta) and us_of_td(t2) == k, x=arg, got=t2, expected=td)
            t = S.to_timedelta(arg)
            expect("to_timedelta(float):value", isinstance(t, _dt.timedelta) and us_of_td(t) == k, arg=arg, got=t, expected=td)
            if isinstance(t, _dt.timedelta):
                back = S.to_seconds(t)
                expect("to_seconds(to_timedelta(x))==x", back == x, x=arg, got=back)
                d2 = S.to_datetime(t)
                expect("to_datetime(to_timedelta(x))", is_aware_utc(d2) and us_of_dt(d2) == k, x=arg, got=d2, expected=dt_utc)
            same = S.to_seconds(arg)
            expect("to_seconds(float) unchanged", same == x, arg=arg, got=same)
        elif shape == "timedelta":
            s = S.to_seconds(td)
            expect("to_seconds(timedelta):value", isinstance(s, float) and s == x, arg=td, got=s, expected=x)
            if isinstance(s, (int, float)):
                t = S.to_timedelta(s)
                expect("to_timedelta(to_seconds(td))==td", t == td, td=td, got=t)
            d = S.to_datetime(td)
            expect("to_datetime(timedelta):aware-utc", is_aware_utc(d), arg=td, got=d)
            if isinstance(d, _dt.datetime) and d.tzinfo is not None:
                expect("to_datetime(timedelta):value", us_of_dt(d) == k, arg=td, got=d, expected=dt_utc)
                t = S.to_timedelta(d)
                expect("to_timedelta(to_datetime(td))==td", t == td, td=td, got=t)
                s2 = S.to_seconds(d)
                expect("to_seconds(to_datetime(td))", s2 == x, td=td, got=s2, expected=x)
            t = S.to_timedelta(td)
            expect("to_timedelta(timedelta) unchanged", t == td, arg=td, got=t)
        else:
            zone = ZONES[case["zone"]]
            res.note("zones", case["zone"])
            d_in = dt_utc.astimezone(zone)
            s = S.to_seconds(d_in)
            expect("to_seconds(datetime):value", isinstance(s, float) and s == x, arg=d_in, got=s, expected=x)
            if isinstance(s, (int, float)):
                d = S.to_datetime(s)
                expect("to_datetime(to_seconds(d))==d", is_aware_utc(d) and d == d_in, d=d_in, got=d)
            t = S.to_timedelta(d_in)
            expect("to_timedelta(datetime):value", isinstance(t, _dt.timedelta) and us_of_td(t) == k, arg=d_in, got=t, expected=td)
            if isinstance(t, _dt.timedelta):
                d = S.to_datetime(t)
                expect("to_datetime(to_timedelta(d))==d", is_aware_utc(d) and d == d_in, d=d_in, got=d)
            d = S.to_datetime(d_in)
            expect("to_datetime(datetime) same instant, aware", isinstance(d, _dt.datetime) and d.tzinfo is not None and d == d_in, arg=d_in, got=d)
        res.count("aligned_roundtrips")
        key: Any = (shape, k, case.get("zone"), case["cls"])
    elif shape == "pair":
        x, y = case["x"], case["y"]
        dx, dy = S.to_datetime(x), S.to_datetime(y)
        expect("to_datetime monotone", dx <= dy, x=x, y=y, fx=dx, fy=dy)
        expect("to_datetime aware-utc", is_aware_utc(dx) and is_aware_utc(dy), x=x, fx=dx, fy=dy)
        tx, ty = S.to_timedelta(x), S.to_timedelta(y)
        expect("to_timedelta monotone", tx <= ty, x=x, y=y, fx=tx, fy=ty)
        sx, sy = S.to_seconds(x), S.to_seconds(y)
        expect("to_seconds monotone", sx <= sy, x=x, y=y, fx=sx, fy=sy)
        # compositions are monotone too
        expect("to_seconds.to_datetime monotone", S.to_seconds(dx) <= S.to_seconds(dy), x=x, y=y)
        expect("to_seconds.to_timedelta monotone", S.to_seconds(tx) <= S.to_seconds(ty), x=x, y=y)
        if dx == dy:
            res.count("pairs_collapsing_to_one_microsecond")
        else:
            res.count("pairs_straddling_a_rounding_boundary")
        res.count("monotone_pairs")
        key = (shape, repr(x), repr(y), case["cls"])
    else:
        k, k2 = case["k"], case["k2"]
        res.note("zones", case["zone"])
        res.note("zones", case["zone2"])
        d1 = (E0 + _dt.timedelta(microseconds=k)).astimezone(ZONES[case["zone"]])
        d2 = (E0 + _dt.timedelta(microseconds=k2)).astimezone(ZONES[case["zone2"]])
        s1, s2 = S.to_seconds(d1), S.to_seconds(d2)
        expect("to_seconds(datetime) monotone", s1 <= s2 and (k == k2) == (s1 == s2), d1=d1, d2=d2, s1=s1, s2=s2)
        t1, t2 = S.to_timedelta(d1), S.to_timedelta(d2)
        expect("to_timedelta(datetime) monotone", t1 <= t2 and (k == k2) == (t1 == t2), d1=d1, d2=d2, t1=t1, t2=t2)
        a1, a2 = _dt.timedelta(microseconds=k), _dt.timedelta(microseconds=k2)
        expect("to_seconds(timedelta) monotone", S.to_seconds(a1) <= S.to_seconds(a2), a1=a1, a2=a2)
        expect("to_datetime(timedelta) monotone", S.to_datetime(a1) <= S.to_datetime(a2), a1=a1, a2=a2)
        res.count("monotone_pairs")
        key = (shape, k, k2, case["zone"], case["zone2"], case["cls"])
    sample = None
    if res.evaluations < 3:
        sample = {"case": {k: (repr(v) if isinstance(v, float) else v) for k, v in case.items()}, "failed": [b[0] for b in bad]}
    res.case(key=key, nontrivial=True, sample=sample)
    for name, info in bad:
        res.violation("C36:%s" % name.split("(")[0].split(" ")[0].split(".")[0].split("=")[0],
                      {"check": name, "case": {k: repr(v) for k, v in case.items()}, "observed": info}, rep)


# ------------------------------------------------------------------------------------------- now

class _Stub:
    """stands in for a GUI / green-thread toolkit module; `now` never touches it"""

    class Timer:
        def __init__(self, *a: Any, **kw: Any) -> None:
            pass

    def __getattr__(self, name: str) -> Any:
        return _Stub()

    def __call__(self, *a: Any, **kw: Any) -> Any:
        return _Stub()


def scheduler_classes() -> dict:
    out: dict = {}
    mods = [_rs]
    for pkg in (_rs,):
        for m in pkgutil.walk_packages(pkg.__path__, pkg.__name__ + "."):
            try:
                mods.append(importlib.import_module(m.name))
            except Exception:       # optional back end not importable
                continue
    import reactivex.testing as _rt
    mods.append(_rt)
    for mod in mods:
        for name, obj in vars(mod).items():
            if inspect.isclass(obj) and issubclass(obj, _abc.SchedulerBase) and obj.__module__.startswith("reactivex.") \
                    and not inspect.isabstract(obj):
                out[obj.__module__.split("reactivex.")[-1] + ":" + obj.__name__] = obj
    return out


def construct(name: str, cls: Any) -> tuple[Any, Any]:
    """-> (instance, cleanup)"""
    short = cls.__name__
    if short == "CatchScheduler":
        return cls(_rs.ImmediateScheduler(), lambda e: True), None
    if short in ("AsyncIOScheduler", "AsyncIOThreadSafeScheduler"):
        loop = asyncio.new_event_loop()
        return cls(loop), loop.close
    if short == "ThreadPoolScheduler":
        s = cls(1)
        return s, (lambda: s.executor.shutdown(wait=False))
    try:
        return cls(), None
    except TypeError:
        return cls(_Stub()), None


def check_now(res: UnitResult, rep: dict) -> None:
    for name, cls in sorted(scheduler_classes().items()):
        try:
            s, cleanup = construct(name, cls)
        except Exception as e:
            res.note("now_not_constructible", "%s (%s)" % (name, type(e).__name__))
            continue
        try:
            try:
                n: Any = s.now
            except Exception as e:      # noqa: BLE001
                n = "raised %r" % (e,)
            res.note("now_classes", name)
            res.count("now_reads")
            if not is_aware_utc(n):
                res.violation("C36:now:%s" % cls.__name__, {"class": name, "now": repr(n), "expected": "timezone-aware datetime with utcoffset 0"}, rep)
        finally:
            if cleanup is not None:
                cleanup()
    res.case(key=("now", "classes"), nontrivial=True)


def check_virtual_now(r: Any, res: UnitResult, rep: dict) -> None:
    """now of the virtual-time family follows the clock and is aware UTC for every kind of clock value."""
    from reactivex.testing import TestScheduler
    k = gen_k(r)
    x = f_of_us(k)
    want = E0 + _dt.timedelta(microseconds=k)
    made = [("VirtualTimeScheduler(float)", _rs.VirtualTimeScheduler(x)),
            ("HistoricalScheduler(datetime)", _rs.HistoricalScheduler(want)),
            ("VirtualTimeScheduler(datetime)", _rs.VirtualTimeScheduler(want))]
    if 0 <= k <= BOUND - 10 * M:
        t = TestScheduler()
        t.advance_to(x)
        made.append(("TestScheduler.advance_to", t))
        h = _rs.HistoricalScheduler()
        h.sleep(_dt.timedelta(microseconds=k))
        made.append(("HistoricalScheduler.sleep", h))
    for name, s in made:
        n = s.now
        res.count("virtual_now_reads")
        if not is_aware_utc(n) or us_of_dt(n) != k:
            res.violation("C36:now:virtual", {"how": name, "clock_us": k, "now": repr(n), "expected": repr(want)}, rep)
    # a clock handed over in another time zone: now must be aware and denote the SAME INSTANT as the clock (which zone it is
    # labelled with is only counted: the unchanged library keeps the clock's own zone)
    if abs(k) <= BOUND - 2 * 86400 * M:
        for hours in (5.5, -8.0):
            tz = _dt.timezone(_dt.timedelta(hours=hours))
            local = want.astimezone(tz)
            for name, s in (("HistoricalScheduler(datetime%+g)" % hours, _rs.HistoricalScheduler(local)),
                            ("VirtualTimeScheduler(datetime%+g)" % hours, _rs.VirtualTimeScheduler(local))):
                n = s.now
                res.count("virtual_now_reads_zoned_clock")
                ok = isinstance(n, _dt.datetime) and n.tzinfo is not None and n.utcoffset() is not None and us_of_dt(n) == k
                if ok and not is_aware_utc(n):
                    res.count("observation:now_labelled_with_the_clocks_zone")
                if ok:
                    # ... and stays consistent with the conversions: seconds of now == seconds of the clock
                    ok = abs(s.to_seconds(n) - s.to_seconds(s.clock)) < 1e-6 and s.to_datetime(s.to_timedelta(n)) == local
                if not ok:
                    res.violation("C36:now:virtual:zoned-clock", {"how": name, "clock": repr(local), "now": repr(n)}, rep)
    res.case(key=("vnow", k), nontrivial=True)


def run_case(seed: int, idx: int, res: UnitResult) -> None:
    r = case_rng(seed, ID, idx)
    rep = {"seed": seed, "idx": idx}
    case: Any = "virtual now"
    try:
        if idx % 50 == 49:
            check_virtual_now(r, res, rep)
            return
        case = gen_case(r, idx)
        check_case(case, res, rep)
    except Exception as e:      # noqa: BLE001 - a conversion that raises inside the domain is a finding
        import traceback
        res.case(key=("exc", idx), nontrivial=True)
        res.violation("C36:exception", {"why": "conversion raised %r" % (e,), "case": repr(case),
                                        "trace": traceback.format_exc()[-900:]}, rep)



# ------------------------------------------------------------------ datetime <-> timedelta over the whole datetime range
# These two representations are both integer microseconds, so their conversion is exact for EVERY representable aware
# datetime (year 1 .. 9999), not only inside the float-safe +-2**31 s band used above.

def far_datetime_case(seed: int, idx: int, res: UnitResult) -> None:
    r = case_rng(seed, ID, "far", idx)
    cls = _conv_class(r.choice(CONV_CLASSES))
    lo = _dt.datetime(1, 1, 2, tzinfo=UTC)
    hi = _dt.datetime(9999, 12, 30, tzinfo=UTC)
    span_us = us_of_td(hi - lo)
    pick = r.random()
    if pick < 0.15:
        k = r.choice([0, 1, span_us - 1, span_us])
    elif pick < 0.5:
        k = r.randrange(span_us)
    else:
        # far from the epoch (beyond 2**53 us a float can no longer hold whole microseconds) with a non-zero microsecond part
        k = r.choice([r.randrange(0, span_us // 8), r.randrange(span_us - span_us // 4, span_us)]) | 1
    d = lo + _dt.timedelta(microseconds=k)
    tz = r.choice([UTC, _dt.timezone(_dt.timedelta(hours=5, minutes=30)), _dt.timezone(_dt.timedelta(hours=-8))])
    d_in = d.astimezone(tz) if _dt.datetime(2, 1, 1, tzinfo=UTC) < d < _dt.datetime(9999, 1, 1, tzinfo=UTC) else d
    case = {"class": cls.__name__, "datetime": d_in.isoformat()}
    res.count("far_datetime_cases")
    problem = None
    try:
        td = cls.to_timedelta(d_in)
        exact = d - E0
        if td != exact:
            problem = ("C36:to_timedelta:datetime:inexact-far-from-epoch", {"got_us": us_of_td(td), "expected_us": us_of_td(exact)})
        else:
            back = cls.to_datetime(td)
            if back != d or not is_aware_utc(back):
                problem = ("C36:roundtrip:datetime-timedelta-datetime:far-from-epoch", {"back": str(back)})
            else:
                d2 = d + _dt.timedelta(microseconds=1)
                if not cls.to_timedelta(d2) > td:
                    problem = ("C36:order:to_timedelta:datetime:far-from-epoch", {"next": d2.isoformat()})
        if problem is None and cls.to_datetime(d_in) != d:
            problem = ("C36:to_datetime:datetime-identity", {"got": str(cls.to_datetime(d_in))})
    except Exception as e:  # noqa: BLE001
        problem = ("C36:conversion-raised:far-from-epoch", {"exc": repr(e)})
    res.case(key=case, nontrivial=True, sample=case if idx % 500 == 0 else None)
    if problem:
        problem[1]["case"] = case
        res.violation(problem[0], problem[1], {"seed": seed, "idx": idx, "family": "far"})

def run_unit(unit: dict, res: UnitResult) -> None:
    if _time.localtime(0).tm_hour == 0 and _time.localtime(0).tm_min == 0:
        res.inconclusive.append("self-check: local time zone equals UTC; local-time mistakes would be invisible")
    check_now(res, {"seed": unit["seed"], "idx": -1})
    for idx in range(unit["lo"], unit["hi"]):
        run_case(unit["seed"], idx, res)
        if idx % 10 == 0:
            far_datetime_case(unit["seed"], idx, res)


def replay(rep: dict, res: UnitResult) -> None:
    if rep.get("family") == "far":
        far_datetime_case(rep["seed"], rep["idx"], res)
        return
    if rep["idx"] < 0:
        check_now(res, {"seed": rep["seed"], "idx": -1})
    else:
        run_case(rep["seed"], rep["idx"], res)
