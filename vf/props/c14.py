"""C14 Early termination cancels synchronous infinite sources.

Monitors (both logical, no wall clock in the verdict):
  * pull counter  - every element the never-ending source produces is counted at the source (in the iterator
                    behind from_iterable, in generate's condition function, in a map/do_action tap placed directly
                    after range / repeat_value / repeat); producing more than needed + 2000 elements raises the
                    harness exception BudgetExceeded(BaseException) out of the producer;
  * step counter  - sys.monitoring (PEP 669) PY_START + JUMP events (function entries and loop back-edges) counted
                    from subscribe() entry to its return; exceeding the step budget raises BudgetExceeded from the
                    monitoring callback into the running code (see StepMonitor for why not LINE events).
Everything runs on the real CurrentThreadScheduler / ImmediateScheduler in the worker's main thread.
"""
from __future__ import annotations

import itertools
import sys
from typing import Any, Callable, Iterator

import reactivex as rx
from reactivex import operators as ops
from reactivex.scheduler import CurrentThreadScheduler, ImmediateScheduler
from reactivex.subject import BehaviorSubject, Subject

from ..common import UnitResult, case_rng, chunks, show, strict

ID = "C14"
LEVEL = "exploration"

SLACK = 2000               # pulls tolerated beyond what list semantics needs (DESIGN.md C14)
STEP_BUDGET = 1_200_000    # steps per subscribe(); measured maxima: 51 000 when subscribe() returned, 551 000 for needed + SLACK pulls
MODEL_CAP = 400            # the list model may look at this many source elements before a draw is rejected
MAX_NEEDED = 64
RECURSION_LIMIT = 1000     # Python's default, in force while subscribe() runs (the worker itself raises it to 3000)

SOURCES = ["from_iterable_count", "from_iterable_cycle", "range", "repeat_value", "generate", "repeat"]
FAMILY = {"from_iterable_count": "from_iterable", "from_iterable_cycle": "from_iterable", "range": "range",
          "repeat_value": "repeat_value", "generate": "generate", "repeat": "repeat"}
HAS_FACTORY_SCHEDULER = {"from_iterable_count", "from_iterable_cycle", "range", "repeat"}
SCHED_KINDS = ["singleton", "fresh-currentthread", "immediate"]
SCHED_CONFIGS = ["default"] + ["%s=%s" % (w, k) for w in ("factory", "subscribe") for k in SCHED_KINDS]
TERMINATORS = ["take", "first", "first_pred", "first_or_default", "take_while", "take_while_indexed", "element_at",
               "element_at_or_default", "find", "find_index", "some", "some_pred", "contains", "all", "is_empty",
               "single", "take_until_subject"]
CARRIERS = ["none", "elementwise", "merge_never", "merge_op_never", "flat_map", "concat_prefix", "switch_map",
            "share", "amb_left", "amb_right", "with_latest_from_subject", "with_latest_from_of",
            "combine_latest_last"]
PAIRS = [(s, c) for s in SOURCES for c in SCHED_CONFIGS if not c.startswith("factory=") or s in HAS_FACTORY_SCHEDULER]
SHAPES = [(s, c, k, t) for (s, c) in PAIRS for k in CARRIERS for t in TERMINATORS]

# configurations in which every producer runs on the trampoline that Observable.subscribe set up
TRAMPOLINE_CONFIGS = ("default", "factory=singleton", "subscribe=singleton")
N_TRAMPOLINE_SHAPES = sum(1 for sh in SHAPES if sh[1] in TRAMPOLINE_CONFIGS)
CASES = {"quick": 720, "thorough": len(SHAPES) + 2 * N_TRAMPOLINE_SHAPES}
REQUIRED = {
    "set:sources": len(SOURCES), "set:terminators": len(TERMINATORS), "set:carriers": len(CARRIERS),
    "set:sched_configs": len(SCHED_CONFIGS), "set:source_x_sched_config": len(PAIRS),
    "cancelled_within_budget": {"quick": 250, "thorough": 9000}, "second_subscriptions_checked": {"quick": 25, "thorough": 1000},
    "cancelled_on_trampoline_of_subscribe": {"quick": 180, "thorough": 9000},
    "selfcheck_pull_monitor_fired": 1, "selfcheck_step_monitor_fired": 1, "selfcheck_passing_run_counted": 1,
}
UNIT_TIMEOUT = {"quick": 300, "thorough": 1800}

RULE = ("cases = (source, scheduler configuration, carrier, terminator) shapes from the cartesian product "
        "{from_iterable(count), from_iterable(cycle), range(0,10**12), repeat_value, generate, repeat()} x "
        "{default, factory=/subscribe= x singleton / fresh CurrentThreadScheduler() / ImmediateScheduler()} x "
        "%d carriers x %d terminators (%d shapes; quick = seeded sample of 720, thorough = every shape once plus two more parameter draws of every shape whose scheduler is default / the CurrentThreadScheduler singleton), parameters "
        "(start/step/cycle list, element-wise chain, counts, target value of the predicate) drawn from "
        "case_rng(seed, id, idx) and rejected until the LIST model terminates after <= %d source elements. Verdict per "
        "case: subscribe() must return, before the source produced more than needed + %d elements and before %d steps "
        "(PY_START + JUMP monitoring events), with exactly the elements list semantics gives, and nothing may be produced after it returned. "
        "non-trivial = the model needs >= 1 source element; distinct = digest of (shape, parameters). "
        "Violations are keyed by mechanism: 'C14:inline-producer:<source family>:<scheduler config>' when the elements "
        "were being produced while an Observable.subscribe() was still setting up its subscription (the scheduler ran "
        "the producer inline, so the disposable that could stop it did not exist yet), otherwise "
        "'C14:<not-cancelled|no-return|raised|output|late-production>:<family>:<config>:<carrier>:<terminator>'. "
        "EXCLUDED because they cannot terminate by their own semantics under a FIFO trampoline (they are executed "
        "once per run and only counted as observations): combine_latest(infinite, x) and zip(infinite, x) with the "
        "infinite source first, take_until(of(1)) (trigger queued behind the producer), and flat_map(lambda v: of(v)) "
        "over a from_iterable loop (every inner emission is queued behind the never-returning loop action; the "
        "flat_map carrier therefore uses inner sources that emit during subscription when the source is from_iterable "
        "and of(v) for the per-element rescheduling sources range/generate/repeat_value/repeat). "
        "take_until_with_time and the other timed terminators need time and are not part of this property."
        % (len(CARRIERS), len(TERMINATORS), len(SHAPES), MAX_NEEDED, SLACK, STEP_BUDGET))
ASSUMPTIONS = [
    "sys.monitoring (PEP 669) delivers a PY_START event for every Python function entry and a JUMP event for every loop "
    "back-edge, and propagates an exception raised by the callback into the monitored code (self-checked in every unit "
    "with a call-free spinning loop)",
    "a run in which the producer is stopped by a RecursionError that the library swallows (range/generate/repeat under "
    "ImmediateScheduler recurse once per element) and subscribe() nevertheless returns within the pull budget with the "
    "right elements is counted as an observation (stopped_only_by_recursion_limit), not as a violation: DESIGN.md fixes "
    "the slack at 2000 elements for this reason; subscribe() runs under Python's default recursion limit (1000); when "
    "the RecursionError escapes from subscribe() or reaches the observer it IS a violation",
    "mechanism classification (not the verdict) looks for a `set_disposable` frame of reactivex/observable/observable.py "
    "on the Python stack at pulls 1, 2, 4, 8, ... and at the pull that trips the budget",
    "the harness iterators, counters and the Subject used by take_until are harness code",
]


class BudgetExceeded(BaseException):
    def __init__(self, kind: str, at: int) -> None:
        super().__init__(kind, at)
        self.kind = kind
        self.at = at


class _ModelStarved(Exception):
    pass


# --------------------------------------------------------------------------------------------------------------------
# monitors

def producer_inline() -> bool:
    """True when an element is being produced while some Observable.subscribe() is still setting up its subscription
    (a `set_disposable` frame of reactivex/observable/observable.py is on the stack): whatever that subscribe() will
    return does not exist yet, so no downstream dispose can reach the producer.  With the trampoline that
    Observable.subscribe sets up, producers only ever run from the trampoline's drain loop, after set-up returned."""
    f = sys._getframe(1)
    while f is not None:
        co = f.f_code
        if co.co_name == "set_disposable" and co.co_filename.endswith("/observable/observable.py"):
            return True
        f = f.f_back
    return False


class Pulls:
    def __init__(self, family: str) -> None:
        self.family = family
        self.n = 0
        self.budget = 10 ** 9
        self.inline_first: Any = None
        self.inline_last: Any = None     # sampled at pulls 1, 2, 4, 8, ... and when the budget trips
        self.trips = 0

    def tick(self) -> None:
        self.n += 1
        n = self.n
        if n & (n - 1) == 0:
            self.inline_last = producer_inline()
            if n == 1:
                self.inline_first = self.inline_last
        if n > self.budget:
            self.trips += 1
            self.inline_last = producer_inline()
            raise BudgetExceeded("pulls", n)


class CountingIterable:
    """Iterable whose iterators count every element handed out (the iterator 'behind' from_iterable)."""

    def __init__(self, make: Callable[[], Iterator[Any]], pulls: Pulls) -> None:
        self.make = make
        self.pulls = pulls

    def __iter__(self) -> "_CountingIterator":
        return _CountingIterator(self.make(), self.pulls)


class _CountingIterator:
    __slots__ = ("it", "pulls")

    def __init__(self, it: Iterator[Any], pulls: Pulls) -> None:
        self.it = it
        self.pulls = pulls

    def __iter__(self) -> "_CountingIterator":
        return self

    def __next__(self) -> Any:
        v = next(self.it)
        self.pulls.tick()
        return v


class StepMonitor:
    """Step counter with a logical budget: PY_START (every Python function entry) + JUMP (every loop back-edge) events.

    The budget exception is injected at a FUNCTION ENTRY (PY_START), which behaves like the call itself raising and is
    therefore always inside the exception-table range of an enclosing `with`/`try`.  LINE and JUMP events are unsafe
    injection points: a LINE event fires on the `with` line when the block is left normally (after the protected range,
    before `__exit__`), and the JUMP_BACKWARD of a loop that ends a with-body lies outside the protected range as well
    (both observed here: an exception injected there leaked Trampoline._lock and `Trampoline.run`'s
    `finally: with self._lock` dead-locked).  JUMP events are only counted; the exception is injected at a loop
    back-edge only when CALLFREE further events passed without any function entry (a call-free spinning loop).
    One instance per process."""

    _instance: Any = None
    GRACE = 20_000      # events granted to the unwinding code (finally blocks of the trampoline) before raising again
    CALLFREE = 50_000   # events after the budget without a function entry before a loop back-edge is used instead

    @classmethod
    def get(cls) -> "StepMonitor":
        if cls._instance is None:
            cls._instance = StepMonitor()
        return cls._instance

    def __init__(self) -> None:
        self.mon = sys.monitoring
        self.tool = self.mon.PROFILER_ID
        if self.mon.get_tool(self.tool) is None:
            self.mon.use_tool_id(self.tool, "vf-c14-steps")
        ev = self.mon.events
        self.events = ev.PY_START | ev.JUMP | ev.RAISE
        self.n = 0
        self.limit = 10 ** 12
        self.trips = 0
        self.trip_log: list = []
        self.recursion_errors = 0
        self.mon.register_callback(self.tool, ev.PY_START, self._start)
        self.mon.register_callback(self.tool, ev.JUMP, self._jump)
        self.mon.register_callback(self.tool, ev.RAISE, self._raise)

    def _start(self, code: Any, offset: int) -> None:
        self.n += 1
        if self.n > self.limit and code.co_name not in ("__exit__", "__enter__", "__del__"):
            self.limit = self.n + self.GRACE
            self.trips += 1
            self.trip_log.append("entry of %s (%s)" % (code.co_qualname, code.co_filename.rsplit("/", 1)[-1]))
            raise BudgetExceeded("steps", self.n)

    def _jump(self, code: Any, offset: int, dest: int) -> None:
        self.n += 1
        if self.n > self.limit + self.CALLFREE:
            self.limit = self.n + self.GRACE
            self.trips += 1
            self.trip_log.append("loop in %s (%s) at offset %d" % (code.co_qualname, code.co_filename.rsplit("/", 1)[-1], offset))
            raise BudgetExceeded("steps", self.n)

    def _raise(self, code: Any, offset: int, exc: BaseException) -> None:
        if isinstance(exc, RecursionError):
            self.recursion_errors += 1

    def start(self, budget: int) -> None:
        self.n = 0
        self.limit = budget
        self.trips = 0
        self.trip_log = []
        self.recursion_errors = 0
        self.mon.set_events(self.tool, self.events)

    def stop(self) -> int:
        self.mon.set_events(self.tool, 0)
        return self.n


def trampoline_idle() -> bool:
    return CurrentThreadScheduler.singleton().schedule_required()


def repair_trampoline() -> None:
    from reactivex.scheduler.currentthreadscheduler import CurrentThreadSchedulerSingleton
    from reactivex.scheduler.trampoline import Trampoline
    CurrentThreadSchedulerSingleton._local.tramp = Trampoline()


# --------------------------------------------------------------------------------------------------------------------
# sources: observable + list model

def gen_source_params(r: Any, source: str) -> dict:
    if source == "from_iterable_count":
        return {"start": r.choice([0, 0, 1, -3, 10]), "step": r.choice([1, 1, 2, 3, -1])}
    if source == "from_iterable_cycle":
        return {"items": [r.choice([0, 1, 2, 3, 5, 8, -1]) for _ in range(r.randint(1, 5))]}
    if source == "range":
        return {"start": r.choice([0, 0, 1, 7]), "step": r.choice([None, None, 1, 2, 5])}
    if source == "repeat_value":
        return {"value": r.choice([0, 1, 7, -2])}
    if source == "generate":
        return {"start": r.choice([0, 0, 1, 5]), "step": r.choice([1, 1, 2, -1])}
    if source == "repeat":
        return {"items": [r.choice([0, 1, 2, 3, 4, 9]) for _ in range(r.randint(1, 4))]}
    raise KeyError(source)


def source_model(source: str, P: dict) -> Iterator[Any]:
    if source == "from_iterable_count":
        return itertools.count(P["start"], P["step"])
    if source in ("from_iterable_cycle", "repeat"):
        return itertools.cycle(P["items"])
    if source == "range":
        return itertools.count(P["start"], P["step"] or 1)
    if source == "repeat_value":
        return itertools.repeat(P["value"])
    if source == "generate":
        return itertools.count(P["start"], P["step"])
    raise KeyError(source)


def make_scheduler(kind: str) -> Any:
    if kind == "singleton":
        return CurrentThreadScheduler.singleton()
    if kind == "fresh-currentthread":
        return CurrentThreadScheduler()
    if kind == "immediate":
        return ImmediateScheduler()
    raise KeyError(kind)


def build_source(source: str, P: dict, pulls: Pulls, fsched: Any, tap_kind: str) -> Any:
    kw = {} if fsched is None else {"scheduler": fsched}

    def tapped(o: Any) -> Any:
        if tap_kind == "map":
            def through(v: Any) -> Any:
                pulls.tick()
                return v
            return o.pipe(ops.map(through))
        return o.pipe(ops.do_action(lambda v: pulls.tick()))

    if source == "from_iterable_count":
        return rx.from_iterable(CountingIterable(lambda: itertools.count(P["start"], P["step"]), pulls), **kw)
    if source == "from_iterable_cycle":
        return rx.from_iterable(CountingIterable(lambda: itertools.cycle(P["items"]), pulls), **kw)
    if source == "range":
        return tapped(rx.range(P["start"], 10 ** 12, P["step"], **kw))
    if source == "repeat_value":
        return tapped(rx.repeat_value(P["value"]))
    if source == "generate":
        step = P["step"]

        def condition(s: Any) -> bool:
            pulls.tick()          # one call per element about to be produced
            return True
        return rx.generate(P["start"], condition, lambda s: s + step)
    if source == "repeat":
        inner = rx.of(*P["items"]) if fsched is None else rx.from_iterable(list(P["items"]), **kw)
        return tapped(inner.pipe(ops.repeat()))
    raise KeyError(source)


# --------------------------------------------------------------------------------------------------------------------
# carriers

EW_OPS = ["map_affine", "map_mod", "map_neg", "filter_indexed", "filter_value", "skip", "scan_add", "do_action",
          "distinct_until_changed", "start_with", "pairwise"]


def gen_elementwise(r: Any) -> list:
    chain = []
    for _ in range(r.randint(1, 3)):
        op = r.choice(EW_OPS[:-1])
        if op == "map_affine":
            chain.append([op, r.choice([2, 3, -1]), r.choice([0, 1, -4])])
        elif op == "map_mod":
            chain.append([op, r.choice([2, 3, 5, 7])])
        elif op in ("filter_indexed", "filter_value"):
            m = r.choice([2, 3, 4])
            chain.append([op, m, r.randrange(m)])
        elif op == "skip":
            chain.append([op, r.randint(0, 6)])
        elif op == "start_with":
            chain.append([op, r.choice([0, -7, 100])])
        else:
            chain.append([op])
    if r.random() < 0.2:
        chain.append(["pairwise"])
    return chain


def ew_build(chain: list) -> list:
    res = []
    for c in chain:
        op = c[0]
        if op == "map_affine":
            res.append(ops.map(lambda v, a=c[1], b=c[2]: v * a + b))
        elif op == "map_mod":
            res.append(ops.map(lambda v, m=c[1]: v % m))
        elif op == "map_neg":
            res.append(ops.map(lambda v: -v))
        elif op == "filter_indexed":
            res.append(ops.filter_indexed(lambda v, i, m=c[1], q=c[2]: i % m != q))
        elif op == "filter_value":
            res.append(ops.filter(lambda v, m=c[1], q=c[2]: v % m != q))
        elif op == "skip":
            res.append(ops.skip(c[1]))
        elif op == "scan_add":
            res.append(ops.scan(lambda a, v: a + v))
        elif op == "do_action":
            res.append(ops.do_action(lambda v: None))
        elif op == "distinct_until_changed":
            res.append(ops.distinct_until_changed())
        elif op == "start_with":
            res.append(ops.start_with(c[1]))
        elif op == "pairwise":
            res.append(ops.pairwise())
        else:
            raise KeyError(op)
    return res


def _pairs(it: Iterator[Any]) -> Iterator[Any]:
    prev = next(it)
    for v in it:
        yield (prev, v)
        prev = v


def _duc(it: Iterator[Any]) -> Iterator[Any]:
    have = False
    cur = None
    for v in it:
        if not have or v != cur:
            have, cur = True, v
            yield v


def _affine(it: Iterator[Any], a: int, b: int) -> Iterator[Any]:
    for v in it:
        yield v * a + b


def _mod(it: Iterator[Any], m: int) -> Iterator[Any]:
    for v in it:
        yield v % m


def _filter_ix(it: Iterator[Any], m: int, q: int) -> Iterator[Any]:
    for i, v in enumerate(it):
        if i % m != q:
            yield v


def _filter_val(it: Iterator[Any], m: int, q: int) -> Iterator[Any]:
    for v in it:
        if v % m != q:
            yield v


def ew_model(chain: list, it: Iterator[Any]) -> Iterator[Any]:
    for c in chain:
        op = c[0]
        if op == "map_affine":
            it = _affine(it, c[1], c[2])
        elif op == "map_mod":
            it = _mod(it, c[1])
        elif op == "map_neg":
            it = (-v for v in it)
        elif op == "filter_indexed":
            it = _filter_ix(it, c[1], c[2])
        elif op == "filter_value":
            it = _filter_val(it, c[1], c[2])
        elif op == "skip":
            it = itertools.islice(it, c[1], None)
        elif op == "scan_add":
            it = itertools.accumulate(it)
        elif op == "do_action":
            pass
        elif op == "distinct_until_changed":
            it = _duc(it)
        elif op == "start_with":
            it = itertools.chain([c[1]], it)
        elif op == "pairwise":
            it = _pairs(it)
        else:
            raise KeyError(op)
    return it


def gen_carrier_params(r: Any, carrier: str) -> dict:
    if carrier == "elementwise":
        return {"chain": gen_elementwise(r)}
    if carrier == "concat_prefix":
        return {"prefix": [r.choice([0, -5, 50]) for _ in range(r.randint(0, 2))]}
    if carrier in ("with_latest_from_subject", "with_latest_from_of"):
        return {"latest": r.choice([0, "s", None, 4])}
    if carrier == "combine_latest_last":
        return {"first": r.choice([1, 0, "a"])}
    if carrier == "switch_map":
        return {"outer": r.choice([0, 1, None])}
    return {}


def build_carrier(carrier: str, P: dict, x: Any, family: str) -> Any:
    if carrier == "none":
        return x
    if carrier == "elementwise":
        return x.pipe(*ew_build(P["chain"]))
    if carrier == "merge_never":
        return rx.merge(x, rx.never())
    if carrier == "merge_op_never":
        return x.pipe(ops.merge(rx.never()))
    if carrier == "flat_map":
        if family == "from_iterable":
            # of(v) would be queued on the trampoline behind the never-returning from_iterable loop (excluded shape)
            return x.pipe(ops.flat_map(lambda v: rx.return_value(v, scheduler=ImmediateScheduler())))
        return x.pipe(ops.flat_map(lambda v: rx.of(v)))
    if carrier == "concat_prefix":
        return rx.concat(rx.of(*P["prefix"]), x)
    if carrier == "switch_map":
        return rx.of(P["outer"]).pipe(ops.switch_map(lambda _: x))
    if carrier == "share":
        return x.pipe(ops.share())
    if carrier == "amb_left":
        return rx.amb(x, rx.never())
    if carrier == "amb_right":
        return rx.amb(rx.never(), x)
    if carrier == "with_latest_from_subject":
        return x.pipe(ops.with_latest_from(BehaviorSubject(P["latest"])))
    if carrier == "with_latest_from_of":
        return x.pipe(ops.with_latest_from(rx.of("old", P["latest"])))
    if carrier == "combine_latest_last":
        return rx.combine_latest(rx.of(P["first"]), x)
    raise KeyError(carrier)


def carrier_model(carrier: str, P: dict, it: Iterator[Any]) -> Iterator[Any]:
    if carrier == "elementwise":
        return ew_model(P["chain"], it)
    if carrier == "concat_prefix":
        return itertools.chain(list(P["prefix"]), it)
    if carrier in ("with_latest_from_subject", "with_latest_from_of"):
        return ((v, s) for v, s in zip(it, itertools.repeat(P["latest"])))
    if carrier == "combine_latest_last":
        return ((a, v) for a, v in zip(itertools.repeat(P["first"]), it))
    return it


# --------------------------------------------------------------------------------------------------------------------
# terminators

def gen_term_params(r: Any, term: str, prefix: list) -> dict:
    t = r.randrange(min(len(prefix), 12))
    P: dict = {}
    if term in ("take",):
        P["n"] = r.choice([1, 1, 2, 3, 5, 8, 13])
    elif term in ("take_while_indexed",):
        P["n"] = r.choice([0, 1, 2, 5, 9])
        P["inclusive"] = r.random() < 0.5
    elif term in ("element_at", "element_at_or_default", "take_until_subject"):
        P["k"] = r.choice([0, 0, 1, 2, 4, 7, 12])
    elif term in ("first_pred", "first_or_default", "find", "find_index", "some_pred", "contains", "all"):
        P["target"] = prefix[t]
    elif term == "take_while":
        P["target"] = prefix[t]
        P["inclusive"] = r.random() < 0.5
    return P


def build_terminator(term: str, P: dict) -> list:
    tv = P.get("target")
    if term == "take":
        return [ops.take(P["n"])]
    if term == "first":
        return [ops.first()]
    if term == "first_pred":
        return [ops.first(lambda v: v == tv)]
    if term == "first_or_default":
        return [ops.first_or_default(lambda v: v == tv, "default")]
    if term == "take_while":
        return [ops.take_while(lambda v: v != tv, P["inclusive"])]
    if term == "take_while_indexed":
        return [ops.take_while_indexed(lambda v, i: i < P["n"], P["inclusive"])]
    if term == "element_at":
        return [ops.element_at(P["k"])]
    if term == "element_at_or_default":
        return [ops.element_at_or_default(P["k"], "default")]
    if term == "find":
        return [ops.find(lambda v, i, s: v == tv)]
    if term == "find_index":
        return [ops.find_index(lambda v, i, s: v == tv)]
    if term == "some":
        return [ops.some()]
    if term == "some_pred":
        return [ops.some(lambda v: v == tv)]
    if term == "contains":
        return [ops.contains(tv)]
    if term == "all":
        return [ops.all(lambda v: v != tv)]
    if term == "is_empty":
        return [ops.is_empty()]
    if term == "single":
        return [ops.single()]
    if term == "take_until_subject":
        subj: Subject = Subject()
        seen = [0]

        def fire(v: Any) -> None:
            i = seen[0]
            seen[0] += 1
            if i == P["k"]:
                subj.on_next("stop")
        return [ops.do_action(fire), ops.take_until(subj)]
    raise KeyError(term)


def term_model(term: str, P: dict, it: Iterator[Any]) -> tuple[list, str]:
    """List semantics; consumes from `it` exactly the elements that decide the result."""
    tv = P.get("target")
    out: list = []
    if term == "take":
        for v in it:
            out.append(v)
            if len(out) == P["n"]:
                break
        return out, "C"
    if term in ("first", ):
        return [next(it)], "C"
    if term in ("first_pred", "first_or_default", "find"):
        for v in it:
            if v == tv:
                return [v], "C"
    if term == "find_index":
        for i, v in enumerate(it):
            if v == tv:
                return [i], "C"
    if term == "take_while":
        for v in it:
            if v != tv:
                out.append(v)
            else:
                if P["inclusive"]:
                    out.append(v)
                return out, "C"
    if term == "take_while_indexed":
        for i, v in enumerate(it):
            if i < P["n"]:
                out.append(v)
            else:
                if P["inclusive"]:
                    out.append(v)
                return out, "C"
    if term in ("element_at", "element_at_or_default"):
        for i, v in enumerate(it):
            if i == P["k"]:
                return [v], "C"
    if term in ("some", ):
        next(it)
        return [True], "C"
    if term in ("some_pred", "contains"):
        for v in it:
            if v == tv:
                return [True], "C"
    if term == "all":
        for v in it:
            if not (v != tv):
                return [False], "C"
    if term == "is_empty":
        next(it)
        return [False], "C"
    if term == "single":
        next(it)
        next(it)
        return [], "E"
    if term == "take_until_subject":
        for i, v in enumerate(it):
            if i == P["k"]:
                return out, "C"
            out.append(v)
    raise KeyError(term)


# --------------------------------------------------------------------------------------------------------------------
# case generation

class _Capped:
    """Source model iterator that counts what the model consumed and refuses to go on forever."""

    def __init__(self, it: Iterator[Any]) -> None:
        self.it = it
        self.n = 0

    def __iter__(self) -> "_Capped":
        return self

    def __next__(self) -> Any:
        if self.n >= MODEL_CAP:
            raise _ModelStarved()
        self.n += 1
        return next(self.it)


_ORDER_CACHE: dict = {}


def shape_of_cached(seed: int, idx: int) -> tuple:
    """Case index -> shape: a seeded permutation of all shapes, followed by (a cycle over) the permutation restricted
    to the trampoline configurations."""
    cached = _ORDER_CACHE.get(seed)
    if cached is None:
        order = list(range(len(SHAPES)))
        case_rng(seed, ID, "shape-order").shuffle(order)
        cached = (order, [i for i in order if SHAPES[i][1] in TRAMPOLINE_CONFIGS])
        _ORDER_CACHE[seed] = cached
    order, extra = cached
    if idx < len(order):
        return SHAPES[order[idx]]
    return SHAPES[extra[(idx - len(order)) % len(extra)]]


def gen_case(seed: int, idx: int) -> dict:
    source, config, carrier, term = shape_of_cached(seed, idx)
    r = case_rng(seed, ID, idx)
    tap_kind = r.choice(["map", "do_action"])
    for attempt in range(60):
        SP = gen_source_params(r, source)
        CP = gen_carrier_params(r, carrier)
        try:
            cap = _Capped(source_model(source, SP))
            stream = carrier_model(carrier, CP, cap)
            prefix = [next(stream) for _ in range(14)]
            TP = gen_term_params(r, term, prefix)
            cap = _Capped(source_model(source, SP))
            expected, terminal = term_model(term, TP, carrier_model(carrier, CP, cap))
        except (_ModelStarved, StopIteration, RuntimeError):
            continue
        if cap.n > MAX_NEEDED:
            continue
        return {"source": source, "config": config, "carrier": carrier, "term": term, "SP": SP, "CP": CP, "TP": TP,
                "tap": tap_kind, "expected": expected, "terminal": terminal, "needed": cap.n, "attempts": attempt + 1}
    raise RuntimeError("no terminating parameter draw for shape %r" % ((source, config, carrier, term),))


def describe(case: dict) -> dict:
    return {"source": case["source"], "source_params": show(case["SP"]), "scheduler": case["config"],
            "carrier": case["carrier"], "carrier_params": show(case["CP"]), "terminator": case["term"],
            "terminator_params": show(case["TP"]), "tap": case["tap"] if case["source"] in ("range", "repeat_value", "repeat") else None}


def build_pipeline(case: dict, pulls: Pulls) -> tuple[Any, Any]:
    config = case["config"]
    fsched = ssched = None
    if config != "default":
        where, kind = config.split("=")
        if where == "factory":
            fsched = make_scheduler(kind)
        else:
            ssched = make_scheduler(kind)
    x = build_source(case["source"], case["SP"], pulls, fsched, case["tap"])
    y = build_carrier(case["carrier"], case["CP"], x, FAMILY[case["source"]])
    return y.pipe(*build_terminator(case["term"], case["TP"])), ssched


# --------------------------------------------------------------------------------------------------------------------
# execution of one pipeline under both monitors

def execute(obs: Any, ssched: Any, pulls: Pulls, needed: int, step_budget: int = STEP_BUDGET) -> dict:
    out: list = []
    pulls.budget = needed + SLACK
    steps = StepMonitor.get()
    outcome = "returned"
    exc: Any = None
    disp = None
    old_limit = sys.getrecursionlimit()
    sys.setrecursionlimit(RECURSION_LIMIT)
    steps.start(step_budget)
    try:
        try:
            disp = obs.subscribe(lambda v: out.append(("N", v)), lambda e: out.append(("E", e)),
                                 lambda: out.append(("C", None)), scheduler=ssched)
        finally:
            n_steps = steps.stop()
            sys.setrecursionlimit(old_limit)
    except BudgetExceeded as b:
        outcome = "budget:" + b.kind
        exc = b
    except BaseException as e:  # noqa: BLE001 - anything else that prevents subscribe() from returning
        outcome = "raised"
        exc = e
    r = {"outcome": outcome, "exc": exc, "out": out, "steps": n_steps, "pulls": pulls.n,
         "recursion_errors": steps.recursion_errors, "inline_first": pulls.inline_first,
         "inline_last": pulls.inline_last, "step_trip_at": list(steps.trip_log),
         "late_pulls": 0, "late_out": 0, "trampoline_idle": trampoline_idle()}
    if not r["trampoline_idle"] or outcome != "returned":
        repair_trampoline()     # an injected exception may have interrupted the trampoline's own clean-up
    if outcome == "returned":
        n_out = len(out)
        if disp is not None:
            disp.dispose()
        # anything still queued on the thread's trampoline would run with the next scheduled action
        CurrentThreadScheduler.singleton().schedule(lambda *_: None)
        r["late_pulls"] = pulls.n - r["pulls"]
        r["late_out"] = len(out) - n_out
    return r


def show_out(out: list) -> list:
    return [[k, show(v)] for (k, v) in out[:40]]


def compare(case: dict, out: list) -> Any:
    exp = [("N", v) for v in case["expected"]]
    n = len(exp)
    if [strict(v) for (k, v) in out[:n] if k == "N"] != [strict(v) for (_, v) in exp] or len(out) < n \
            or any(k != "N" for (k, _) in out[:n]):
        return "elements differ from list semantics"
    rest = out[n:]
    if len(rest) != 1 or rest[0][0] != case["terminal"]:
        return "expected exactly one terminal %r after the elements, observed %r" % (case["terminal"], [k for k, _ in rest][:6])
    return None


def run_case(seed: int, idx: int, res: UnitResult) -> dict:
    case = gen_case(seed, idx)
    family = FAMILY[case["source"]]
    pulls = Pulls(family)
    desc = describe(case)
    if not trampoline_idle():
        res.inconclusive.append("thread trampoline not idle before case %d" % idx)
        repair_trampoline()
    obs, ssched = build_pipeline(case, pulls)
    r = execute(obs, ssched, pulls, case["needed"])
    needed = case["needed"]
    config = case["config"]
    res.case(key=desc, nontrivial=needed >= 1,
             sample={"case": desc, "needed_source_elements": needed, "expected": show(case["expected"]) , "terminal": case["terminal"],
                     "outcome": r["outcome"], "pulled": r["pulls"], "steps": r["steps"], "observed": show_out(r["out"])})
    res.note("sources", case["source"])
    res.note("terminators", case["term"])
    res.note("carriers", case["carrier"])
    res.note("sched_configs", config)
    res.note("source_x_sched_config", case["source"] + "|" + config)
    res.count("steps_total", r["steps"])
    res.count("source_elements_needed_total", needed)
    if r["inline_first"] or r["inline_last"]:
        res.count("produced_during_subscription_setup")
        res.note("configs_producing_during_subscription_setup", config)
    if not r["trampoline_idle"]:
        res.inconclusive.append("thread trampoline left busy after case %d (%s)" % (idx, r["outcome"]))

    why = None
    kind = None
    if r["outcome"] == "budget:pulls":
        kind, why = "not-cancelled", "source produced more than needed + %d elements; subscribe() had not returned" % SLACK
        res.count("pull_budget_trips")
    elif r["outcome"] == "budget:steps":
        kind, why = "no-return", "subscribe() did not return within %d steps (function entries + loop back-edges)" % STEP_BUDGET
        res.count("step_budget_trips")
    elif r["outcome"] == "raised":
        kind, why = "raised", "subscribe() raised %s instead of returning" % show(r["exc"])
    else:
        bad = compare(case, r["out"])
        if bad is not None:
            kind, why = "output", bad
        elif r["late_pulls"] or r["late_out"]:
            kind, why = "late-production", "after subscribe() returned: %d more elements produced, %d more notifications" % (
                r["late_pulls"], r["late_out"])
        elif r["pulls"] < needed:
            res.inconclusive.append("harness inconsistency: %d pulled < %d needed in %r" % (r["pulls"], needed, desc))
    if why is None:
        over = r["pulls"] - needed
        res.count("cancelled_within_budget")
        if config in TRAMPOLINE_CONFIGS:
            res.count("cancelled_on_trampoline_of_subscribe")
        res.count("overshoot=0" if over == 0 else ("overshoot=1..8" if over <= 8 else "overshoot>8"))
        if r["recursion_errors"]:
            res.count("stopped_only_by_recursion_limit")
            res.note("recursion_limit_stops", family + ":" + config)
        elif over > 8:
            res.note("large_overshoot_without_recursion_error", "%s:%s:%s:%s" % (family, config, case["carrier"], case["term"]))
        if config in TRAMPOLINE_CONFIGS and case["carrier"] in ("none", "elementwise") and case["term"] != "take_until_subject":
            second_subscription(case, obs, ssched, pulls, res, seed, idx, desc)
        return r
    inline = r["inline_last"]
    if inline:
        mech = "C14:inline-producer:%s:%s" % (family, config)
    else:
        mech = "C14:%s:%s:%s:%s:%s" % (kind, family, config, case["carrier"], case["term"])
    res.violation(mech, {"why": why, "case": desc, "needed_source_elements": needed, "pulled": r["pulls"],
                         "steps": r["steps"], "produced_during_subscription_setup": bool(inline),
                         "recursion_errors_raised": r["recursion_errors"], "step_budget_injected_at": r["step_trip_at"],
                         "expected": show(case["expected"]) , "expected_terminal": case["terminal"],
                         "observed_so_far": show_out(r["out"])},
                  {"seed": seed, "idx": idx})
    return r


def second_subscription(case: dict, obs: Any, ssched: Any, pulls: Pulls, res: UnitResult, seed: int, idx: int, desc: dict) -> None:
    """The same pipeline object subscribed a second time (re-iterable sources, stateless carriers and terminators only):
    the second subscribe() must again return within the budgets with the same elements - per-subscription state of the
    early-terminating operator must start fresh, or the source is never cancelled."""
    pulls.n = 0
    pulls.inline_first = pulls.inline_last = None
    r2 = execute(obs, ssched, pulls, case["needed"])
    res.count("second_subscriptions_checked")
    why = None
    kind = "output"
    if r2["outcome"] == "budget:pulls":
        kind, why = "not-cancelled", "second subscription: source produced more than needed + %d elements" % SLACK
    elif r2["outcome"] == "budget:steps":
        kind, why = "no-return", "second subscription: subscribe() did not return within the step budget"
    elif r2["outcome"] == "raised":
        kind, why = "raised", "second subscription: subscribe() raised %s" % show(r2["exc"])
    else:
        why = compare(case, r2["out"])
    if why is not None:
        res.violation("C14:second-subscription:%s:%s:%s" % (kind, FAMILY[case["source"]], case["term"]),
                      {"why": why, "case": desc, "pulled": r2["pulls"], "observed_so_far": show_out(r2["out"])}, {"seed": seed, "idx": idx})


# --------------------------------------------------------------------------------------------------------------------
# self-checks of the instrumentation and observations of the excluded shapes (first unit of a run only)

def _uncancellable(pulls: Pulls) -> Any:
    def subscribe(observer: Any, scheduler: Any = None) -> Any:
        for v in CountingIterable(itertools.count, pulls):
            observer.on_next(v)
    return rx.create(subscribe)


def _spinner() -> Any:
    def subscribe(observer: Any, scheduler: Any = None) -> Any:
        observer.on_next(0)
        i = 0
        while True:
            i += 1
    return rx.create(subscribe)


def self_checks(res: UnitResult) -> None:
    p = Pulls("from_iterable")
    r = execute(_uncancellable(p).pipe(ops.take(3)), None, p, 3)
    if r["outcome"] == "budget:pulls" and r["pulls"] == 3 + SLACK + 1 and r["trampoline_idle"]:
        res.count("selfcheck_pull_monitor_fired")
    else:
        res.inconclusive.append("self-check: pull monitor did not fire on an uncancellable harness source: %r" % (r["outcome"],))
    p = Pulls("from_iterable")
    r = execute(_spinner().pipe(ops.take(1)), None, p, 0, step_budget=200_000)
    if r["outcome"] == "budget:steps" and r["trampoline_idle"]:
        res.count("selfcheck_step_monitor_fired")
    else:
        res.inconclusive.append("self-check: step monitor did not fire on a spinning harness source: %r" % (r["outcome"],))
    p = Pulls("from_iterable")
    r = execute(rx.from_iterable(CountingIterable(itertools.count, p)).pipe(ops.take(2)), None, p, 2)
    if r["outcome"] == "returned" and r["steps"] > 20 and r["pulls"] == 2:
        res.count("selfcheck_passing_run_counted")
    else:
        res.inconclusive.append("self-check: plain from_iterable(count()).take(2) gave %r steps=%s pulls=%s" % (r["outcome"], r["steps"], r["pulls"]))


def observe_excluded(res: UnitResult) -> None:
    """Shapes excluded by RULE: executed once, reported as observations only."""
    def src(p: Pulls) -> Any:
        return rx.from_iterable(CountingIterable(itertools.count, p))

    def rng(p: Pulls) -> Any:
        return rx.range(0, 10 ** 12).pipe(ops.do_action(lambda v: p.tick()))
    shapes = {
        "combine_latest(infinite, of(1))|from_iterable": lambda p: rx.combine_latest(src(p), rx.of(1)).pipe(ops.take(1)),
        "combine_latest(infinite, of(1))|range": lambda p: rx.combine_latest(rng(p), rx.of(1)).pipe(ops.take(1)),
        "zip(infinite, of(1))|from_iterable": lambda p: rx.zip(src(p), rx.of(1)).pipe(ops.take(1)),
        "take_until(of(1))|from_iterable": lambda p: src(p).pipe(ops.take_until(rx.of(1))),
        "take_until(of(1))|range": lambda p: rng(p).pipe(ops.take_until(rx.of(1))),
        "flat_map(of(v))|from_iterable": lambda p: src(p).pipe(ops.flat_map(lambda v: rx.of(v)), ops.take(2)),
    }
    for name, mk in shapes.items():
        p = Pulls("from_iterable" if name.endswith("from_iterable") else "range")
        r = execute(mk(p), None, p, 2)
        res.note("excluded_shapes_outcomes", "%s -> %s" % (name, r["outcome"] if r["outcome"] != "returned" else "returned after %d pulls" % r["pulls"]))
        res.count("excluded_shape_did_not_terminate" if r["outcome"] != "returned" else "excluded_shape_terminated")


def units(tier: str, seed: int) -> list[dict]:
    return [{"lo": lo, "hi": hi, "seed": seed, "first": lo == 0}
            for lo, hi in chunks(CASES[tier], 16 if tier == "quick" else 64)]


def run_unit(unit: dict, res: UnitResult) -> None:
    self_checks(res)
    if unit.get("first"):
        observe_excluded(res)
    for idx in range(unit["lo"], unit["hi"]):
        run_case(unit["seed"], idx, res)


def replay(rep: dict, res: UnitResult) -> None:
    self_checks(res)
    run_case(rep["seed"], rep["idx"], res)
