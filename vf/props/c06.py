"""C06 Aggregating operators match their reference semantics (virtual time, model differential)."""
from __future__ import annotations

import functools
import itertools
from typing import Any

import reactivex.operators as ops
from reactivex.internal.exceptions import SequenceContainsNoElementsError

from .. import registry as R
from ..common import UnitResult, case_rng, chunks, show, strict
from ..single import SUB_AT, cut_after_terminal, make_input, match_expected, run_single, run_twice, show_timed
from ..vlab import SrcErr, gen_timeline, gen_value, show_timeline
from . import _c06_seqeq as SQ

ID = "C06"
LEVEL = "exploration"
RULE = ("seeded random cases (operator variant, parameters: accumulator/predicate/key/comparer from a registry, seeds and "
        "defaults incl. None/0/False/'', timeline of 0..8 elements ending in C/E/never, hot or cold, value domain "
        "ints/duplicates/falsy/numeric) checked against the equivalent Python computation (functools.reduce, "
        "itertools.accumulate, len, sum, mean, min/max, list/set/dict, first/last/single rules, all/any/in) with "
        "per-output virtual times: full aggregates at the completion, short-circuiting ones at the deciding element; "
        "sequence_equal against a two-source event model fed with the observed same-instant order; "
        "non-trivial = the input has >= 1 element or the model expects >= 1 output; "
        "distinct = digest of (operator variant, parameters, timeline(s))")
ASSUMPTIONS = ["reactivex.testing.TestScheduler is used as the clock (its ordering is checked independently by C28)",
               "probe sources and the logging iterable are harness code (conforming here)",
               "registry callbacks are total and pure; comparers are symmetric, sub-comparers are total preorders",
               "scan with a seed is read as itertools.accumulate(xs, f, initial=seed) without the leading seed",
               "min_by/max_by of an empty input: an empty list and SequenceContainsNoElementsError are both accepted (counted)"]
CASES = {"quick": 47 * 500, "thorough": 47 * 12000}

OPS = ["reduce", "reduce_seed", "scan", "scan_seed", "count", "count_pred", "sum", "sum_key", "average", "average_key",
       "min", "min_cmp", "max", "max_cmp", "min_by", "min_by_cmp", "max_by", "max_by_cmp",
       "to_list", "to_iterable", "to_set", "to_dict", "to_dict_elem",
       "first", "first_pred", "last", "last_pred", "single", "single_pred",
       "first_or_default", "first_or_default_pred", "last_or_default", "last_or_default_pred",
       "single_or_default", "single_or_default_pred",
       "all", "some", "some_pred", "contains", "contains_cmp", "is_empty",
       "sequence_equal_obs", "sequence_equal_obs_cmp", "sequence_equal_iter", "sequence_equal_iter_cmp",
       "sequence_equal_list", "sequence_equal_list_cmp"]
REQUIRED = {"set:ops": len(OPS), "second_subscriptions_checked": {"quick": 1500, "thorough": 40000},
            "cases_with_falsy_input": {"quick": 3000, "thorough": 70000},
            "empty_input_error_expected": {"quick": 400, "thorough": 9000},
            "single_second_element_error_expected": {"quick": 200, "thorough": 5000},
            "short_circuit_decided_before_completion": {"quick": 800, "thorough": 20000},
            "reentrant_feed_cases": {"quick": 4000, "thorough": 100000},
            "default_or_seed_emitted_for_empty": {"quick": 250, "thorough": 6000},
            "falsy_default_or_seed_emitted": {"quick": 150, "thorough": 4000},
            "extrema_by_ties_listed": {"quick": 100, "thorough": 2500},
            "seqeq:equal": {"quick": 200, "thorough": 5000},
            "seqeq:mismatch": {"quick": 300, "thorough": 8000},
            "seqeq:longer": {"quick": 60, "thorough": 1500},
            "seqeq:shorter": {"quick": 60, "thorough": 1500},
            "seqeq:error": {"quick": 100, "thorough": 2500},
            "seqeq:same_instant_ties": {"quick": 200, "thorough": 5000},
            "seqeq:decided_false_before_last_event": {"quick": 100, "thorough": 2500},
            "set:seqeq_second_kinds": 3}

NUMERIC_KEYS = {"inc": R.inc, "neg": R.neg, "const_zero": R.const_zero, "num": R.num, "key_mod3": R.key_mod3,
                "key_bool": R.key_bool}
ANY_KEYS = dict(NUMERIC_KEYS, ident=R.ident, wrap=R.wrap, typename=R.typename, const_none=R.const_none)
SEEDS = [None, 0, False, "", (), 5, "s", 0.0]
DEFAULTS = [None, None, 0, False, "", (), "d", 7]


class SecondElement(Exception):
    """placeholder in expectations: 'single' must fail with some error of its own at the second element"""


def py_cmp(a: Any, b: Any) -> int:
    return (a > b) - (a < b)


def units(tier: str, seed: int) -> list[dict]:
    return [{"lo": lo, "hi": hi, "seed": seed} for lo, hi in chunks(CASES[tier], 16 if tier == "quick" else 64)]


# ---------------------------------------------------------------------------------- generation

def gen_case(r: Any, idx: int) -> dict:
    op = OPS[idx % len(OPS)]
    if op.startswith("sequence_equal"):
        parts = op.split("_")
        case = SQ.gen_case(r, parts[2], op.endswith("_cmp"))
        case["op"] = op
        return case
    anyd = r.choice(["ints", "dups", "falsy", "falsy"])
    domain = anyd
    P: dict = {}
    maxlen = 8
    if op in ("reduce", "reduce_seed", "scan", "scan_seed"):
        P["acc"] = r.choice(sorted(R.ACCUMULATORS))
        if op.endswith("_seed"):
            P["seed"] = r.choice(SEEDS)
    elif op == "count_pred" or op in ("all", "some_pred") or op.endswith("_pred"):
        P["p"] = r.choice(sorted(R.PREDICATES))
    if op in ("sum", "average", "min", "max"):
        domain = "numeric"
    elif op in ("sum_key", "average_key"):
        P["key"] = r.choice(sorted(NUMERIC_KEYS))
    elif op in ("min_cmp", "max_cmp"):
        P["cmp"] = r.choice(sorted(R.SUBCOMPARERS))
        domain = r.choice(["numeric", "ints", "falsy", "dups"])
    elif op in ("min_by", "max_by"):
        P["key"] = r.choice(sorted(NUMERIC_KEYS))
    elif op in ("min_by_cmp", "max_by_cmp"):
        P["key"] = r.choice(sorted(ANY_KEYS))
        P["cmp"] = r.choice(sorted(R.SUBCOMPARERS))
    elif op == "to_set":
        domain = r.choice(["hfalsy", "hfalsy", "dups", "ints"])
    elif op in ("to_dict", "to_dict_elem"):
        P["key"] = r.choice(sorted(R.KEYS))
        if op == "to_dict_elem":
            P["elem"] = r.choice(sorted(R.MAPPERS))
    elif op in ("contains", "contains_cmp"):
        domain = r.choice(["dups", "falsy", "hfalsy", "ints"])
        if op == "contains_cmp":
            P["cmp"] = r.choice(sorted(R.COMPARERS))
    if "_or_default" in op:
        P["default"] = r.choice(DEFAULTS)
    if op.startswith(("first", "last", "single", "is_empty", "some", "all", "min", "max", "average", "reduce")):
        maxlen = r.choice([1, 2, 3, 8, 8])
    tl = gen_timeline(r, domain, maxlen=maxlen)
    if op in ("contains", "contains_cmp"):
        vals = [v for (_, k, v) in tl if k == "N"]
        P["value"] = r.choice(vals) if vals and r.random() < 0.5 else gen_value(r, domain)
    return {"op": op, "P": P, "tl": tl, "hot": r.random() < 0.4, "domain": domain}


def build(case: dict) -> Any:
    op, P = case["op"], case["P"]
    pred = R.PREDICATES[P["p"]] if "p" in P else None
    if op == "reduce":
        return ops.reduce(R.ACCUMULATORS[P["acc"]])
    if op == "reduce_seed":
        return ops.reduce(R.ACCUMULATORS[P["acc"]], P["seed"])
    if op == "scan":
        return ops.scan(R.ACCUMULATORS[P["acc"]])
    if op == "scan_seed":
        return ops.scan(R.ACCUMULATORS[P["acc"]], P["seed"])
    if op == "count":
        return ops.count()
    if op == "count_pred":
        return ops.count(pred)
    if op == "sum":
        return ops.sum()
    if op == "sum_key":
        return ops.sum(NUMERIC_KEYS[P["key"]])
    if op == "average":
        return ops.average()
    if op == "average_key":
        return ops.average(NUMERIC_KEYS[P["key"]])
    if op == "min":
        return ops.min()
    if op == "min_cmp":
        return ops.min(R.SUBCOMPARERS[P["cmp"]])
    if op == "max":
        return ops.max()
    if op == "max_cmp":
        return ops.max(R.SUBCOMPARERS[P["cmp"]])
    if op == "min_by":
        return ops.min_by(NUMERIC_KEYS[P["key"]])
    if op == "min_by_cmp":
        return ops.min_by(ANY_KEYS[P["key"]], R.SUBCOMPARERS[P["cmp"]])
    if op == "max_by":
        return ops.max_by(NUMERIC_KEYS[P["key"]])
    if op == "max_by_cmp":
        return ops.max_by(ANY_KEYS[P["key"]], R.SUBCOMPARERS[P["cmp"]])
    if op == "to_list":
        return ops.to_list()
    if op == "to_iterable":
        return ops.to_iterable()
    if op == "to_set":
        return ops.to_set()
    if op == "to_dict":
        return ops.to_dict(R.KEYS[P["key"]])
    if op == "to_dict_elem":
        return ops.to_dict(R.KEYS[P["key"]], R.MAPPERS[P["elem"]])
    if op == "first":
        return ops.first()
    if op == "first_pred":
        return ops.first(pred)
    if op == "last":
        return ops.last()
    if op == "last_pred":
        return ops.last(pred)
    if op == "single":
        return ops.single()
    if op == "single_pred":
        return ops.single(pred)
    if op == "first_or_default":
        return ops.first_or_default(None, P["default"])
    if op == "first_or_default_pred":
        return ops.first_or_default(pred, P["default"])
    if op == "last_or_default":
        return ops.last_or_default(P["default"])
    if op == "last_or_default_pred":
        return ops.last_or_default(P["default"], pred)
    if op == "single_or_default":
        return ops.single_or_default(None, P["default"])
    if op == "single_or_default_pred":
        return ops.single_or_default(pred, P["default"])
    if op == "all":
        return ops.all(pred)
    if op == "some":
        return ops.some()
    if op == "some_pred":
        return ops.some(pred)
    if op == "contains":
        return ops.contains(P["value"])
    if op == "contains_cmp":
        return ops.contains(P["value"], R.COMPARERS[P["cmp"]])
    if op == "is_empty":
        return ops.is_empty()
    raise KeyError(op)


# ---------------------------------------------------------------------------------- oracle

def model(case: dict, seen: list, facts: dict) -> list:
    """Returns the list of accepted outcomes (each a timed notification list). `facts` collects what the case
    exercised (for the evidence counters). Python computation + 'output at the input that decides it'."""
    op, P = case["op"], case["P"]
    seen = cut_after_terminal(seen)
    elems = [(t, v) for (t, k, v) in seen if k == "N"]
    term = seen[-1] if seen and seen[-1][1] in "EC" else None
    xs = [v for (_, v) in elems]
    completed = term is not None and term[1] == "C"
    pred = R.PREDICATES[P["p"]] if "p" in P else (lambda v: True)

    def at_end(compute: Any) -> list:
        """full aggregate: one value (or an error class) at the completion; source error passes; never => nothing"""
        if term is None:
            return [[]]
        if term[1] == "E":
            return [[term]]
        v = compute()
        if isinstance(v, type) and issubclass(v, BaseException):
            facts["empty_input_error_expected"] = 1
            return [[(term[0], "E", v)]]
        return [[(term[0], "N", v), (term[0], "C", None)]]

    def decided(t: float, v: Any) -> list:
        """short-circuit: value and completion at the deciding element, whatever the source does afterwards"""
        facts["short_circuit_decided_at_element"] = 1
        if any(m[0] > t for m in seen):
            facts["short_circuit_decided_before_completion"] = 1
        return [[(t, "N", v), (t, "C", None)]]

    NOEL = SequenceContainsNoElementsError

    if op in ("reduce", "reduce_seed"):
        f = R.ACCUMULATORS[P["acc"]]
        if op == "reduce":
            return at_end(lambda: functools.reduce(f, xs) if xs else NOEL)
        if completed and not xs:
            facts["default_or_seed_emitted_for_empty"] = 1
            facts["falsy_default_or_seed_emitted"] = int(not P["seed"])
        return at_end(lambda: functools.reduce(f, xs, P["seed"]))
    if op in ("scan", "scan_seed"):
        f = R.ACCUMULATORS[P["acc"]]
        if op == "scan":
            accs = list(itertools.accumulate(xs, f))
        else:
            # (accumulate's own initial=None means "no initial value", so the seed is chained in front instead)
            accs = list(itertools.accumulate(itertools.chain([P["seed"]], xs), f))[1:]
        res = [(t, "N", a) for (t, _), a in zip(elems, accs)]
        if term is not None:
            res.append(term)
        return [res]
    if op in ("count", "count_pred"):
        return at_end(lambda: len([x for x in xs if pred(x)]))
    if op == "sum":
        return at_end(lambda: sum(xs))
    if op == "sum_key":
        return at_end(lambda: sum(map(NUMERIC_KEYS[P["key"]], xs)))
    if op == "average":
        return at_end(lambda: sum(xs) / len(xs) if xs else NOEL)
    if op == "average_key":
        return at_end(lambda: sum(map(NUMERIC_KEYS[P["key"]], xs)) / len(xs) if xs else NOEL)
    if op in ("min", "max", "min_cmp", "max_cmp"):
        pick = min if op.startswith("min") else max
        if "cmp" in P:
            key = functools.cmp_to_key(R.SUBCOMPARERS[P["cmp"]])
            return at_end(lambda: pick(xs, key=key) if xs else NOEL)
        return at_end(lambda: pick(xs) if xs else NOEL)
    if op in ("min_by", "max_by", "min_by_cmp", "max_by_cmp"):
        pick = min if op.startswith("min") else max
        keyf = ANY_KEYS[P["key"]]
        cmp = R.SUBCOMPARERS[P["cmp"]] if "cmp" in P else py_cmp
        keys = [keyf(x) for x in xs]
        if not xs:
            if completed:
                facts["open:extrema_by_of_empty"] = 1
                return [[(term[0], "N", []), (term[0], "C", None)], [(term[0], "E", NOEL)]]
            return at_end(lambda: [])

        def extrema() -> list:
            m = pick(keys, key=functools.cmp_to_key(cmp))
            out = [x for x, k in zip(xs, keys) if cmp(k, m) == 0]
            if len(out) > 1:
                facts["extrema_by_ties_listed"] = 1
            return out
        return at_end(extrema)
    if op in ("to_list", "to_iterable"):
        return at_end(lambda: list(xs))
    if op == "to_set":
        return at_end(lambda: set(xs))
    if op in ("to_dict", "to_dict_elem"):
        keyf = R.KEYS[P["key"]]
        elem = R.MAPPERS[P["elem"]] if "elem" in P else (lambda v: v)
        return at_end(lambda: {keyf(x): elem(x) for x in xs})
    if op.startswith(("first", "last", "single")):
        has_default = "_or_default" in op
        matches = [(t, v) for (t, v) in elems if pred(v)]

        def none_found() -> Any:
            if has_default:
                facts["default_or_seed_emitted_for_empty"] = 1
                facts["falsy_default_or_seed_emitted"] = int(not P["default"])
                return P["default"]
            return NOEL
        if op.startswith("first"):
            if matches:
                return decided(*matches[0])
            return at_end(none_found)
        if op.startswith("last"):
            return at_end(lambda: matches[-1][1] if matches else none_found())
        if len(matches) >= 2:
            facts["single_second_element_error_expected"] = 1
            return [[(matches[1][0], "E", SecondElement)]]
        return at_end(lambda: matches[0][1] if matches else none_found())
    if op == "all":
        for t, v in elems:
            if not pred(v):
                return decided(t, False)
        return at_end(lambda: all(pred(x) for x in xs))
    if op in ("some", "some_pred"):
        for t, v in elems:
            if pred(v):
                return decided(t, True)
        return at_end(lambda: any(pred(x) for x in xs))
    if op in ("contains", "contains_cmp"):
        eq = R.COMPARERS[P["cmp"]] if "cmp" in P else (lambda a, b: a == b)
        for t, v in elems:
            if eq(v, P["value"]):
                return decided(t, True)
        return at_end(lambda: (any(eq(x, P["value"]) for x in xs)) if "cmp" in P else (P["value"] in xs))
    if op == "is_empty":
        if elems:
            return decided(elems[0][0], False)
        return at_end(lambda: len(xs) == 0)
    raise KeyError(op)


def check(alternatives: list, actual: list) -> tuple[str | None, int]:
    """None when one accepted outcome matches; else the reason against the first alternative."""
    first_why = None
    for i, exp in enumerate(alternatives):
        e2 = [(t, k, Exception if v is SecondElement else v) for (t, k, v) in exp]
        why = match_expected(e2, actual)
        if why is None:
            for (te, ke, ve), (ta, ka, va) in zip(exp, actual):
                if ve is SecondElement and isinstance(va, (SrcErr, SequenceContainsNoElementsError)):
                    why = "error at the second element is %r (want an error saying there is more than one element)" % (va,)
        if why is None:
            return None, i
        if first_why is None:
            first_why = why
    return first_why, -1


def show_alts(alts: list) -> Any:
    def one(xs: list) -> list:
        return [[t, k, "<any error of the operator's own>" if v is SecondElement else (v.__name__ if isinstance(v, type) else show(v))] for (t, k, v) in xs]
    return one(alts[0]) if len(alts) == 1 else {"any_of": [one(a) for a in alts]}


def describe(case: dict) -> dict:
    if case["op"].startswith("sequence_equal"):
        d = SQ.describe(case)
        d["op"] = case["op"]
        return d
    return {"op": case["op"], "params": show(case["P"]), "hot": case["hot"], "timeline": show_timeline(case["tl"])}


def is_falsy_value(v: Any) -> bool:
    return not isinstance(v, BaseException) and not v


# ---------------------------------------------------------------------------------- running

def run_seqeq(r: Any, case: dict, seed: int, idx: int, res: UnitResult) -> None:
    lab, obs, seen1, seen2 = SQ.run(r, case)
    desc = describe(case)
    actual = obs.timed()
    why = None
    nsub1 = sum(1 for e in lab.ev if e[2] == "sub" and e[3] == "s")
    nsub2 = sum(1 for e in lab.ev if e[2] == "sub" and e[3] == "s2")
    if nsub1 != 1 or (case["kind"] == "obs" and nsub2 != 1):
        why = "sources subscribed %d / %d times (want once each)" % (nsub1, nsub2)
        events, info, expected, outcome = [], {"ties": 0, "unobserved": 0}, [], "n/a"
    else:
        events, info = SQ.merged_events(lab, case, seen1, seen2)
        expected, outcome = SQ.model(case, events)
        why = match_expected(expected, actual)
    if why is None and lab.escaped_to_scheduler:
        why = "exception escaped to scheduler: %r" % (lab.escaped_to_scheduler[0],)
    nontrivial = any(e[2] == "N" for e in events) or bool(expected)
    res.case(key=desc, nontrivial=nontrivial,
             sample={"case": desc, "events_as_offered": [[t, s, k, show(v)] for (t, s, k, v) in events],
                     "expected": show_timed(expected), "observed": show_timed(actual)})
    res.note("ops", case["op"])
    res.note("seqeq_second_kinds", case["kind"])
    res.count("outputs_compared", len(expected))
    res.count("seqeq:" + outcome)
    res.count("seqeq:same_instant_ties", info["ties"])
    if info["unobserved"]:
        res.count("seqeq:cases_with_events_after_unsubscribe")
    if any(k == "N" and is_falsy_value(v) for (_, _, k, v) in events):
        res.count("cases_with_falsy_input")
    if outcome in ("mismatch", "longer", "shorter") and events and expected and expected[0][0] < events[-1][0]:
        res.count("seqeq:decided_false_before_last_event")
    if why is not None:
        res.violation("C06:%s" % case["op"], {"why": why, "case": desc,
                                               "events_as_offered": [[t, s, k, show(v)] for (t, s, k, v) in events],
                                               "expected": show_timed(expected), "observed": show_timed(actual)},
                      {"seed": seed, "idx": idx})


def run_case(seed: int, idx: int, res: UnitResult) -> None:
    r = case_rng(seed, ID, idx)
    case = gen_case(r, idx)
    if case["op"].startswith("sequence_equal"):
        run_seqeq(r, case, seed, idx, res)
        return
    msgs, seen = make_input(r, case["tl"], case["hot"])
    facts: dict = {}
    alts = model(case, seen, facts)
    lab, obs, src = run_single(lambda lab, s: s.pipe(build(case)), msgs, case["hot"])
    actual = obs.timed()
    desc = describe(case)
    nontrivial = any(m[1] == "N" for m in seen) or any(e[1] == "N" for e in alts[0])
    res.case(key=desc, nontrivial=nontrivial, sample={"case": desc, "expected": show_alts(alts), "observed": show_timed(actual)})
    res.note("ops", case["op"])
    res.count("outputs_compared", len(alts[0]))
    if any(k == "N" and is_falsy_value(v) for (_, k, v) in seen):
        res.count("cases_with_falsy_input")
    if any(k == "N" and is_falsy_value(v) and not isinstance(v, bool) for (_, k, v) in alts[0]):
        res.count("cases_with_falsy_non_bool_output")
    for k, v in facts.items():
        if v:
            res.count(k, v)
    why, which = check(alts, actual)
    if why is None and len(alts) > 1:
        res.count("open:accepted_alternative_%d" % which)
    if why is None and lab.escaped_to_scheduler:
        why = "exception escaped to scheduler: %r" % (lab.escaped_to_scheduler[0],)
    if why is not None:
        res.violation("C06:%s" % case["op"], {"why": why, "case": desc, "expected": show_alts(alts), "observed": show_timed(actual)},
                      {"seed": seed, "idx": idx})
    if why is None and not case["hot"] and r.random() < 0.4:
        # the same observable object subscribed again over a source that yields DIFFERENT data to its second subscription
        case2 = gen_case(r, idx)
        if case2["op"] == case["op"]:
            tl2 = case2["tl"]
            lab2, o1, o2, t2 = run_twice(lambda lab, s: s.pipe(build(case)), list(case["tl"]), tl2)
            alts2 = model(case, [(t2 + t, k, v) for (t, k, v) in tl2], {})
            res.count("second_subscriptions_checked")
            why2, _ = check(alts2, o2.timed())
            if why2 is not None:
                res.violation("C06:%s:second-subscription" % case["op"], {"why": why2, "case": desc, "second_timeline": [[t, k, show(v)] for (t, k, v) in tl2],
                                                                          "expected": show_alts(alts2), "observed": show_timed(o2.timed())},
                              {"seed": seed, "idx": idx})


def reentrant_feed_case(seed: int, idx: int, res: UnitResult) -> None:
    """As in C05: the source is a Subject fed from inside the deliveries (the aggregate's subscriber publishes the next input element
    from its on_next; a plain subscriber of the source, subscribed last, keeps the feed going when nothing was emitted). The result
    must still be the Python value computed from the list a first subscriber saw (kinds and values; no virtual time here)."""
    from reactivex.subject import Subject
    r = case_rng(seed, ID, "reentrant", idx)
    case = gen_case(r, idx)
    if case["op"].startswith("sequence_equal") or any(k == "E" for (t, k, v) in case["tl"]):
        return
    xs = [v for (t, k, v) in case["tl"] if k == "N"]
    n = len(xs)
    subject: Any = Subject()
    everything: list = []
    subject.subscribe(everything.append)
    st = {"next": 0, "subscribed": False}

    def push_next() -> None:
        if st["subscribed"] and st["next"] < n:
            i = st["next"]
            st["next"] += 1
            subject.on_next(xs[i])
    got: list = []

    def on_next(v: Any) -> None:
        got.append(("N", v))
        push_next()
    subject.pipe(build(case)).subscribe(on_next, lambda e: got.append(("E", e)), lambda: got.append(("C", None)))

    def pump(v: Any) -> None:
        if st["next"] == len(everything):
            push_next()
    subject.subscribe(pump)
    st["subscribed"] = True
    push_next()
    subject.on_completed()
    if len(everything) != n or st["next"] != n:
        res.count("reentrant_setup_not_serial")
        return
    seen = [(float(i), "N", v) for i, v in enumerate(xs)] + [(float(n), "C", None)]
    alts = model(case, seen, {})
    desc = describe(case)
    desc["family"] = "re-entrant feed"
    res.count("reentrant_feed_cases")
    res.case(key=desc, nontrivial=n >= 2)

    def same(exp: list) -> bool:
        e2 = [(k, v) for (t, k, v) in exp]
        if len(e2) != len(got):
            return False
        for a, b in zip(e2, got):
            if a[0] != b[0]:
                return False
            if a[0] == "N" and strict(a[1]) != strict(b[1]):
                return False
        return True
    if not any(same(a) for a in alts):
        res.violation("C06:%s:reentrant-source" % case["op"], {"why": "result differs from the Python computation when the source is fed from inside the deliveries",
                                                                "case": desc, "input": show(xs), "expected": show_alts(alts), "observed": show(got)},
                      {"seed": seed, "idx": idx, "family": "reentrant"})


def run_unit(unit: dict, res: UnitResult) -> None:
    for idx in range(unit["lo"], unit["hi"]):
        run_case(unit["seed"], idx, res)
        if idx % 3 == 0:
            reentrant_feed_case(unit["seed"], idx, res)


def replay(rep: dict, res: UnitResult) -> None:
    if rep.get("family") == "reentrant":
        reentrant_feed_case(rep["seed"], rep["idx"], res)
        return
    run_case(rep["seed"], rep["idx"], res)
