"""C08 helper: metamorphic engine for falsiness.

A scenario is run twice on the same timeline(s): once with the generated (mostly falsy) payloads and once with every
payload occurrence replaced by a fresh truthy token object (`Tok`; `EqTok` for scenarios whose operator compares or
hashes values: equality, hash and order of an EqTok are those of the value it stands for, so the equality pattern
including 0 == False == 0.0 is preserved). Nothing but the payload objects differs between the two runs, so the
recorded notifications (every probe observer, children of windows/groups included, plus retained-state reads and
future results) must be identical once tokens are mapped back to the values they stand for. Any difference means a
falsy value was dropped, replaced, or mistaken for "no value".
"""
from __future__ import annotations

import asyncio
import concurrent.futures
from typing import Any, Callable

import reactivex as rx
import reactivex.operators as ops
from reactivex import abc
from reactivex.subject import AsyncSubject, BehaviorSubject, ReplaySubject, Subject

from ..common import show, strict
from ..vlab import FALSY, HASHABLE_FALSY, Lab, SrcErr, show_timeline

SUB_AT = 200.0
HORIZON = 5000.0     # virtual-time horizon of a run (every generated timeline ends long before)
STEPS = (0, 5, 5, 10, 10, 15, 1, 4, 6)
D = (5, 10, 15)
TRUTHY = [1, 2, "a", (1,), [0], True, 3.5, -1]
HASHABLE_TRUTHY = [1, 2, "a", (1,), True, 3.5, -1]


# ---------------------------------------------------------------------------------- tokens

class Tok:
    """truthy stand-in for one payload occurrence (identity equality)"""
    __slots__ = ("orig", "n")

    def __init__(self, orig: Any, n: int) -> None:
        self.orig, self.n = orig, n

    def __repr__(self) -> str:
        return "Tok#%d<%r>" % (self.n, self.orig)


class EqTok(Tok):
    """stand-in whose equality / hash / order are those of the value it stands for"""
    __slots__ = ()

    def __eq__(self, other: Any) -> bool:
        return isinstance(other, EqTok) and self.orig == other.orig

    def __ne__(self, other: Any) -> bool:
        return not self.__eq__(other)

    def __hash__(self) -> int:
        return hash(self.orig)          # TypeError for [] and {} exactly like the value itself

    def __lt__(self, other: Any) -> bool:
        return self.orig < other.orig

    def __le__(self, other: Any) -> bool:
        return self.orig <= other.orig

    def __gt__(self, other: Any) -> bool:
        return self.orig > other.orig

    def __ge__(self, other: Any) -> bool:
        return self.orig >= other.orig

    def __sub__(self, other: Any) -> Any:       # default comparers of min / max subtract
        return self.orig - other.orig


class Relab:
    def __init__(self, eq: bool) -> None:
        self.cls = EqTok if eq else Tok
        self.n = 0

    def __call__(self, v: Any) -> Any:
        self.n += 1
        return self.cls(v, self.n)


def ident(v: Any) -> Any:
    return v


def is_falsy(v: Any) -> bool:
    return not isinstance(v, (BaseException, Tok)) and not v


def tokens_in(v: Any, depth: int = 0) -> list:
    """all tokens reachable inside a recorded value"""
    if isinstance(v, Tok):
        return [v]
    if depth > 40:
        return []
    if isinstance(v, (list, tuple, set, frozenset)):
        return [t for x in v for t in tokens_in(x, depth + 1)]
    if isinstance(v, dict):
        return [t for k, x in v.items() for t in tokens_in(k, depth + 1) + tokens_in(x, depth + 1)]
    if isinstance(v, abc.ObservableBase):
        return tokens_in(getattr(v, "key", None), depth + 1)
    if type(v).__module__ == "reactivex.notification":
        return tokens_in(getattr(v, "value", None), depth + 1) if getattr(v, "kind", "") == "N" else []
    if hasattr(v, "value") and type(v).__module__.startswith("reactivex."):
        return tokens_in(v.value, depth + 1)
    return []


def canon(v: Any, depth: int = 0) -> Any:
    """type-strict canonical form with tokens mapped back to the values they stand for"""
    if isinstance(v, Tok):
        return strict(v.orig)
    if depth > 40:          # (scan with a pairing accumulator nests one level per element; never reached)
        raise RecursionError("canon: value nested deeper than 40 levels")
    if isinstance(v, (list, tuple)):
        return (type(v).__name__, tuple(canon(x, depth + 1) for x in v))
    if isinstance(v, dict):
        return ("dict", tuple((canon(k, depth + 1), canon(x, depth + 1)) for k, x in v.items()))
    if isinstance(v, (set, frozenset)):
        return (type(v).__name__, tuple(sorted((canon(x, depth + 1) for x in v), key=repr)))
    if isinstance(v, BaseException):
        return ("exc", type(v).__name__, id(v) if isinstance(v, SrcErr) else None)
    if isinstance(v, abc.ObservableBase):
        return ("group", canon(v.key, depth + 1)) if hasattr(v, "key") else ("observable",)
    mod = type(v).__module__
    if mod == "reactivex.notification":
        kind = getattr(v, "kind", "?")
        if kind == "N":
            return ("notification", "N", canon(v.value, depth + 1))
        if kind == "E":
            return ("notification", "E", canon(v.exception, depth + 1))
        return ("notification", kind)
    if mod.startswith("reactivex.") and hasattr(v, "value"):
        other = getattr(v, "timestamp", getattr(v, "interval", None))
        return (type(v).__name__, canon(v.value, depth + 1), repr(other))
    return strict(v)


def show_val(v: Any, depth: int = 0) -> Any:
    """JSON-able rendering of recorded values (tokens shown as the value they stand for, tagged)"""
    if isinstance(v, Tok):
        return {"tok": show(v.orig)}
    if depth > 6:
        return "..."
    if isinstance(v, tuple):
        return {"tuple": [show_val(x, depth + 1) for x in v]}
    if isinstance(v, list):
        return [show_val(x, depth + 1) for x in v]
    if isinstance(v, dict):
        return {"dict": [[show_val(k, depth + 1), show_val(x, depth + 1)] for k, x in v.items()]}
    if isinstance(v, (set, frozenset)):
        return {"set": sorted((show_val(x, depth + 1) for x in v), key=repr)}
    if isinstance(v, abc.ObservableBase):
        return {"group": show_val(v.key, depth + 1)} if hasattr(v, "key") else "<observable>"
    mod = type(v).__module__
    if mod == "reactivex.notification" and getattr(v, "kind", "") == "N":
        return {"OnNext": show_val(v.value, depth + 1)}
    if mod.startswith("reactivex.") and hasattr(v, "value") and not isinstance(v, BaseException):
        return {type(v).__name__: show_val(v.value, depth + 1)}
    return show(v)


# ---------------------------------------------------------------------------------- generation

def gen_val(r: Any, hashable: bool = False, p_falsy: float = 0.75) -> Any:
    if r.random() < p_falsy:
        v = r.choice(HASHABLE_FALSY if hashable else FALSY)
        return type(v)() if isinstance(v, (list, dict)) else v
    return r.choice(HASHABLE_TRUTHY if hashable else TRUTHY)


def gen_tl(r: Any, maxlen: int = 6, minlen: int = 0, term: Any = "auto", hashable: bool = False,
           steps: tuple = STEPS) -> list:
    n = r.randint(minlen, maxlen)
    t = 0
    out = []
    for _ in range(n):
        t += r.choice(steps)
        out.append((t, "N", gen_val(r, hashable)))
    if term == "auto":
        term = r.choice(["C", "C", "C", "C", "E", None])
    t += r.choice(steps)
    if term == "C":
        out.append((t, "C", None))
    elif term == "E":
        out.append((t, "E", SrcErr("src@%s" % t)))
    return out


def gen_src(r: Any, name: str, maxlen: int = 6, minlen: int = 0, term: Any = "auto", hashable: bool = False,
            hot: Any = None) -> dict:
    hot = (r.random() < 0.3) if hot is None else hot
    tl = gen_tl(r, maxlen, minlen, term, hashable)
    if hot:
        base = SUB_AT + r.choice([-10, 1, 5])
        tl = [(base + t, k, v) for (t, k, v) in tl]
    return {"name": name, "hot": hot, "tl": tl}


def gen_marks(r: Any, name: str, maxlen: int = 4) -> dict:
    """a cold boundary / sampler / gate source (its own elements are falsy-domain values too)"""
    return gen_src(r, name, maxlen=maxlen, minlen=1, term=r.choice(["C", None, None]), hot=False)


# ---------------------------------------------------------------------------------- scenario plumbing

class Ctx:
    def __init__(self, lab: Lab, case: dict, m: Callable[[Any], Any]) -> None:
        self.lab, self.case, self.m = lab, case, m
        self.ts = lab.ts
        self.P = case["P"]
        self.extras: list = []
        self.raw_extras: list = []
        self._src: dict = {}
        self.fed: list = []            # payloads handed to the unit under test directly (parameters, subject.on_next)

    def feed(self, v: Any) -> Any:
        x = self.m(v)
        self.fed.append(x)
        return x

    def s(self, name: str = "s") -> Any:
        if name not in self._src:
            spec = next(x for x in self.case["srcs"] if x["name"] == name)
            msgs = [(t, k, self.m(v) if k == "N" else v) for (t, k, v) in spec["tl"]]
            self._src[name] = self.lab.hot(name, msgs) if spec["hot"] else self.lab.cold(name, msgs)
        return self._src[name]

    def mv(self, key: str) -> Any:
        """a value-typed parameter, relabelled once per run"""
        k = "_mv_" + key
        if k not in self.__dict__:
            self.__dict__[k] = self.feed(self.P[key])
        return self.__dict__[k]

    def mlist(self, key: str) -> list:
        k = "_ml_" + key
        if k not in self.__dict__:
            self.__dict__[k] = [self.feed(v) for v in self.P[key]]
        return self.__dict__[k]

    def timer(self, d: float) -> Any:
        return rx.timer(d, scheduler=self.ts)

    def cycle(self, key: str) -> Callable[..., Any]:
        """value-independent duration mapper: the k-th call returns a timer of P[key][k % len]"""
        ds = self.P[key]
        state = {"i": 0}

        def mapper(*_: Any) -> Any:
            d = ds[state["i"] % len(ds)]
            state["i"] += 1
            return self.timer(d)
        return mapper

    def extra(self, tag: str, value: Any) -> None:
        self.extras.append((self.lab.now(), tag, canon(value)))
        self.raw_extras.append((self.lab.now(), tag, value))


class Scn:
    def __init__(self, name: str, srcs: tuple, gen: Any, build: Any, setup: Any, eq: bool, hashable: bool,
                 derived: bool, maxlen: int, minlen: int, cold: bool, term: Any) -> None:
        self.name, self.srcs, self.gen, self.build, self.setup = name, srcs, gen, build, setup
        self.eq, self.hashable, self.derived, self.maxlen, self.minlen = eq, hashable, derived, maxlen, minlen
        self.cold, self.term = cold, term


SCEN: dict[str, Scn] = {}


def scen(name: str, srcs: tuple = ("s",), gen: Any = None, eq: bool = False, hashable: bool = False,
         derived: bool = False, custom: bool = False, maxlen: int = 6, minlen: int = 0, cold: bool = False,
         term: Any = "auto") -> Any:
    def deco(fn: Any) -> Any:
        SCEN[name] = Scn(name, srcs, gen, None if custom else fn, fn if custom else None, eq, hashable, derived,
                         maxlen, minlen, cold, term)
        return fn
    return deco


def gen_case(r: Any, name: str) -> dict:
    S = SCEN[name]
    case: dict = {"op": name, "P": {}, "srcs": []}
    for sname in S.srcs:
        if sname.startswith("b"):
            case["srcs"].append(gen_marks(r, sname))
        else:
            case["srcs"].append(gen_src(r, sname, maxlen=S.maxlen, minlen=S.minlen, hashable=S.hashable,
                                        hot=False if S.cold else None,
                                        term=r.choice(S.term) if isinstance(S.term, list) else S.term))
    if S.gen is not None:
        case["P"] = S.gen(r, case)
    return case


def describe(case: dict) -> dict:
    d = {"op": case["op"], "params": show(case["P"])}
    if case["srcs"]:
        d["sources"] = [{"name": s["name"], "hot": s["hot"], "timeline": show_timeline(s["tl"])} for s in case["srcs"]]
    return d


def run_variant(case: dict, relabel: bool) -> dict:
    S = SCEN[case["op"]]
    lab = Lab("num")
    m = Relab(S.eq) if relabel else ident
    c = Ctx(lab, case, m)
    for spec in case["srcs"]:          # hot sources start at time 0, not when the pipeline is built
        c.s(spec["name"])
    if S.setup is not None:
        S.setup(c)
    else:
        top = lab.observer("top")
        lab.at(SUB_AT, lambda: top.subscribe_to(S.build(c)))
    lab.run(until=HORIZON)
    raw = {o.name: o.timed() for o in lab.observers}
    out = {name: [(t, k, canon(v)) for (t, k, v) in xs] for name, xs in raw.items()}
    offered = [e[6] for e in lab.ev if e[2] == "emit" and e[5] == "N"]
    return {"lab": lab, "out": out, "raw": raw, "extras": c.extras, "raw_extras": c.raw_extras, "offered": offered,
            "escaped": list(lab.escaped_to_scheduler), "ctx": c}


def show_run(run: dict) -> dict:
    d = {name: [[t, k, show_val(v)] for (t, k, v) in xs] for name, xs in run["raw"].items()}
    if run["raw_extras"]:
        d["reads"] = [[t, tag, show_val(v)] for (t, tag, v) in run["raw_extras"]]
    return d


def diff(a: dict, b: dict) -> tuple[str, str] | None:
    """(what, why) for the first difference between the falsy run `a` and the relabelled run `b`"""
    names = sorted(set(a["out"]) | set(b["out"]))
    for name in names:
        xa, xb = a["out"].get(name), b["out"].get(name)
        if xa is None or xb is None:
            return "dropped" if xa is None else "extra", "observer %s exists in only one run" % name
        if xa == xb:
            continue
        na, nb = sum(1 for x in xa if x[1] == "N"), sum(1 for x in xb if x[1] == "N")
        for i in range(max(len(xa), len(xb))):
            ea = xa[i] if i < len(xa) else None
            eb = xb[i] if i < len(xb) else None
            if ea != eb:
                why = "observer %s item %d: with falsy payloads %s, with truthy tokens %s" % (
                    name, i, "nothing" if ea is None else [ea[0], ea[1], repr(a["raw"][name][i][2])],
                    "nothing" if eb is None else [eb[0], eb[1], repr(b["raw"][name][i][2])])
                break
        if na < nb:
            return "dropped", why
        if na > nb:
            return "extra", why
        ka, kb = [x[1] for x in xa], [x[1] for x in xb]
        if ka != kb:
            return "terminal", why
        if [x[0] for x in xa] != [x[0] for x in xb]:
            return "time", why
        return "value", why
    if a["extras"] != b["extras"]:
        for i in range(max(len(a["extras"]), len(b["extras"]))):
            ea = a["extras"][i] if i < len(a["extras"]) else None
            eb = b["extras"][i] if i < len(b["extras"]) else None
            if ea != eb:
                return "state", "read %d: with falsy payloads %r, with truthy tokens %r" % (
                    i, a["raw_extras"][i] if ea else None, b["raw_extras"][i] if eb else None)
    if len(a["escaped"]) != len(b["escaped"]):
        return "escaped", "exceptions escaped to the scheduler: %r vs %r" % (a["escaped"], b["escaped"])
    return None


def reached(tok_run: dict, derived: bool) -> tuple[int, int]:
    """(falsy payload occurrences offered to the operator, falsy occurrences that the relabelled run shows in the
    output / retained state -- for `derived` scenarios: offered ones when an output was produced from them)"""
    offered = {t.n for v in tok_run["offered"] for t in tokens_in(v) if is_falsy(t.orig)}
    offered |= {t.n for v in tok_run["ctx"].fed for t in tokens_in(v) if is_falsy(t.orig)}
    seen = set()
    for xs in tok_run["raw"].values():
        for (_, k, v) in xs:
            if k == "N":
                seen |= {t.n for t in tokens_in(v) if is_falsy(t.orig)}
    for (_, _, v) in tok_run["raw_extras"]:
        seen |= {t.n for t in tokens_in(v) if is_falsy(t.orig)}
    if derived and offered and any(k == "N" for xs in tok_run["raw"].values() for (_, k, _) in xs):
        return len(offered), len(offered)
    return len(offered), len(seen)


# ---------------------------------------------------------------------------------- scenarios: time shifting

@scen("delay", gen=lambda r, c: {"d": r.choice(D)})
def _delay(c: Ctx) -> Any:
    return c.s().pipe(ops.delay(c.P["d"], scheduler=c.ts))


@scen("delay_with_mapper", gen=lambda r, c: {"ds": [r.choice(D + (0, 20)) for _ in range(3)]})
def _delay_with_mapper(c: Ctx) -> Any:
    return c.s().pipe(ops.delay_with_mapper(c.cycle("ds")))


@scen("delay_with_mapper_subscription_delay", gen=lambda r, c: {"ds": [r.choice(D) for _ in range(3)], "sd": r.choice(D)})
def _delay_with_mapper2(c: Ctx) -> Any:
    return c.s().pipe(ops.delay_with_mapper(c.timer(c.P["sd"]), c.cycle("ds")))


@scen("timestamp")
def _timestamp(c: Ctx) -> Any:
    return c.s().pipe(ops.timestamp(scheduler=c.ts))


@scen("time_interval")
def _time_interval(c: Ctx) -> Any:
    return c.s().pipe(ops.time_interval(scheduler=c.ts))


@scen("observe_on")
def _observe_on(c: Ctx) -> Any:
    return c.s().pipe(ops.observe_on(c.ts))


# ---------------------------------------------------------------------------------- buffers and windows

def _gen_count(r: Any, c: dict) -> dict:
    return {"count": r.choice([1, 2, 3]), "skip": r.choice([None, 1, 2, 3, 4])}


@scen("buffer_with_count", gen=_gen_count)
def _buffer_with_count(c: Ctx) -> Any:
    return c.s().pipe(ops.buffer_with_count(c.P["count"], c.P["skip"]))


@scen("window_with_count", gen=_gen_count)
def _window_with_count(c: Ctx) -> Any:
    return c.s().pipe(ops.window_with_count(c.P["count"], c.P["skip"]))


def _gen_time(r: Any, c: dict) -> dict:
    return {"span": r.choice([7, 10, 12, 20]), "shift": r.choice([None, None, 5, 10, 25])}


@scen("buffer_with_time", gen=_gen_time)
def _buffer_with_time(c: Ctx) -> Any:
    return c.s().pipe(ops.buffer_with_time(c.P["span"], c.P["shift"], scheduler=c.ts), ops.take(12))


@scen("window_with_time", gen=_gen_time)
def _window_with_time(c: Ctx) -> Any:
    return c.s().pipe(ops.window_with_time(c.P["span"], c.P["shift"], scheduler=c.ts), ops.take(12))


def _gen_toc(r: Any, c: dict) -> dict:
    return {"span": r.choice([7, 10, 12, 20]), "count": r.choice([1, 2, 3])}


@scen("buffer_with_time_or_count", gen=_gen_toc)
def _buffer_with_time_or_count(c: Ctx) -> Any:
    return c.s().pipe(ops.buffer_with_time_or_count(c.P["span"], c.P["count"], scheduler=c.ts), ops.take(12))


@scen("window_with_time_or_count", gen=_gen_toc)
def _window_with_time_or_count(c: Ctx) -> Any:
    return c.s().pipe(ops.window_with_time_or_count(c.P["span"], c.P["count"], scheduler=c.ts), ops.take(12))


@scen("buffer", srcs=("s", "b"))
def _buffer(c: Ctx) -> Any:
    return c.s().pipe(ops.buffer(c.s("b")))


@scen("window", srcs=("s", "b"))
def _window(c: Ctx) -> Any:
    return c.s().pipe(ops.window(c.s("b")))


@scen("buffer_when", gen=lambda r, c: {"ds": [r.choice(D) for _ in range(3)]})
def _buffer_when(c: Ctx) -> Any:
    return c.s().pipe(ops.buffer_when(c.cycle("ds")), ops.take(12))


@scen("window_when", gen=lambda r, c: {"ds": [r.choice(D) for _ in range(3)]})
def _window_when(c: Ctx) -> Any:
    return c.s().pipe(ops.window_when(c.cycle("ds")), ops.take(12))


@scen("buffer_toggle", srcs=("s", "b"), gen=lambda r, c: {"ds": [r.choice(D) for _ in range(3)]})
def _buffer_toggle(c: Ctx) -> Any:
    return c.s().pipe(ops.buffer_toggle(c.s("b"), c.cycle("ds")))


@scen("window_toggle", srcs=("s", "b"), gen=lambda r, c: {"ds": [r.choice(D) for _ in range(3)]})
def _window_toggle(c: Ctx) -> Any:
    return c.s().pipe(ops.window_toggle(c.s("b"), c.cycle("ds")))


# ---------------------------------------------------------------------------------- rate limiting

@scen("debounce", gen=lambda r, c: {"d": r.choice([3, 5, 7, 10])})
def _debounce(c: Ctx) -> Any:
    return c.s().pipe(ops.debounce(c.P["d"], scheduler=c.ts))


@scen("throttle_with_mapper", gen=lambda r, c: {"ds": [r.choice([3, 5, 7, 10]) for _ in range(3)]})
def _throttle_with_mapper(c: Ctx) -> Any:
    return c.s().pipe(ops.throttle_with_mapper(c.cycle("ds")))


@scen("throttle_first", gen=lambda r, c: {"d": r.choice([3, 5, 7, 10, 20])})
def _throttle_first(c: Ctx) -> Any:
    return c.s().pipe(ops.throttle_first(c.P["d"], scheduler=c.ts))


@scen("sample", gen=lambda r, c: {"d": r.choice([4, 5, 7, 10, 20])})
def _sample(c: Ctx) -> Any:
    return c.s().pipe(ops.sample(c.P["d"], scheduler=c.ts), ops.take_until_with_time(300, scheduler=c.ts))


@scen("sample_observable", srcs=("s", "b"))
def _sample_obs(c: Ctx) -> Any:
    return c.s().pipe(ops.sample(c.s("b")))


@scen("take_last_with_time", gen=lambda r, c: {"d": r.choice([5, 10, 20, 40])})
def _take_last_with_time(c: Ctx) -> Any:
    return c.s().pipe(ops.take_last_with_time(c.P["d"], scheduler=c.ts))


@scen("skip_last_with_time", gen=lambda r, c: {"d": r.choice([5, 10, 20])})
def _skip_last_with_time(c: Ctx) -> Any:
    return c.s().pipe(ops.skip_last_with_time(c.P["d"], scheduler=c.ts))


@scen("take_until", srcs=("s", "b"))
def _take_until(c: Ctx) -> Any:
    return c.s().pipe(ops.take_until(c.s("b")))


@scen("skip_until", srcs=("s", "b"))
def _skip_until(c: Ctx) -> Any:
    return c.s().pipe(ops.skip_until(c.s("b")))


@scen("timeout_with_mapper", gen=lambda r, c: {"ds": [r.choice([10, 15, 20]) for _ in range(3)], "first": r.choice([10, 20])},
      srcs=("s", "o"))
def _timeout_with_mapper(c: Ctx) -> Any:
    return c.s().pipe(ops.timeout_with_mapper(c.timer(c.P["first"]), c.cycle("ds"), c.s("o")))


# ---------------------------------------------------------------------------------- pass-through operators

PASS: dict[str, Callable[[Ctx], Any]] = {
    "as_observable": lambda c: ops.as_observable(),
    "do_action": lambda c: ops.do_action(lambda x: None),
    "finally_action": lambda c: ops.finally_action(lambda: None),
    "subscribe_on": lambda c: ops.subscribe_on(c.ts),
    "delay_subscription": lambda c: ops.delay_subscription(5, scheduler=c.ts),
    "take_with_time": lambda c: ops.take_with_time(500, scheduler=c.ts),
    "skip_with_time": lambda c: ops.skip_with_time(7, scheduler=c.ts),
    "take_until_with_time": lambda c: ops.take_until_with_time(500, scheduler=c.ts),
    "skip_until_with_time": lambda c: ops.skip_until_with_time(7, scheduler=c.ts),
    "timeout": lambda c: ops.timeout(500, scheduler=c.ts),
    "retry": lambda c: ops.retry(2),
    "repeat": lambda c: ops.repeat(2),
    "catch": lambda c: ops.catch(lambda e, src: rx.of(c.mv("alt"))),
    "on_error_resume_next": lambda c: ops.on_error_resume_next(rx.of(c.mv("alt"))),
    "share": lambda c: ops.share(),
    "publish_ref_count": lambda c: rx.compose(ops.publish(), ops.ref_count()),
    "flat_map": lambda c: ops.flat_map(lambda x: rx.of(x, x)),
    "concat_map": lambda c: ops.concat_map(lambda x: rx.of(x, x)),
    "switch_map": lambda c: ops.switch_map(lambda x: rx.return_value(x)),
    "flat_map_latest": lambda c: ops.flat_map_latest(lambda x: rx.return_value(x)),
    "expand": lambda c: rx.compose(ops.take(3), ops.expand(lambda x: rx.empty() if isinstance(x, tuple) and len(x) == 2 and x[0] == "again" else rx.of(("again", x)))),
    "ignore_then_default": lambda c: rx.compose(ops.ignore_elements(), ops.default_if_empty(c.mv("alt"))),
}


def _mk_pass(name: str) -> None:
    @scen(name, gen=lambda r, c: {"alt": gen_val(r, p_falsy=0.9)})
    def _p(c: Ctx) -> Any:
        return c.s().pipe(PASS[name](c))


for _n in PASS:
    _mk_pass(_n)


# ---------------------------------------------------------------------------------- several sources

def _nsrc(k: int) -> tuple:
    return tuple("s%d" % i for i in range(k))


def _all(c: Ctx) -> list:
    return [c.s(s["name"]) for s in c.case["srcs"]]


@scen("zip", srcs=_nsrc(3), maxlen=4)
def _zip(c: Ctx) -> Any:
    return rx.zip(*_all(c))


@scen("zip_op", srcs=_nsrc(2), maxlen=4)
def _zip_op(c: Ctx) -> Any:
    xs = _all(c)
    return xs[0].pipe(ops.zip(xs[1]))


@scen("zip_with_iterable", gen=lambda r, c: {"items": [gen_val(r) for _ in range(r.randint(0, 5))]})
def _zip_with_iterable(c: Ctx) -> Any:
    return c.s().pipe(ops.zip_with_iterable(c.mlist("items")))


@scen("combine_latest", srcs=_nsrc(3), maxlen=3, minlen=1)
def _combine_latest(c: Ctx) -> Any:
    return rx.combine_latest(*_all(c))


@scen("combine_latest_op", srcs=_nsrc(2), maxlen=4)
def _combine_latest_op(c: Ctx) -> Any:
    xs = _all(c)
    return xs[0].pipe(ops.combine_latest(xs[1]))


@scen("with_latest_from", srcs=_nsrc(3), maxlen=4, minlen=1)
def _with_latest_from(c: Ctx) -> Any:
    xs = _all(c)
    return xs[0].pipe(ops.with_latest_from(*xs[1:]))


@scen("with_latest_from_factory", srcs=_nsrc(2), maxlen=4)
def _with_latest_from2(c: Ctx) -> Any:
    xs = _all(c)
    return rx.with_latest_from(xs[0], xs[1])


@scen("fork_join", srcs=_nsrc(3), maxlen=3, minlen=1, term=["C"] * 9 + ["E", None])
def _fork_join(c: Ctx) -> Any:
    return rx.fork_join(*_all(c))


@scen("fork_join_op", srcs=_nsrc(2), maxlen=3, minlen=1, term=["C"] * 9 + ["E", None])
def _fork_join_op(c: Ctx) -> Any:
    xs = _all(c)
    return xs[0].pipe(ops.fork_join(xs[1]))


@scen("merge", srcs=_nsrc(3), maxlen=4)
def _merge(c: Ctx) -> Any:
    return rx.merge(*_all(c))


@scen("merge_op_max_concurrent", srcs=_nsrc(3), maxlen=4, gen=lambda r, c: {"max": r.choice([1, 2])})
def _merge_op(c: Ctx) -> Any:
    return rx.from_iterable(_all(c)).pipe(ops.merge(max_concurrent=c.P["max"]))


@scen("merge_all", srcs=_nsrc(3), maxlen=4)
def _merge_all(c: Ctx) -> Any:
    return rx.from_iterable(_all(c)).pipe(ops.merge_all())


@scen("concat", srcs=_nsrc(3), maxlen=3)
def _concat(c: Ctx) -> Any:
    return rx.concat(*_all(c))


@scen("concat_op", srcs=_nsrc(2), maxlen=4)
def _concat_op(c: Ctx) -> Any:
    xs = _all(c)
    return xs[0].pipe(ops.concat(xs[1]))


@scen("amb", srcs=_nsrc(2), maxlen=4)
def _amb(c: Ctx) -> Any:
    xs = _all(c)
    return xs[0].pipe(ops.amb(xs[1]))


def _gen_switch(r: Any, c: dict) -> dict:
    t = 0
    outer = []
    for i in range(len(c["srcs"])):
        t += r.choice((0, 5, 10, 20, 30))
        outer.append((t, i))
    return {"outer": outer, "outer_completes": r.random() < 0.8}


def _outer(c: Ctx) -> Any:
    xs = _all(c)
    msgs = [(t, "N", i) for (t, i) in c.P["outer"]]
    if c.P["outer_completes"]:
        msgs.append((msgs[-1][0] + 5, "C", None))
    return c.lab.cold("outer", msgs).pipe(ops.map(lambda i: xs[i]))


@scen("switch_latest", srcs=_nsrc(3), maxlen=4, gen=_gen_switch, cold=True)
def _switch_latest(c: Ctx) -> Any:
    return _outer(c).pipe(ops.switch_latest())


@scen("exclusive", srcs=_nsrc(3), maxlen=4, gen=_gen_switch, cold=True)
def _exclusive(c: Ctx) -> Any:
    return _outer(c).pipe(ops.exclusive())


@scen("join", srcs=_nsrc(2), maxlen=4, gen=lambda r, c: {"l": [r.choice(D) for _ in range(3)], "r": [r.choice(D) for _ in range(3)]})
def _join(c: Ctx) -> Any:
    xs = _all(c)
    return xs[0].pipe(ops.join(xs[1], c.cycle("l"), c.cycle("r")))


@scen("group_join", srcs=_nsrc(2), maxlen=4, gen=lambda r, c: {"l": [r.choice(D) for _ in range(3)], "r": [r.choice(D) for _ in range(3)]})
def _group_join(c: Ctx) -> Any:
    xs = _all(c)
    return xs[0].pipe(ops.group_join(xs[1], c.cycle("l"), c.cycle("r")), ops.flat_map(lambda p: p[1].pipe(ops.map(lambda y: (p[0], y)))))


# ---------------------------------------------------------------------------------- grouping (falsy keys)

@scen("group_by", eq=True, hashable=True)
def _group_by(c: Ctx) -> Any:
    return c.s().pipe(ops.group_by(lambda x: x))


@scen("group_by_element_mapper", eq=True, hashable=True)
def _group_by_elem(c: Ctx) -> Any:
    return c.s().pipe(ops.group_by(lambda x: x, lambda x: (x,)))


@scen("group_by_until", eq=True, hashable=True, gen=lambda r, c: {"ds": [r.choice([5, 10, 20, 40]) for _ in range(3)]})
def _group_by_until(c: Ctx) -> Any:
    return c.s().pipe(ops.group_by_until(lambda x: x, None, c.cycle("ds")))


@scen("partition")
def _partition(c: Ctx) -> Any:
    def pred(x: Any) -> bool:      # the user's predicate looks at the value the payload stands for
        return not (x.orig if isinstance(x, Tok) else x)
    a, b = c.s().pipe(ops.publish(), ops.ref_count(), ops.partition(pred))
    return rx.merge(a.pipe(ops.map(lambda x: ("a", x))), b.pipe(ops.map(lambda x: ("b", x))))


# ---------------------------------------------------------------------------------- connectables

def _gen_conn(r: Any, c: dict) -> dict:
    return {"n": r.choice([None, None, 1, 2, 3]), "w": r.choice([None, None, 10, 20]),
            "connect": SUB_AT + r.choice([0, 5]), "subs": sorted(SUB_AT + r.choice([0, 3, 10, 20, 40, 80, 150]) for _ in range(3)),
            "init": gen_val(r, p_falsy=0.95)}


def _conn_setup(c: Ctx, conn: Any) -> None:
    c.lab.at(c.P["connect"], conn.connect)
    for i, t in enumerate(c.P["subs"]):
        o = c.lab.observer("o%d" % i)
        c.lab.at(t, lambda o=o: o.subscribe_to(conn))


@scen("replay", gen=_gen_conn, custom=True)
def _replay(c: Ctx) -> None:
    _conn_setup(c, c.s().pipe(ops.replay(buffer_size=c.P["n"], window=c.P["w"], scheduler=c.ts)))


@scen("publish_value", gen=_gen_conn, custom=True)
def _publish_value(c: Ctx) -> None:
    _conn_setup(c, c.s().pipe(ops.publish_value(c.mv("init"))))


@scen("replay_mapper", gen=_gen_conn)
def _replay_mapper(c: Ctx) -> Any:
    return c.s().pipe(ops.replay(mapper=lambda o: rx.concat(o, o), buffer_size=c.P["n"], scheduler=c.ts))


@scen("share_two_subscribers", gen=_gen_conn, custom=True)
def _share2(c: Ctx) -> None:
    sh = c.s().pipe(ops.share())
    for i, t in enumerate(c.P["subs"][:2]):
        o = c.lab.observer("o%d" % i)
        c.lab.at(t, lambda o=o: o.subscribe_to(sh))


# ---------------------------------------------------------------------------------- subjects

def _gen_script(r: Any, c: dict) -> dict:
    t = SUB_AT
    acts: list = [(t, "sub", 0)] if r.random() < 0.6 else []
    nsub = len(acts)
    for _ in range(r.randint(1, 7)):
        t += r.choice((0, 5, 5, 10, 20))
        x = r.random()
        if x < 0.6:
            acts.append((t, "next", gen_val(r, p_falsy=0.85)))
        elif x < 0.85 and nsub < 4:
            acts.append((t, "sub", nsub))
            nsub += 1
        else:
            acts.append((t, "read", None))
    end = r.choice(["completed", "completed", "error", None])
    if end:
        t += r.choice((0, 5, 10))
        acts.append((t, end, SrcErr("subject@%s" % t) if end == "error" else None))
        if r.random() < 0.3:
            acts.append((t + 1, "next", gen_val(r)))
    for _ in range(r.randint(0, 2)):
        if nsub < 5:
            t += r.choice((0, 5, 30))
            acts.append((t, "sub", nsub))
            nsub += 1
    acts.append((t + 1, "read", None))
    return {"script": acts, "init": gen_val(r, p_falsy=0.95), "n": r.choice([None, None, 1, 2, 3]),
            "w": r.choice([None, None, None, 10, 20])}


def _play(c: Ctx, subj: Any, readable: bool) -> None:
    lab = c.lab

    def act(kind: str, arg: Any) -> Callable[[], None]:
        def run() -> None:
            if kind == "next":
                subj.on_next(c.feed(arg))
            elif kind == "sub":
                lab.observer("o%d" % arg, inner=False).subscribe_to(subj)
            elif kind == "completed":
                subj.on_completed()
            elif kind == "error":
                subj.on_error(arg)
            elif kind == "read" and readable:
                c.extra("value", subj.value)
                if hasattr(subj, "has_value"):
                    c.extra("has_value", subj.has_value)
        return run
    for (t, kind, arg) in c.P["script"]:
        lab.at(t, act(kind, arg))


@scen("Subject", srcs=(), gen=_gen_script, custom=True)
def _subject(c: Ctx) -> None:
    _play(c, Subject(), False)


@scen("BehaviorSubject", srcs=(), gen=_gen_script, custom=True)
def _behavior(c: Ctx) -> None:
    _play(c, BehaviorSubject(c.mv("init")), True)


@scen("ReplaySubject", srcs=(), gen=_gen_script, custom=True)
def _replaysubject(c: Ctx) -> None:
    _play(c, ReplaySubject(c.P["n"], c.P["w"], c.ts), False)


@scen("AsyncSubject", srcs=(), gen=_gen_script, custom=True)
def _asyncsubject(c: Ctx) -> None:
    _play(c, AsyncSubject(), True)


# ---------------------------------------------------------------------------------- factories

def _gen_items(r: Any, c: dict) -> dict:
    return {"items": [gen_val(r, p_falsy=0.85) for _ in range(r.randint(1, 5))], "n": r.choice([1, 2, 3])}


@scen("from_iterable", srcs=(), gen=_gen_items)
def _from_iterable(c: Ctx) -> Any:
    return rx.from_iterable(c.mlist("items"))


@scen("from_", srcs=(), gen=_gen_items)
def _from(c: Ctx) -> Any:
    return rx.from_(tuple(c.mlist("items")), scheduler=c.ts)


@scen("of", srcs=(), gen=_gen_items)
def _of(c: Ctx) -> Any:
    return rx.of(*c.mlist("items"))


@scen("return_value", srcs=(), gen=_gen_items)
def _return_value(c: Ctx) -> Any:
    return rx.return_value(c.mlist("items")[0], scheduler=c.ts)


@scen("just", srcs=(), gen=_gen_items)
def _just(c: Ctx) -> Any:
    return rx.just(c.mlist("items")[0])


@scen("repeat_value", srcs=(), gen=_gen_items)
def _repeat_value(c: Ctx) -> Any:
    return rx.repeat_value(c.mlist("items")[0], c.P["n"])


@scen("repeat_value_infinite_take", srcs=(), gen=_gen_items)
def _repeat_value_inf(c: Ctx) -> Any:
    return rx.repeat_value(c.mlist("items")[0]).pipe(ops.take(c.P["n"]))


@scen("start", srcs=(), gen=_gen_items)
def _start(c: Ctx) -> Any:
    return rx.start(lambda: c.mlist("items")[0], c.ts)


@scen("from_callable", srcs=(), gen=_gen_items)
def _from_callable(c: Ctx) -> Any:
    return rx.from_callable(lambda: c.mlist("items")[0], c.ts)


@scen("to_async", srcs=(), gen=_gen_items)
def _to_async(c: Ctx) -> Any:
    return rx.to_async(lambda x: x, c.ts)(c.mlist("items")[0])


@scen("from_future", srcs=(), gen=_gen_items)
def _from_future(c: Ctx) -> Any:
    f: concurrent.futures.Future = concurrent.futures.Future()
    f.set_result(c.mlist("items")[0])
    return rx.from_future(f)       # type: ignore[arg-type]


@scen("from_callback", srcs=(), gen=_gen_items)
def _from_callback(c: Ctx) -> Any:
    return rx.from_callback(lambda x, cb: cb(x))(c.mlist("items")[0])


@scen("generate", srcs=(), gen=_gen_items)
def _generate(c: Ctx) -> Any:
    items = c.mlist("items")
    pos = [0]

    def iterate(_: Any) -> Any:        # value-independent: walks the item list
        pos[0] += 1
        return items[pos[0]] if pos[0] < len(items) else None
    return rx.generate(items[0], lambda _: pos[0] < len(items), iterate)


@scen("case", srcs=(), gen=lambda r, c: {"items": [gen_val(r, True, 0.85) for _ in range(r.randint(1, 5))]}, eq=True, hashable=True)
def _case(c: Ctx) -> Any:
    items = c.mlist("items")
    table = {}
    for it in items:
        table.setdefault(it, rx.return_value(it))
    return rx.case(lambda: items[-1], table, rx.return_value("default-source-taken"))


@scen("from_marbles", srcs=(), gen=_gen_items)
def _from_marbles(c: Ctx) -> Any:
    items = c.mlist("items")
    names = "abcdefgh"
    s = "-".join(names[i] for i in range(len(items))) + "-|"
    return rx.from_marbles(s, timespan=1.0, scheduler=c.ts, lookup={names[i]: v for i, v in enumerate(items)})


@scen("notification_accept_to_observable", srcs=(), gen=_gen_items, custom=True)
def _notification(c: Ctx) -> None:
    from reactivex.notification import OnNext, from_notifier
    items = c.mlist("items")
    o1 = c.lab.observer("accept")
    o2 = c.lab.observer("to_observable")
    o3 = c.lab.observer("callbacks")

    def go() -> None:
        for it in items:
            OnNext(it).accept(o1)
            OnNext(it).accept(o3.on_next, o3.on_error, o3.on_completed)
        o2.subscribe_to(OnNext(items[0]).to_observable(c.ts))
        got: list = []
        obs = from_notifier(got.append)
        obs.on_next(items[-1])
        c.extra("from_notifier", got)
        c.extra("equals_same", OnNext(items[0]).equals(OnNext(items[0])))
    c.lab.at(SUB_AT, go)


# ---------------------------------------------------------------------------------- futures (synchronous part)

def _gen_future(r: Any, c: dict) -> dict:
    return {"ctor": r.choice(["default", "concurrent", "loop"])}


@scen("to_future", gen=_gen_future, custom=True)
def _to_future(c: Ctx) -> None:
    src = c.s()
    loop = asyncio.new_event_loop() if c.P["ctor"] == "loop" else None
    box: dict = {}

    def go() -> None:
        if c.P["ctor"] == "concurrent":
            box["f"] = src.pipe(ops.to_future(concurrent.futures.Future))    # type: ignore[arg-type]
        elif loop is not None:
            box["f"] = src.pipe(ops.to_future(loop.create_future))
        else:
            import warnings
            with warnings.catch_warnings():
                warnings.simplefilter("ignore")
                box["f"] = src.pipe(ops.to_future())

    def read() -> None:
        f = box.get("f")
        if f is None:
            return
        if not f.done():
            c.extra("future", "pending")
        elif f.cancelled():
            c.extra("future", "cancelled")
        elif f.exception() is not None:
            c.extra("future_error", f.exception())
        else:
            c.extra("future_result", f.result())
        if loop is not None:
            loop.close()
    c.lab.at(SUB_AT, go)
    c.lab.at(SUB_AT + 2000, read)
