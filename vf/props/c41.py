"""C41 Future, callback and blocking bridges keep their contracts.

Contract table (from the statement / DESIGN.md section C41), one generated case = one bridge exercised once:

  from_future (asyncio / concurrent.futures / via start_async)
        result v -> [N v, C]; exception e -> [E e]; cancelled -> [E CancelledError]; unsubscribed first -> future.cancelled()
        and the unsubscribed observer receives nothing
  to_future / await / run()
        C after elements -> last element (type-strict, falsy included); E e -> raises e (same object);
        C without elements -> SequenceContainsNoElementsError; (to_future only) no terminal -> future not done
  start / to_async (scheduler = the lab's TestScheduler)
        function invoked once per call of the async function with the given arguments; every subscriber (early or
        late) receives [N result, C] or [E exc]
  from_callback
        per subscription: the function is invoked once with (*args, callback); exactly one N -- the single callback
        argument, the list of callback arguments (>= 2), or the mapper's result -- then C

asyncio futures live on a private event loop (asyncio.new_event_loop(), never the global loop) that is run to
completion inside the case; run() is executed with its default NewThreadScheduler in real threads and is judged on
returned / raised values only (a watchdog firing is inconclusive).
"""
from __future__ import annotations

import asyncio
import concurrent.futures as cf
import threading
import warnings
from typing import Any

import reactivex as rx
import reactivex.operators as ops
from reactivex import Observable
from reactivex.disposable import Disposable
from reactivex.internal.exceptions import SequenceContainsNoElementsError
from reactivex.run import run as run_function

from ..common import UnitResult, case_rng, chunks, show, strict
from ..vlab import Injected, Lab, SrcErr, gen_value

ID = "C41"
LEVEL = "exploration"
RULE = ("case idx -> bridge idx mod 9 (from_future on asyncio futures, from_future on concurrent.futures, start_async, "
        "to_future, await, run(), start, to_async, from_callback); seeded parameters: future outcome (result / exception / "
        "cancel / unsubscribe first) x settled before or after subscribe x 1..2 subscribers; element lists of 0..5 values "
        "from the falsy-heavy domain with a forced falsy last element in a third of the cases, ending in C, E or (to_future) "
        "never, delivered synchronously, through the scheduler, through loop.call_soon or from another thread; functions "
        "returning/raising; callback argument lists of length 1..3, with/without mapper, callback invoked inside the function "
        "or later, 1..3 subscriptions; non-trivial = every case (each has a decided outcome); distinct = digest of the parameters")
ASSUMPTIONS = ["asyncio event loop and concurrent.futures.Future are trusted",
               "probe observers / synchronous probe sources are harness code",
               "run(): real threads (NewThreadScheduler); only the returned / raised value is judged, a 30 s watchdog => inconclusive"]
CASES = {"quick": 3600, "thorough": 90000}
BRIDGES = ["from_future_asyncio", "from_future_concurrent", "start_async", "to_future", "await", "run", "start", "to_async",
           "from_callback"]
REQUIRED = {
    "set:bridges": len(BRIDGES),
    "falsy_last_element_cases": {"quick": 150, "thorough": 4000},
    "empty_sequence_cases": {"quick": 60, "thorough": 1500},
    "error_sequence_cases": {"quick": 100, "thorough": 3000},
    "future_unsubscribed_first": {"quick": 60, "thorough": 1500},
    "future_cancelled": {"quick": 60, "thorough": 1500},
    "from_callback_mapper_cases": {"quick": 100, "thorough": 2500},
    "from_callback_resubscriptions": {"quick": 100, "thorough": 2500},
    "run_calls_returned": {"quick": 300, "thorough": 8000},
}
FALSY_LAST = [0, None, "", False, 0.0, (), []]
WATCHDOG = 30.0


class FalsyErr(Exception):
    """an exception object whose truth value is False (e.g. an exception that is also an empty container)"""

    def __bool__(self) -> bool:
        return False


def is_cancelled_error(e: Any) -> bool:
    return isinstance(e, (asyncio.CancelledError, cf.CancelledError))


# ---------------------------------------------------------------------------------- small helpers

def drain(loop: asyncio.AbstractEventLoop, rounds: int = 4) -> None:
    async def _d() -> None:
        for _ in range(rounds):
            await asyncio.sleep(0)
    loop.run_until_complete(_d())


def close_loop(loop: asyncio.AbstractEventLoop) -> None:
    try:
        drain(loop, 2)
    finally:
        loop.close()


def gen_seq(r: Any, allow_never: bool = False) -> dict:
    n = r.choice([0, 0, 1, 1, 2, 3, 5])
    vals = [gen_value(r, "falsy") for _ in range(n)]
    if vals and r.random() < 0.4:
        v = r.choice(FALSY_LAST)
        vals[-1] = type(v)() if isinstance(v, list) else v
    end = r.choice(["C", "C", "C", "E"] + (["never"] if allow_never else []))
    falsy_exc = end == "E" and r.random() < 0.15
    return {"vals": vals, "end": end, "falsy_exc": falsy_exc}


def seq_error(seq: dict) -> Exception | None:
    if seq["end"] != "E":
        return None
    return FalsyErr("falsy error") if seq["falsy_exc"] else SrcErr("src error")


def seq_msgs(seq: dict, err: Exception | None, step: float = 10.0) -> list:
    msgs = [((i + 1) * step, "N", v) for i, v in enumerate(seq["vals"])]
    t = (len(seq["vals"]) + 1) * step
    if seq["end"] == "C":
        msgs.append((t, "C", None))
    elif seq["end"] == "E":
        msgs.append((t, "E", err))
    return msgs


def expected_outcome(seq: dict, err: Exception | None) -> tuple:
    """('value', v) | ('raise', exc_or_class) | ('pending',)"""
    if seq["end"] == "never":
        return ("pending",)
    if seq["end"] == "E":
        return ("raise", err)
    if not seq["vals"]:
        return ("raise", SequenceContainsNoElementsError)
    return ("value", seq["vals"][-1])


def outcome_matches(exp: tuple, got: tuple) -> str | None:
    if exp[0] != got[0]:
        return "expected %s, observed %s" % (show_outcome(exp), show_outcome(got))
    if exp[0] == "value" and strict(exp[1]) != strict(got[1]):
        return "expected value %r (%s), observed %r (%s)" % (exp[1], type(exp[1]).__name__, got[1], type(got[1]).__name__)
    if exp[0] == "raise":
        if isinstance(exp[1], type):
            if not isinstance(got[1], exp[1]):
                return "expected a %s, observed %r" % (exp[1].__name__, got[1])
        elif exp[1] is not got[1]:
            return "expected the sequence's error object %r, observed %r" % (exp[1], got[1])
    return None


def show_outcome(o: tuple) -> Any:
    if o[0] == "value":
        return {"returns": show(o[1]), "type": type(o[1]).__name__}
    if o[0] == "raise":
        return {"raises": o[1].__name__ if isinstance(o[1], type) else show(o[1])}
    return o[0]


def count_seq(res: UnitResult, seq: dict) -> None:
    if seq["end"] == "E":
        res.count("error_sequence_cases")
        if seq["falsy_exc"]:
            res.count("falsy_exception_cases")
    elif seq["end"] == "C" and not seq["vals"]:
        res.count("empty_sequence_cases")
    elif seq["end"] == "C" and not seq["vals"][-1]:
        res.count("falsy_last_element_cases")
        res.note("falsy_last_values", repr(seq["vals"][-1]))


def trace_of(obs: Any) -> list:
    return [(k, v) for (k, v, _t, _s) in obs.recv]


def show_trace(tr: list) -> list:
    return [[k, show(v)] for (k, v) in tr]


def trace_matches(exp: list, got: list) -> str | None:
    """exp items: ('N', value) strict; ('E', exc object | class | predicate); ('C', None)"""
    if len(exp) != len(got):
        return "expected %d notifications, observed %d" % (len(exp), len(got))
    for i, (e, g) in enumerate(zip(exp, got)):
        if e[0] != g[0]:
            return "item %d: expected %s, observed %s" % (i, e[0], g[0])
        if e[0] == "N" and strict(e[1]) != strict(g[1]):
            return "item %d: expected value %r, observed %r" % (i, e[1], g[1])
        if e[0] == "E":
            x = e[1]
            if isinstance(x, type):
                ok = isinstance(g[1], x)
            elif callable(x) and not isinstance(x, BaseException):
                ok = bool(x(g[1]))
            else:
                ok = x is g[1]
            if not ok:
                return "item %d: unexpected error %r" % (i, g[1])
    return None


def show_exp(exp: list) -> list:
    out = []
    for (k, v) in exp:
        if k == "E" and not isinstance(v, BaseException):
            out.append([k, getattr(v, "__name__", "CancelledError")])
        else:
            out.append([k, show(v)])
    return out


class LoopSource(Observable):
    """Emits each message in its own loop.call_soon callback (asynchronous producer on the private loop)."""

    def __init__(self, loop: asyncio.AbstractEventLoop, msgs: list) -> None:
        super().__init__()
        self.loop, self.msgs = loop, msgs

    def _subscribe_core(self, observer: Any, scheduler: Any = None) -> Any:
        state = {"i": 0, "disposed": False}

        def step() -> None:
            if state["disposed"] or state["i"] >= len(self.msgs):
                return
            (_t, k, v) = self.msgs[state["i"]]
            state["i"] += 1
            if k == "N":
                observer.on_next(v)
                self.loop.call_soon(step)
            elif k == "E":
                observer.on_error(v)
            else:
                observer.on_completed()
        self.loop.call_soon(step)

        def dispose() -> None:
            state["disposed"] = True
        return Disposable(dispose)


class ThreadSource(Observable):
    """Emits all messages from a fresh thread."""

    def __init__(self, msgs: list) -> None:
        super().__init__()
        self.msgs = msgs

    def _subscribe_core(self, observer: Any, scheduler: Any = None) -> Any:
        def work() -> None:
            for (_t, k, v) in self.msgs:
                if k == "N":
                    observer.on_next(v)
                elif k == "E":
                    observer.on_error(v)
                else:
                    observer.on_completed()
        threading.Thread(target=work, daemon=True).start()
        return Disposable()


# ---------------------------------------------------------------------------------- bridges

def case_from_future(r: Any, kind: str, res: UnitResult, viol: Any) -> dict:
    outcome = r.choice(["result", "result", "exception", "cancel", "unsub_first"])
    when = r.choice(["before", "after"]) if outcome != "unsub_first" else "after"
    nsubs = r.choice([1, 1, 2])
    v = gen_value(r, "falsy")
    exc = SrcErr("future failed")
    via = "start_async" if kind == "start_async" else "from_future"
    flavour = r.choice(["asyncio", "concurrent"]) if kind == "start_async" else ("asyncio" if kind == "from_future_asyncio" else "concurrent")
    factory_raises = kind == "start_async" and r.random() < 0.15
    P = {"bridge": kind, "future": flavour, "outcome": outcome, "when": when, "subscribers": nsubs, "value": show(v),
         "factory_raises": factory_raises}
    loop = asyncio.new_event_loop() if flavour == "asyncio" else None
    try:
        fut: Any = loop.create_future() if loop is not None else cf.Future()
        lab = Lab()
        obs = [lab.observer("o%d" % i) for i in range(nsubs)]

        def settle() -> None:
            if outcome == "result":
                fut.set_result(v)
            elif outcome == "exception":
                fut.set_exception(exc)
            elif outcome == "cancel":
                fut.cancel()

        if via == "start_async":
            boom = Injected("factory")

            def factory() -> Any:
                if factory_raises:
                    raise boom
                return fut
            src = rx.start_async(factory)
        else:
            src = rx.from_future(fut)
        if when == "before":
            settle()
        for o in obs:
            o.subscribe_to(src)
        cancelled_after_unsub = None
        if outcome == "unsub_first" and not factory_raises:
            obs[0].dispose()
            cancelled_after_unsub = fut.cancelled()
            try:
                fut.set_result(v)       # the producer finishing late must not reach anybody
            except Exception:
                pass
        if when == "after":
            settle()
        if loop is not None:
            drain(loop)
        lab.run()
        if factory_raises:
            exp_all = [[("E", boom)] for _ in obs]
        elif outcome == "result":
            exp_all = [[("N", v), ("C", None)] for _ in obs]
        elif outcome == "exception":
            exp_all = [[("E", exc)] for _ in obs]
        elif outcome == "cancel":
            exp_all = [[("E", is_cancelled_error)] for _ in obs]
        else:
            exp_all = [[]] + [[("E", is_cancelled_error)] for _ in obs[1:]]
        if outcome == "cancel":
            res.count("future_cancelled")
        if outcome == "unsub_first" and not factory_raises:
            res.count("future_unsubscribed_first")
            if cancelled_after_unsub is not True:
                viol("C41:%s:unsubscribe-does-not-cancel" % via, "future.cancelled() is %r after the only/first subscriber unsubscribed" % (cancelled_after_unsub,), P)
        if outcome == "result" and not v:
            res.count("falsy_future_results")
        for o, exp in zip(obs, exp_all):
            why = trace_matches(exp, trace_of(o))
            if why is not None:
                viol("C41:%s:%s" % (via, outcome), why, dict(P, observer=o.name, expected=show_exp(exp), observed=show_trace(trace_of(o))))
        P["observed"] = [show_trace(trace_of(o)) for o in obs]
    finally:
        if loop is not None:
            close_loop(loop)
    return P


def case_to_future(r: Any, res: UnitResult, viol: Any) -> dict:
    seq = gen_seq(r, allow_never=True)
    err = seq_error(seq)
    ctor = r.choice(["asyncio_ctor", "concurrent_ctor", "default_in_running_loop"])
    skind = r.choice(["cold", "sync", "hot"])
    P = {"bridge": "to_future", "ctor": ctor, "source": skind, "values": show(seq["vals"]), "end": seq["end"],
         "falsy_exception": seq["falsy_exc"]}
    count_seq(res, seq)
    exp = expected_outcome(seq, err)
    lab = Lab()
    msgs = seq_msgs(seq, err)
    src = {"cold": lab.cold, "sync": lab.sync, "hot": lab.hot}[skind]("s", msgs)

    def read(fut: Any) -> tuple:
        if not fut.done():
            return ("pending",)
        if fut.cancelled():
            return ("cancelled",)
        e = fut.exception()
        if e is not None:
            return ("raise", e)
        return ("value", fut.result())

    if ctor == "concurrent_ctor":
        fut = src.pipe(ops.to_future(cf.Future))     # duck-typed future constructor
        lab.run()
        got = read(fut)
    else:
        loop = asyncio.new_event_loop()
        try:
            if ctor == "asyncio_ctor":
                fut = src.pipe(ops.to_future(loop.create_future))
                lab.run()
                drain(loop)
                got = read(fut)
            else:
                async def main() -> tuple:
                    f = src.pipe(ops.to_future())
                    lab.run()
                    await asyncio.sleep(0)
                    if f.get_loop() is not loop:
                        return ("wrong-loop",)
                    if not f.done():
                        return ("pending",)
                    try:
                        return ("value", await f)
                    except BaseException as e:  # noqa: BLE001 - the future's exception is the observed outcome
                        return ("raise", e)
                got = loop.run_until_complete(main())
        finally:
            close_loop(loop)
    P["expected"], P["observed"] = show_outcome(exp), show_outcome(got)
    why = outcome_matches(exp, got)
    if why is not None:
        viol("C41:to_future:%s" % ("falsy-exception" if seq["falsy_exc"] else exp[0]), why, P)
    return P


def build_real_source(r: Any, seq: dict, err: Exception | None, lab: Lab, loop: Any, kinds: list) -> tuple[str, Any]:
    kind = r.choice(kinds)
    msgs = seq_msgs(seq, err)
    if kind == "sync_probe":
        return kind, lab.sync("s", msgs)
    if kind == "from_iterable":
        base = rx.from_iterable(list(seq["vals"]))
        if seq["end"] == "E":
            return kind, rx.concat(base, rx.throw(err))
        return kind, base
    if kind == "loop_call_soon":
        return kind, LoopSource(loop, msgs)
    if kind == "thread":
        return kind, ThreadSource(msgs)
    if kind == "timer":
        base = rx.from_iterable(list(seq["vals"]))
        if seq["end"] == "E":
            base = rx.concat(base, rx.throw(err))
        return kind, rx.timer(0.002).pipe(ops.flat_map(lambda _: base))
    raise KeyError(kind)


def case_await(r: Any, res: UnitResult, viol: Any) -> dict:
    seq = gen_seq(r)
    err = seq_error(seq)
    count_seq(res, seq)
    exp = expected_outcome(seq, err)
    lab = Lab()
    loop = asyncio.new_event_loop()
    P: dict = {"bridge": "await", "values": show(seq["vals"]), "end": seq["end"], "falsy_exception": seq["falsy_exc"]}
    try:
        skind, src = build_real_source(r, seq, err, lab, loop, ["sync_probe", "from_iterable", "from_iterable", "loop_call_soon", "loop_call_soon"])
        P["source"] = skind

        async def main() -> tuple:
            try:
                return ("value", await src)
            except asyncio.TimeoutError:
                raise
            except BaseException as e:  # noqa: BLE001
                return ("raise", e)

        async def guarded() -> tuple:
            return await asyncio.wait_for(main(), WATCHDOG)
        try:
            got = loop.run_until_complete(guarded())
        except asyncio.TimeoutError:
            res.inconclusive.append("await: wall-clock watchdog fired on %s" % (P,))
            return P
    finally:
        close_loop(loop)
    res.count("await_returned")
    P["expected"], P["observed"] = show_outcome(exp), show_outcome(got)
    why = outcome_matches(exp, got)
    if why is not None:
        viol("C41:await:%s" % ("falsy-exception" if seq["falsy_exc"] else exp[0]), why, P)
    return P


def case_run(r: Any, res: UnitResult, viol: Any) -> dict:
    seq = gen_seq(r)
    err = seq_error(seq)
    count_seq(res, seq)
    exp = expected_outcome(seq, err)
    lab = Lab()
    skind, src = build_real_source(r, seq, err, lab, None, ["sync_probe", "from_iterable", "from_iterable", "from_iterable", "thread", "thread", "timer"])
    P: dict = {"bridge": "run", "source": skind, "values": show(seq["vals"]), "end": seq["end"], "falsy_exception": seq["falsy_exc"],
               "via": r.choice(["method", "function"])}
    box: list = []

    def work() -> None:
        try:
            box.append(("value", src.run() if P["via"] == "method" else run_function(src)))
        except BaseException as e:  # noqa: BLE001 - what run() raises is the observed outcome
            box.append(("raise", e))
    t = threading.Thread(target=work, daemon=True)
    t.start()
    t.join(WATCHDOG)
    if t.is_alive() or not box:
        res.inconclusive.append("run(): wall-clock watchdog fired on %s" % (P,))
        return P
    res.count("run_calls_returned")
    got = box[0]
    P["expected"], P["observed"] = show_outcome(exp), show_outcome(got)
    why = outcome_matches(exp, got)
    if why is not None:
        viol("C41:run:%s" % ("falsy-exception" if seq["falsy_exc"] else exp[0]), why, P)
    return P


def case_start(r: Any, kind: str, res: UnitResult, viol: Any) -> dict:
    raises = r.random() < 0.3
    v = gen_value(r, "falsy")
    nargs = 0 if kind == "start" else r.randint(0, 3)
    ncalls = 1 if kind == "start" else r.choice([1, 1, 2])
    argsets = [[gen_value(r, "falsy") for _ in range(nargs)] for _ in range(ncalls)]
    sub_times = sorted(r.choice([0, 0, 1, 50]) for _ in range(r.choice([1, 2, 3])))
    created_at = r.choice([0, 0, 20])
    P = {"bridge": kind, "function": "raises" if raises else "returns", "value": show(v), "arguments": show(argsets),
         "subscribe_at": sub_times, "created_at": created_at}
    lab = Lab()
    boom = Injected("function failed")

    def impl(*a: Any) -> Any:
        if raises:
            raise boom
        return (v, list(a)) if kind == "to_async" else v
    fn = lab.fn("f", impl)
    sources: list = []
    observers: list = []

    def create() -> None:
        if kind == "start":
            sources.append(rx.start(fn, lab.ts))
        else:
            wrapper = rx.to_async(fn, lab.ts)
            for a in argsets:
                sources.append(wrapper(*a))
        for ci, s in enumerate(sources):
            for si, t in enumerate(sub_times):
                o = lab.observer("call%d/o%d" % (ci, si))
                observers.append((ci, o))
                lab.at(created_at + t, lambda o=o, s=s: o.subscribe_to(s))
    lab.at(created_at, create)
    lab.run()
    calls = [e for e in lab.ev if e[2] == "cb"]
    if len(calls) != len(argsets):
        viol("C41:%s:function-calls" % kind, "function invoked %d times for %d call(s) of the asynchronous function" % (len(calls), len(argsets)), P)
    else:
        for e, a in zip(calls, argsets):
            if strict(list(e[5])) != strict(list(a)):
                viol("C41:%s:function-arguments" % kind, "function invoked with %r, expected %r" % (e[5], a), P)
    if not raises and not v:
        res.count("falsy_function_results")
    res.count("late_subscribers", sum(1 for t in sub_times if t > 0))
    obs_out = []
    for ci, o in observers:
        if raises:
            exp = [("E", boom)]
        else:
            exp = [("N", (v, list(argsets[ci])) if kind == "to_async" else v), ("C", None)]
        why = trace_matches(exp, trace_of(o))
        obs_out.append(show_trace(trace_of(o)))
        if why is not None:
            viol("C41:%s:trace" % kind, why, dict(P, observer=o.name, expected=show_exp(exp), observed=show_trace(trace_of(o))))
    P["observed"] = obs_out[:4]
    return P


def case_from_callback(r: Any, res: UnitResult, viol: Any) -> dict:
    nargs = r.randint(0, 2)                 # arguments of the wrapped function (before the callback)
    args = [gen_value(r, "falsy") for _ in range(nargs)]
    ncb = r.choice([1, 1, 2, 3])            # arguments the function hands to its callback
    cbargs = [gen_value(r, "falsy") for _ in range(ncb)]
    use_mapper = r.random() < 0.45
    deferred = r.random() < 0.4             # the function calls back later (virtual time 30) instead of inside the call
    nsubs = r.choice([1, 1, 2, 3])
    P = {"bridge": "from_callback", "function_args": show(args), "callback_args": show(cbargs), "mapper": use_mapper,
         "callback": "deferred" if deferred else "inside the call", "subscriptions": nsubs}
    lab = Lab()
    calls: list = []

    def func(*a: Any) -> None:
        calls.append(a)
        cb = a[-1]
        if not callable(cb):
            return
        if deferred:
            lab.at(lab.now() + 30, lambda: cb(*cbargs))
        else:
            cb(*cbargs)

    def mapper(*a: Any) -> Any:
        return ("mapped", a)
    src = rx.from_callback(func, mapper if use_mapper else None)(*args)
    obs = [lab.observer("o%d" % i) for i in range(nsubs)]
    for i, o in enumerate(obs):
        lab.at(10 + 100 * i, lambda o=o: o.subscribe_to(src))
    lab.run()
    if use_mapper:
        res.count("from_callback_mapper_cases")
    if nsubs > 1:
        res.count("from_callback_resubscriptions")
    if ncb > 1:
        res.count("from_callback_argument_lists")
    if any(not x for x in cbargs):
        res.count("from_callback_falsy_arguments")
    # function invoked once per subscription with (*args, callback)
    if len(calls) != nsubs:
        viol("C41:from_callback:function-calls", "function invoked %d times for %d subscription(s)" % (len(calls), nsubs), P)
    for k, a in enumerate(calls):
        if len(a) != nargs + 1 or strict(list(a[:nargs])) != strict(list(args)) or not callable(a[-1]):
            viol("C41:from_callback:resubscribe-arguments" if k > 0 else "C41:from_callback:arguments",
                 "subscription #%d invoked the function with %d positional arguments %s; expected the %d given argument(s) plus one callback"
                 % (k + 1, len(a), [show(x) if not callable(x) else "<callback>" for x in a], nargs), P)
            break
    if use_mapper:
        accept = [("mapped", (tuple(cbargs),)), ("mapped", (list(cbargs),)), ("mapped", tuple(cbargs))]
    elif ncb == 1:
        accept = [cbargs[0]]
    else:
        accept = [list(cbargs), tuple(cbargs)]
    outs = []
    for o in obs:
        tr = trace_of(o)
        outs.append(show_trace(tr))
        ok_n = len(tr) >= 1 and tr[0][0] == "N" and any(strict(tr[0][1]) == strict(x) for x in accept)
        if ok_n and len(tr) == 2 and tr[1][0] == "C":
            continue
        if ok_n and len(tr) == 1 and use_mapper:
            viol("C41:from_callback:mapper-no-completion",
                 "with a mapper the value is emitted but the sequence never completes (expected [N, C])",
                 dict(P, observer=o.name, observed=show_trace(tr)))
        else:
            viol("C41:from_callback:trace", "expected exactly one N (one of %s) then C" % (show(accept),),
                 dict(P, observer=o.name, observed=show_trace(tr)))
    P["observed"] = outs
    return P


# ---------------------------------------------------------------------------------- driver

def run_case(seed: int, idx: int, res: UnitResult) -> None:
    r = case_rng(seed, ID, idx)
    bridge = BRIDGES[idx % len(BRIDGES)]
    rep = {"seed": seed, "idx": idx}

    def viol(mech: str, why: str, detail: dict) -> None:
        res.violation(mech, dict(detail, why=why), rep)

    with warnings.catch_warnings():
        warnings.simplefilter("ignore")
        if bridge in ("from_future_asyncio", "from_future_concurrent", "start_async"):
            P = case_from_future(r, bridge, res, viol)
        elif bridge == "to_future":
            P = case_to_future(r, res, viol)
        elif bridge == "await":
            P = case_await(r, res, viol)
        elif bridge == "run":
            P = case_run(r, res, viol)
        elif bridge in ("start", "to_async"):
            P = case_start(r, bridge, res, viol)
        else:
            P = case_from_callback(r, res, viol)
    res.note("bridges", bridge)
    key = {k: v for k, v in P.items() if k not in ("observed", "expected")}
    res.case(key=key, nontrivial=True, sample=P)


def run_unit(unit: dict, res: UnitResult) -> None:
    res.max_samples = 9
    for idx in range(unit["lo"], unit["hi"]):
        run_case(unit["seed"], idx, res)


def units(tier: str, seed: int) -> list[dict]:
    return [{"lo": lo, "hi": hi, "seed": seed} for lo, hi in chunks(CASES[tier], 16 if tier == "quick" else 48)]


def replay(rep: dict, res: UnitResult) -> None:
    run_case(rep["seed"], rep["idx"], res)
