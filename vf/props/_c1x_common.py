"""Private helpers shared by c10..c13 (multi-source checks): source specs, lab set-up, trace rendering,
tie-tolerant comparison of timed notification lists."""
from __future__ import annotations

from typing import Any, Callable

from ..common import show, strict
from ..vlab import Lab, ProbeObserver, ProbeSource, gen_timeline, show_timeline

SUB_AT = 200.0
ACTION_BUDGET = 20000


# ---------------------------------------------------------------------------------- source specs

def gen_source(r: Any, name: str, kind: str | None = None, domain: str = "ints", maxlen: int = 4,
               term: Any = "auto", uniq: list | None = None, min_elems: int = 0,
               kinds: tuple = ("cold", "cold", "cold", "cold", "hot", "sync"), hot_base: float | None = None) -> dict:
    """A source description: {'name', 'kind', 'tl'}; hot timelines are absolute (around SUB_AT)."""
    kind = kind or r.choice(kinds)
    for _ in range(50):
        tl = gen_timeline(r, domain, maxlen=maxlen, term=term, uniq=uniq)
        if sum(1 for m in tl if m[1] == "N") >= min_elems:
            break
    else:
        tl = [(5, "N", 1)] * min_elems + [m for m in tl if m[1] != "N"]
        tl.sort(key=lambda m: m[0])
    if kind == "hot":
        base = (SUB_AT + r.choice([-10, 0, 0, 5, 20])) if hot_base is None else hot_base
        tl = [(base + t, k, v) for (t, k, v) in tl]
    return {"name": name, "kind": kind, "tl": tl}


def build_source(lab: Lab, spec: dict) -> ProbeSource:
    return getattr(lab, spec["kind"])(spec["name"], spec["tl"], nonconf=bool(spec.get("nonconf")))


def show_source(spec: dict) -> dict:
    d = {"name": spec["name"], "kind": spec["kind"], "tl": show_timeline(spec["tl"])}
    if spec.get("nonconf"):
        d["ignores_unsubscribe"] = True
    return d


# ---------------------------------------------------------------------------------- running

def new_lab() -> Lab:
    """Lab whose event log also carries one ('action', n) mark at the start of every scheduler action, and which
    stops the scheduler when a logical action budget is exceeded (bounded work is a logical fact, not a timeout)."""
    lab = Lab("num")
    lab.over_budget = False  # type: ignore[attr-defined]

    def hook(n: int) -> None:
        lab.add("action", n)
        if n > ACTION_BUDGET and not lab.over_budget:  # type: ignore[attr-defined]
            lab.over_budget = True  # type: ignore[attr-defined]
            lab.ts.stop()
    lab.action_hook = hook
    return lab


def run_pipeline(lab: Lab, make: Callable[[], Any], sub_at: float = SUB_AT, with_scheduler: bool = True, immediate: bool = False) -> ProbeObserver:
    """make() builds a FRESH observable inside the subscribing action; it is subscribed exactly once.
    with_scheduler=False: subscribe(observer) without a scheduler argument, so that operators which schedule
    internal steps fall back to their default scheduler (CurrentThreadScheduler trampoline)."""
    top = lab.observer("top", inner=False)

    def do_sub() -> None:
        if immediate:
            # subscribe(observer, scheduler=ImmediateScheduler()): operators that schedule their internal steps on the
            # subscriber's scheduler run them inline, i.e. recursively inside the notification that triggered them
            from reactivex.scheduler import ImmediateScheduler
            top.subscription = make().subscribe(top, scheduler=ImmediateScheduler())
            if top.pending_dispose:
                top.dispose()
        elif with_scheduler:
            top.subscribe_to(make())
        else:
            top.subscription = make().subscribe(top)
            if top.pending_dispose:
                top.dispose()
    lab.at(sub_at, do_sub)
    lab.run()
    return top


def action_end_seq(lab: Lab, seq: int) -> int:
    """seq of the first 'action' mark after event `seq` (= end of the scheduler action containing it)."""
    for e in lab.ev[seq + 1:]:
        if e[2] == "action":
            return e[0]
    return len(lab.ev)


def src_name(v: Any) -> Any:
    return v.name if isinstance(v, ProbeSource) else v


def show_trace(lab: Lab, limit: int = 90) -> list:
    out = []
    for e in lab.ev:
        k = e[2]
        if k == "action":
            continue
        if k in ("sub", "unsub"):
            out.append("%d @%s %s %s#%d" % (e[0], e[1], k, e[3], e[4]))
        elif k == "emit":
            out.append("%d @%s emit %s#%d %s %s" % (e[0], e[1], e[3], e[4], e[5], _short(e[6])))
        elif k == "recv":
            out.append("%d @%s recv %s %s %s" % (e[0], e[1], e[3], e[4], _short(e[5])))
        else:
            out.append("%d @%s %s %s" % (e[0], e[1], k, " ".join(_short(x) for x in e[3:])))
        if len(out) >= limit:
            out.append("...")
            break
    return out


def _short(v: Any) -> str:
    if isinstance(v, ProbeSource):
        return "<src %s>" % v.name
    return str(show(v))[:60]


def show_timed(xs: list) -> list:
    return [[t, k, (v.__name__ if isinstance(v, type) else show(src_name(v)))] for (t, k, v) in xs]


# ---------------------------------------------------------------------------------- comparison

def _same(e: tuple, a: tuple) -> bool:
    if e[1] != a[1] or abs(e[0] - a[0]) > 1e-9:
        return False
    if e[1] == "N":
        return strict(e[2]) == strict(a[2])
    if e[1] == "E":
        return e[2] is None or e[2] is a[2]
    return True


def match_exact(expected: list, actual: list) -> str | None:
    """Both [(t, kind, value)]; errors are compared by identity (expected None = any error)."""
    for i, (e, a) in enumerate(zip(expected, actual)):
        if not _same(e, a):
            return "item %d: expected %s, observed %s" % (i, show_timed([e])[0], show_timed([a])[0])
    if len(expected) != len(actual):
        if len(expected) > len(actual):
            return "missing item %d: expected %s, observed end of output" % (len(actual), show_timed([expected[len(actual)]])[0])
        return "extra item %d: observed %s, expected end of output" % (len(expected), show_timed([actual[len(expected)]])[0])
    return None


def match_same_instant_perm(expected: list, actual: list, owners: list) -> str | None:
    """Weaker comparison used when the exact one fails: the statement fixes values, virtual times and the order *within*
    each producer, not the order between two producers at one instant. expected[i] was produced by owners[i].
    Accepts iff both lists have, per virtual time, the same multiset of notifications, the terminal notification is last,
    and each producer's notifications form a subsequence of the observed list."""
    if len(expected) != len(actual):
        return "length %d != %d" % (len(expected), len(actual))
    for i, a in enumerate(actual):
        if a[1] in "EC" and i != len(actual) - 1:
            return "terminal notification not last"
    if any(actual[i][0] > actual[i + 1][0] for i in range(len(actual) - 1)):
        return "observed times decrease"
    rest = list(actual)
    for e in expected:
        for j, a in enumerate(rest):
            if _same(e, a):
                del rest[j]
                break
        else:
            return "expected %s not in the output at that virtual time" % (show_timed([e])[0],)
    for o in set(owners):
        mine = [e for e, w in zip(expected, owners) if w == o]
        j = 0
        for a in actual:
            if j < len(mine) and _same(mine[j], a):
                j += 1
        if j < len(mine):
            return "notifications of producer %s are not in their original order" % (o,)
    return None
