"""C07 Slicing an observable behaves like slicing a list (exhaustive enumeration inside stated bounds)."""
from __future__ import annotations

from typing import Any

import reactivex.operators as ops

from ..common import UnitResult, case_rng, show
from ..single import SUB_AT, show_timed
from ..vlab import Lab, SrcErr

ID = "C07"
LEVEL = "exploration"
RULE = ("exhaustive enumeration: source = 100, 107, 114, ... (n elements, values differ from their positions); every (n, start, stop, step, form) with n in 0..6 (quick 0..4), "
        "start, stop in {None} u [-8, 8], step in {None, 1..7} (quick {None, 1, 2, 3}), form in source[a:b:c] / "
        "ops.slice(a, b, c) / source.slice(a, b, c), plus source[i] for i in [0, 8] u [-8, -2]; every case is run "
        "against a completing and an error-terminated cold source (thorough: also hot and synchronous sources); "
        "expected = list(range(n))[a:b:c] then completion, error passes through unless the slice is already decided; "
        "non-trivial = n >= 1; distinct = (n, start, stop, step, form); the seed only varies the element spacing")
ASSUMPTIONS = ["reactivex.testing.TestScheduler is used as the clock (its ordering is checked independently by C28)",
               "probe sources are harness code (conforming here)",
               "emission times are not judged (the statement fixes values and termination only)",
               "source[-1] (maps to slice(-1, 0)) is not judged (DESIGN.md section 4 rule 2); it is only counted"]
FORMS = ["getitem", "ops", "fluent"]
NUNITS = {"quick": 16, "thorough": 48}


def space(tier: str) -> dict:
    quick = tier == "quick"
    return {"ns": list(range(0, 5 if quick else 7)),
            "idx": [None] + list(range(-8, 9)),
            "steps": [None, 1, 2, 3] if quick else [None] + list(range(1, 8)),
            "ints": list(range(0, 9)) + list(range(-8, -1)),
            "kinds": ["cold"] if quick else ["cold", "hot", "sync"]}


def n_slice_cases(tier: str) -> int:
    sp = space(tier)
    return len(sp["ns"]) * len(sp["idx"]) ** 2 * len(sp["steps"]) * len(FORMS)


def n_index_cases(tier: str) -> int:
    sp = space(tier)
    return len(sp["ns"]) * len(sp["ints"])


REQUIRED = {"cases_slice": {t: n_slice_cases(t) for t in ("quick", "thorough")},
            "cases_index": {t: n_index_cases(t) for t in ("quick", "thorough")},
            "set:forms": 4, "set:sign_combos": 16,
            "neg_start_nonneg_stop_cases": {"quick": 1000, "thorough": 5000},
            "runs_error_source": {t: n_slice_cases(t) + n_index_cases(t) for t in ("quick", "thorough")},
            "error_source_slice_decided_before_error": 100, "error_source_error_expected": 1000, "reentrant_feed_cases": 2000}


def exhaustive(tier: str) -> bool:
    return True


def enumerate_cases(tier: str) -> Any:
    """Deterministic order; the position in this order is the case index."""
    sp = space(tier)
    for n in sp["ns"]:
        for a in sp["idx"]:
            for b in sp["idx"]:
                for c in sp["steps"]:
                    for form in FORMS:
                        yield {"n": n, "start": a, "stop": b, "step": c, "form": form}
        for i in sp["ints"]:
            yield {"n": n, "i": i, "form": "index"}


def units(tier: str, seed: int) -> list[dict]:
    k = NUNITS[tier]
    return [{"shard": s, "of": k, "tier": tier, "seed": seed} for s in range(k)]


# ---------------------------------------------------------------------------------- oracle (list semantics)

def sign(v: Any) -> str:
    return "none" if v is None else ("neg" if v < 0 else ("zero" if v == 0 else "pos"))


def always_empty(a: Any, b: Any) -> bool:
    """list(xs)[a:b:c] is [] for every xs (so the slice is 'complete' before anything arrives)."""
    if b is None:
        return False
    if b == 0:
        return True
    a0 = 0 if a is None else a
    if a0 >= 0 and b > 0:
        return a0 >= b
    if a0 < 0 and b < 0:
        return a0 >= b
    return False


def VAL(i: int) -> int:
    """the i-th source element (deliberately not equal to its index: an implementation that emits the position is wrong)"""
    return 100 + 7 * i


def expect(case: dict, n: int, term: str) -> dict:
    """Returns {"values": exact list | None, "prefix_of": list | None, "term": set of accepted terminal kinds}."""
    xs = [VAL(i) for i in range(n)]
    if case["form"] == "index":
        i = case["i"]
        a, b, c = i, i + 1, 1
        full = [xs[i]] if -n <= i < n else []
    else:
        a, b, c = case["start"], case["stop"], case["step"]
        full = xs[a:b:c]
    if term == "C":
        return {"values": full, "prefix_of": None, "term": {"C"}, "why": "list semantics"}
    # error-terminated source: n elements were produced, then the error
    a0 = 0 if a is None else a
    if always_empty(a, b):
        return {"values": [], "prefix_of": None, "term": {"C", "E"}, "why": "slice is empty for every input: completion or error"}
    if a0 >= 0 and b is not None and b >= 0:
        if n >= b:
            return {"values": full, "prefix_of": None, "term": {"C"}, "why": "stop elements arrived before the error"}
        return {"values": full, "prefix_of": None, "term": {"E"}, "why": "error before stop elements"}
    if a0 >= 0 and b is None:
        return {"values": full, "prefix_of": None, "term": {"E"}, "why": "open-ended slice: error passes"}
    if a0 < 0:
        # membership of every element depends on the final length, which an erroring source never reveals
        return {"values": [], "prefix_of": None, "term": {"E"}, "why": "start relative to the end: nothing is decided before the error"}
    # a0 >= 0 and b < 0: element i is known to belong once -b further elements arrived; emitting it early is optional
    return {"values": None, "prefix_of": xs[a0:n + b:c] if n + b > 0 else [], "term": {"E"},
            "why": "stop relative to the end: any prefix of the decided part, then the error"}


def build(case: dict, src: Any) -> Any:
    f = case["form"]
    if f == "index":
        return src[case["i"]]
    a, b, c = case["start"], case["stop"], case["step"]
    if f == "getitem":
        return src[a:b:c]
    if f == "ops":
        return src.pipe(ops.slice(a, b, c))
    return src.slice(a, b, c)


def run_one(case: dict, kind: str, term: str, gaps: list, err: Any) -> tuple:
    n = case["n"]
    lab = Lab("num")
    t = 0.0
    msgs = []
    for i in range(n):
        t += gaps[i]
        msgs.append((t, "N", VAL(i)))
    t += gaps[n]
    msgs.append((t, term, None if term == "C" else err))
    if kind == "hot":
        msgs = [(SUB_AT + 1 + t, k, v) for (t, k, v) in msgs]
        src = lab.hot("s", msgs)
    elif kind == "sync":
        src = lab.sync("s", msgs)
    else:
        src = lab.cold("s", msgs)
    obs = lab.observer("top")
    lab.at(SUB_AT, lambda: obs.subscribe_to(build(case, src)))
    lab.run()
    return lab, obs


def mech_of(case: dict) -> str:
    if case["form"] == "index":
        a, b = case["i"], case["i"] + 1
    else:
        a, b = case["start"], case["stop"]
    if a is not None and a < 0 and b is not None and b >= 0:
        return "C07:neg-start-nonneg-stop"
    return "C07:other"


def describe(case: dict) -> dict:
    if case["form"] == "index":
        return {"n": case["n"], "form": "index", "i": case["i"]}
    return {"n": case["n"], "form": case["form"], "start": case["start"], "stop": case["stop"], "step": case["step"]}


def expr(case: dict) -> str:
    if case["form"] == "index":
        return "source[%d]" % case["i"]
    s = lambda v: "" if v is None else str(v)  # noqa: E731
    if case["form"] == "getitem":
        return "source[%s:%s:%s]" % (s(case["start"]), s(case["stop"]), s(case["step"]))
    return "%s(%r, %r, %r)" % ("ops.slice" if case["form"] == "ops" else "source.slice", case["start"], case["stop"], case["step"])


def run_case(case: dict, tier: str, seed: int, res: UnitResult) -> None:
    desc = describe(case)
    n = case["n"]
    r = case_rng(seed, ID, sorted(desc.items()))
    gaps = [r.choice((0, 1, 5, 10)) for _ in range(n + 1)]
    if case["form"] == "index":
        a, b = case["i"], case["i"] + 1
        res.count("cases_index")
    else:
        a, b = case["start"], case["stop"]
        res.count("cases_slice")
    res.note("forms", case["form"])
    res.note("sign_combos", sign(a) + "/" + sign(b))
    mech = mech_of(case)
    if mech.endswith("neg-start-nonneg-stop"):
        res.count("neg_start_nonneg_stop_cases")
    sample = None
    for kind in space(tier)["kinds"]:
        for term in ("C", "E"):
            err = SrcErr("src")
            exp = expect(case, n, term)
            lab, obs = run_one(case, kind, term, gaps, err)
            actual = obs.timed()
            got_vals = [v for (_, k, v) in actual if k == "N"]
            got_term = [(k, v) for (_, k, v) in actual if k != "N"]
            res.count("runs")
            res.count("runs_%s_source" % ("error" if term == "E" else "completing"))
            res.count("runs_kind_" + kind)
            res.count("outputs_compared", len(got_vals) + 1)
            why = None
            # shape N* (C|E): nothing after the terminal, exactly one terminal
            kinds = "".join(k for (_, k, _) in actual)
            if len(got_term) != 1 or kinds[-1:] not in ("C", "E"):
                why = "notification shape %r (want N* then exactly one terminal)" % kinds
            elif exp["values"] is not None and [("int", v) for v in exp["values"]] != [(type(v).__name__, v) for v in got_vals]:
                why = "values %r != %r" % (got_vals, exp["values"])
            elif exp["values"] is None and got_vals != exp["prefix_of"][:len(got_vals)]:
                why = "values %r are not a prefix of %r" % (got_vals, exp["prefix_of"])
            elif got_term[0][0] not in exp["term"]:
                why = "terminal %s, want %s" % (got_term[0][0], "/".join(sorted(exp["term"])))
            elif got_term[0][0] == "E" and got_term[0][1] is not err:
                why = "error %r is not the source's error object" % (got_term[0][1],)
            elif lab.escaped_to_scheduler:
                why = "exception escaped to scheduler: %r" % (lab.escaped_to_scheduler[0],)
            if term == "E" and why is None:
                if exp["term"] == {"C"}:
                    res.count("error_source_slice_decided_before_error")
                elif exp["term"] == {"E"}:
                    res.count("error_source_error_expected")
                else:
                    res.count("open:always_empty_slice_on_error_source_got_" + got_term[0][0])
                if exp["values"] is None:
                    res.count("open:neg_stop_on_error_source_emitted_%s" % ("all_decided" if got_vals == exp["prefix_of"] else "fewer"))
            if sample is None and term == "C" and kind == "cold" and n >= 3 and exp["values"] and None not in (a, b) and min(a, b) < 0:
                sample = {"case": desc, "expr": expr(case), "input": "range(%d) then completion" % n,
                          "expected": exp["values"], "observed": show_timed(actual)}
            if why is not None:
                res.count("violations:" + mech.split(":", 1)[1])
                res.count("violations:%s:on_%s_source" % (mech.split(":", 1)[1], "completing" if term == "C" else "error"))
                res.note("violating_%s:%s" % (mech.split(":", 1)[1], "completing_source" if term == "C" else "error_source"),
                         "n=%d %s" % (n, expr(case)))
                res.violation(mech, {"why": why, "case": desc, "expr": expr(case), "source": "%s, range(%d) then %s" % (kind, n, "completion" if term == "C" else "error"),
                                     "expected": {"values": show(exp["values"]), "prefix_of": show(exp["prefix_of"]),
                                                  "terminal": sorted(exp["term"]), "rule": exp["why"]},
                                     "observed": show_timed(actual)},
                              {"case": case, "tier": tier, "seed": seed})
    res.case(key=desc, nontrivial=n >= 1, sample=sample)


def observe_minus_one(n: int, res: UnitResult) -> None:
    """source[-1] is not judged; what it does is recorded as an observation."""
    lab, obs = run_one({"n": n, "i": -1, "form": "index"}, "cold", "C", [5] * (n + 1), None)
    res.count("unjudged:source[-1]_runs")
    if n >= 1 and obs.values == []:
        res.count("unjudged:source[-1]_emitted_nothing")
    elif n >= 1 and obs.values == [VAL(n - 1)]:
        res.count("unjudged:source[-1]_emitted_last")


def reentrant_feed_cases(res: UnitResult, shard: int, of: int) -> None:
    """list(source) is also well defined for a source that is fed from inside its own deliveries (a Subject whose next element
    is published by the slice's subscriber from its on_next - a feedback loop): it is what a subscriber that subscribed first
    saw. Judged only when that first subscriber saw exactly 0..N-1 (a slice that holds elements back makes the feeding
    subscribers publish twice: that is a property of this set-up, not of the library, and is only counted)."""
    from reactivex.subject import Subject
    idxs = [None] + list(range(-4, 5))
    k = 0
    for n in range(0, 6):
        for a in idxs:
            for b in idxs:
                for c in (None, 1, 2, 3):
                    k += 1
                    if k % of != shard:
                        continue
                    subject: Any = Subject()
                    everything: list = []
                    subject.subscribe(everything.append)
                    got: list = []
                    done: list = []
                    errs: list = []

                    def on_next(x: Any) -> None:
                        got.append(x)
                        if x + 1 < n:
                            subject.on_next(x + 1)

                    def pump(x: Any) -> None:
                        if x + 1 < n and len(everything) == x + 1:
                            subject.on_next(x + 1)
                    subject[a:b:c].subscribe(on_next, errs.append, lambda: done.append(True))
                    subject.subscribe(pump)
                    if n:
                        subject.on_next(0)
                    subject.on_completed()
                    if everything != list(range(n)):
                        res.count("reentrant_setup_not_serial")
                        continue
                    exp = list(range(n))[a:b:c]
                    res.count("reentrant_feed_cases")
                    res.case(key=["reentrant", n, a, b, c], nontrivial=n >= 2)
                    if got != exp or done != [True] or errs:
                        res.violation("C07:reentrant-source", {"source": "Subject fed 0..%d from inside the deliveries" % (n - 1), "slice": [a, b, c],
                                                               "expected": exp, "got": got, "completed": bool(done), "errors": [repr(e) for e in errs]},
                                      {"case": {"n": n, "start": a, "stop": b, "step": c, "form": "reentrant"}})


def run_unit(unit: dict, res: UnitResult) -> None:
    tier = unit["tier"]
    res.max_samples = 1
    cap, res.max_violations = res.max_violations, 10 ** 9
    for idx, case in enumerate(enumerate_cases(tier)):
        if idx % unit["of"] != unit["shard"]:
            continue
        run_case(case, tier, unit["seed"], res)
    reentrant_feed_cases(res, unit["shard"], unit["of"])
    # keep the most telling witnesses: wrong values on a completing source first, smallest input first
    res.violations.sort(key=lambda v: (v["mech"] != "C07:other", "then completion" not in v["detail"].get("source", ""),
                                       v["replay"]["case"]["n"], v["replay"]["case"].get("step") or 0))
    kept = res.violations[:cap]
    for v in res.violations[cap:]:
        if not any(k["mech"] == v["mech"] for k in kept):
            kept.append(v)
    res.violations = kept
    if unit["shard"] == 0:
        for n in space(tier)["ns"]:
            observe_minus_one(n, res)


def replay(rep: dict, res: UnitResult) -> None:
    if rep["case"].get("form") == "reentrant":
        reentrant_feed_cases(res, 0, 1)
        return
    run_case(rep["case"], rep.get("tier", "thorough"), rep.get("seed", 0), res)
