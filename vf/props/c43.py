"""C43 Combinators serialize concurrently emitting sources (dsched: one thread per source)."""
from __future__ import annotations

from typing import Any

from ..common import UnitResult, case_rng

ID = "C43"
LEVEL = "exploration"
OPS = ["merge", "merge_all", "merge_max", "flat_map", "zip", "combine_latest", "with_latest_from", "amb",
       "window_with_time", "window_with_time_or_count", "window_with_count"]
RULE = ("per operator in " + ", ".join(OPS) + ": 2-3 reactivex Subjects each driven from its own thread with a generated short sequence ending in "
        "on_completed / on_error (for merge_all / flat_map / merge(max_concurrent) one thread drives the OUTER sequence; for the time windows a "
        "TimeoutScheduler timer thread opens/closes windows on a virtual clock), under the deterministic thread scheduler: all schedules with <= b "
        "preemptions for the small programs, random/PCT schedules for generated ones; the downstream observer (and a probe on every emitted "
        "window) yields between entry and exit of each callback; oracle: mutual exclusion (no two distinct threads inside callbacks of one "
        "observer) and grammar N*(E|C)? per observer; distinct = (operator, program, decision list); non-trivial = preemptive switch happened")
ASSUMPTIONS = ["free-running units: real threads, switch interval 1 us, yields injected at bytecode granularity (sys.monitoring INSTRUCTION) in the files under test; not replayable, a violation carries the recorded event log; the distinct event orders seen are in the evidence sets free_interleavings:*",
               "line-granular serialisation (a free-running tier for sub-line races is not implemented)",
               "threading primitives replaced by instrumented equivalents; yield points: every source line of the operator under test, "
               "internal/concurrency.py, observer/autodetachobserver.py, subject/subject.py, and every lock operation",
               "each source emits serially from its own thread (the harness never calls one Subject from two threads)"]
REQUIRED = {"decided_runs": {"quick": 800, "thorough": 8000}, "preemptive_switches": {"quick": 1500, "thorough": 15000},
            "set:ops": len(OPS), "downstream_calls": {"quick": 3000, "thorough": 30000},
            "runs:free": {"quick": 2000, "thorough": 40000}, "free_injected_yields": {"quick": 20000, "thorough": 400000}}
UNIT_TIMEOUT = {"quick": 240, "thorough": 3000}
COMMON = ("internal/concurrency.py", "observer/autodetachobserver.py", "subject/subject.py")
OPFILES = {
    "merge": ("operators/_merge.py", "observable/merge.py"), "merge_all": ("operators/_merge.py",), "merge_max": ("operators/_merge.py",),
    "flat_map": ("operators/_merge.py", "operators/_flatmap.py", "operators/_map.py"),
    "zip": ("observable/zip.py",), "combine_latest": ("observable/combinelatest.py",),
    "with_latest_from": ("observable/withlatestfrom.py",), "amb": ("operators/_amb.py",),
    "window_with_time": ("operators/_windowwithtime.py",), "window_with_time_or_count": ("operators/_windowwithtimeorcount.py",),
    "window_with_count": ("operators/_windowwithcount.py",),
}


def gen_seq(r: Any, maxn: int = 3, term: str | None = None) -> list:
    seq = [["N", None] for _ in range(r.randint(0, maxn))]
    t = term or r.choice(["C", "C", "E", "E", None])
    if t:
        seq.append([t, None])
    return seq


def gen_program(r: Any, op: str) -> dict:
    n = 2 if op in ("amb", "with_latest_from") or r.random() < 0.6 else 3
    if op in ("merge_all", "merge_max", "flat_map"):
        # thread 0 drives the outer sequence: it hands out the inner subjects and then terminates the outer
        inner = n - 1 if n > 2 else 2
        outer_term = r.choice(["C", "C", "E", None])
        progs = [[["O", i] for i in range(inner)] + ([[outer_term, None]] if outer_term else [])]
        progs += [gen_seq(r, 2) for _ in range(inner)]
        return {"op": op, "progs": progs, "pre": r.choice([0, 0, 1])}
    if op in ("window_with_time", "window_with_time_or_count", "window_with_count"):
        # one source thread with virtual sleeps between elements (the timer thread is the second party), plus an optional second
        seq = []
        for _ in range(r.randint(1, 4)):
            seq.append(["S", r.choice([0.0, 0.05, 0.1, 0.1])])
            seq.append(["N", None])
        seq.append(["S", r.choice([0.0, 0.1])])
        t = r.choice(["C", "E", None])
        if t:
            seq.append([t, None])
        return {"op": op, "progs": [seq], "span": r.choice([0.1, 0.2]), "shift": r.choice([0.1, 0.2]), "count": r.choice([1, 2])}
    return {"op": op, "progs": [gen_seq(r) for _ in range(n)]}


HAND = [
    {"op": "zip", "progs": [[["N", None], ["C", None]], [["N", None], ["E", None]]]},
    {"op": "zip", "progs": [[["N", None], ["N", None], ["C", None]], [["N", None], ["C", None]]]},
    {"op": "combine_latest", "progs": [[["N", None], ["N", None]], [["N", None], ["E", None]]]},
    {"op": "combine_latest", "progs": [[["N", None], ["C", None]], [["N", None], ["C", None]]]},
    {"op": "with_latest_from", "progs": [[["N", None], ["N", None], ["C", None]], [["N", None], ["E", None]]], "pre": 1},
    {"op": "merge", "progs": [[["N", None], ["C", None]], [["N", None], ["E", None]]]},
    {"op": "merge_all", "progs": [[["O", 0], ["C", None]], [["N", None], ["C", None]]], "pre": 0},
    {"op": "merge_all", "progs": [[["O", 0], ["E", None]], [["N", None], ["N", None]]], "pre": 0},
    {"op": "merge_max", "progs": [[["O", 0], ["O", 1], ["C", None]], [["N", None], ["C", None]], [["N", None], ["C", None]]], "pre": 0},
    {"op": "flat_map", "progs": [[["O", 0], ["C", None]], [["N", None], ["C", None]]], "pre": 0},
    {"op": "amb", "progs": [[["N", None], ["C", None]], [["N", None], ["E", None]]]},
    {"op": "window_with_time", "progs": [[["S", 0.1], ["N", None], ["S", 0.1], ["N", None], ["C", None]]], "span": 0.1, "shift": 0.1, "count": 2},
    {"op": "window_with_time_or_count", "progs": [[["S", 0.1], ["N", None], ["N", None], ["S", 0.1], ["C", None]]], "span": 0.1, "shift": 0.1, "count": 2},
]


def scenario(c: Any, P: dict) -> dict:
    import reactivex as rx
    import reactivex.operators as ops
    from reactivex.scheduler import TimeoutScheduler
    from reactivex.subject import Subject
    from .. import dsched as D
    op = P["op"]
    viol: list = []
    probes: list = []
    calls = [0]

    class Probe:
        def __init__(self, name: str) -> None:
            self.name, self.owner, self.depth, self.got = name, None, 0, []
            self.opened, self.closed = c.clock, None      # (virtual clock when the probe was created / received its terminal)
            probes.append(self)

        def _enter(self, kind: str, value: Any) -> None:
            me = c.me().name
            calls[0] += 1
            if self.owner is not None and self.owner != me:
                viol.append(("C43:%s:overlapping-downstream-calls" % op, {"observer": self.name, "inside": self.owner, "entering": me, "kind": kind}))
            prev = self.owner
            self.owner = me
            self.depth += 1
            c.log("enter", self.name, kind)
            c.yp("in-downstream")
            self.got.append(kind)
            if kind in "EC" and self.closed is None:
                self.closed = c.clock
            if kind == "N" and hasattr(value, "subscribe") and not isinstance(value, (tuple, list)):
                value.subscribe(Probe("%s/w%d" % (self.name, len(probes))))
            c.yp("in-downstream")
            c.log("exit", self.name, kind)
            self.depth -= 1
            self.owner = prev

        def on_next(self, v: Any) -> None:
            self._enter("N", v)

        def on_error(self, e: Exception) -> None:
            self._enter("E", e)

        def on_completed(self) -> None:
            self._enter("C", None)

    nthreads = len(P["progs"])
    subs = [Subject() for _ in range(nthreads)]
    outer = subs[0]
    inners = subs[1:]
    if op == "merge":
        o = rx.merge(*subs)
    elif op == "zip":
        o = rx.zip(*subs)
    elif op == "combine_latest":
        o = rx.combine_latest(*subs)
    elif op == "with_latest_from":
        o = subs[0].pipe(ops.with_latest_from(*subs[1:]))
    elif op == "amb":
        o = subs[0].pipe(ops.amb(subs[1]))
    elif op == "merge_all":
        o = outer.pipe(ops.merge_all())
    elif op == "merge_max":
        o = outer.pipe(ops.merge(max_concurrent=1))
    elif op == "flat_map":
        o = outer.pipe(ops.flat_map(lambda s: s))
    elif op == "window_with_time":
        o = subs[0].pipe(ops.window_with_time(P["span"], P["shift"], scheduler=TimeoutScheduler()))
    elif op == "window_with_time_or_count":
        o = subs[0].pipe(ops.window_with_time_or_count(P["span"], P["count"], scheduler=TimeoutScheduler()))
    elif op == "window_with_count":
        o = subs[0].pipe(ops.window_with_count(P["count"]))
    else:
        raise KeyError(op)
    top = Probe("top")
    subscription = o.subscribe(top)
    if op == "with_latest_from" and P.get("pre"):
        for s in subs[1:]:
            s.on_next(0)
    if op in ("merge_all", "merge_max", "flat_map") and P.get("pre"):
        outer.on_next(inners[0])          # first inner already subscribed before the threads start
    val = [0]

    def worker(ti: int, prog: list) -> None:
        s = subs[ti]
        for k, arg in prog:
            if k == "N":
                val[0] += 1
                s.on_next(val[0])
            elif k == "O":
                if not (P.get("pre") and arg == 0):
                    s.on_next(inners[arg])
            elif k == "S":
                c.sleep(arg)
            elif k == "C":
                s.on_completed()
            elif k == "E":
                s.on_error(RuntimeError("src%d" % ti))

    ts = [c.Thread(target=worker, args=(ti, p), name="P") for ti, p in enumerate(P["progs"])]
    for t in ts:
        t.start()
    for t in ts:
        t.join()
    subscription.dispose()
    c.wait_quiescent()
    for p in probes:
        kinds = "".join(p.got)
        seen_term = False
        for k in kinds:
            if seen_term:
                viol.append(("C43:%s:grammar:%s" % (op, "call-after-terminal" if k == "N" else "second-terminal"), {"observer": p.name, "kinds": kinds}))
                break
            if k in "EC":
                seen_term = True
    if op == "window_with_time_or_count":
        # a window that is not the last one was closed by its own rule: it holds `count` elements or it lived for the whole timespan
        # (a stale timer of a window that was closed by count must not close its successor)
        wins = [p for p in probes if p.name != "top"]
        for w in wins[:-1]:
            n_el = sum(1 for k in w.got if k == "N")
            if w.closed is not None and w.got and w.got[-1] == "C" and n_el < P["count"] and w.closed - w.opened < P["span"] - 1e-9:
                viol.append(("C43:window_with_time_or_count:window-closed-before-its-count-and-its-timespan",
                             {"window": w.name, "elements": n_el, "count": P["count"], "lived": w.closed - w.opened, "span": P["span"]}))
        calls[0] += 0
    return {"viol": viol, "obs": {"downstream_calls": calls[0], "probes": len(probes)}, "sig": {p.name: "".join(p.got) for p in probes}, "decided": True}


def units(tier: str, seed: int) -> list[dict]:
    q = tier == "quick"
    us: list[dict] = []
    for hi, P in enumerate(HAND):
        us.append({"mode": "dfs", "hand": hi, "bound": 1 if q else 2, "seed": seed, "max_runs": 400 if q else 60000, "hot_runs": 80 if q else 1500})
    nprog = 3 if q else 24
    for op in OPS:
        us.append({"mode": "random", "op": op, "nprog": nprog, "runs": 30 if q else 250, "seed": seed})
    # free-running tier (real threads, bytecode-granular yield injection): the operators that need no timer thread
    for op in OPS:
        if not op.startswith("window_with_time"):
            us.append({"mode": "free", "op": op, "nprog": nprog, "runs": 120 if q else 2500, "seed": seed})
    return us


def run_unit(unit: dict, res: UnitResult) -> None:
    if unit["mode"] == "free":
        from ..freerun import explore_free
        op = unit["op"]
        res.note("ops", op)
        ff = tuple("reactivex/" + x for x in COMMON + OPFILES[op])
        for hi, P in enumerate(HAND):
            if P["op"] == op:
                explore_free(res, ID, "free-hand%d-%s" % (hi, op), scenario, P, seed=unit["seed"], runs=unit["runs"], files=ff)
        for pi in range(unit["nprog"]):
            explore_free(res, ID, "free-gen%d-%s" % (pi, op), scenario, gen_program(case_rng(unit["seed"], ID, op, pi), op), seed=unit["seed"], runs=unit["runs"], files=ff)
        return
    from .. import dcheck, dsched as D
    if unit["mode"] == "dfs":
        P = HAND[unit["hand"]]
        D.install(D.repo_file(*(COMMON + OPFILES[P["op"]])))
        if not dcheck.check_install(res):
            return
        res.note("ops", P["op"])
        dcheck.explore(res, ID, "hand%d-%s" % (unit["hand"], P["op"]), scenario, P, "dfs", bound=unit["bound"], max_runs=unit["max_runs"])
        dcheck.explore(res, ID, "hand%d-%s" % (unit["hand"], P["op"]), scenario, P, "hot", seed=unit["seed"], runs=unit.get("hot_runs", 60), hot=("in-downstream",))
        return
    op = unit["op"]
    D.install(D.repo_file(*(COMMON + OPFILES[op])))
    if not dcheck.check_install(res):
        return
    res.note("ops", op)
    for pi in range(unit["nprog"]):
        P = gen_program(case_rng(unit["seed"], ID, op, pi), op)
        dcheck.explore(res, ID, "gen%d-%s" % (pi, op), scenario, P, "random", seed=unit["seed"], runs=unit["runs"])
        dcheck.explore(res, ID, "gen%d-%s" % (pi, op), scenario, P, "pct", seed=unit["seed"], runs=unit["runs"] // 2)
        dcheck.explore(res, ID, "gen%d-%s" % (pi, op), scenario, P, "hot", seed=unit["seed"], runs=unit["runs"], hot=("in-downstream",))


def replay(rep: dict, res: UnitResult) -> None:
    if rep.get("free"):
        from ..freerun import explore_free
        op = rep["params"]["op"]
        explore_free(res, ID, rep["scenario"], scenario, rep["params"], seed=rep.get("seed", 0), runs=rep.get("runs", 1000),
                     files=tuple("reactivex/" + x for x in COMMON + OPFILES[op]))
        return
    from .. import dcheck, dsched as D
    D.install(D.repo_file(*(COMMON + OPFILES[rep["params"]["op"]])))
    dcheck.replay(res, ID, scenario, rep)
