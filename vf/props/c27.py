"""C27 RefCountDisposable releases its resource only after all dependents (model histories + dsched)."""
from __future__ import annotations

from typing import Any

from ..common import UnitResult, case_rng

ID = "C27"
LEVEL = "exploration"
RULE = ("(a) single-thread random histories of get-dependent / dispose-dependent (also twice) / dispose-primary (4..14 calls) compared after "
        "every call with a sequential model (release exactly when primary and all handed-out dependents are disposed; late dependents inert); "
        "(b) 2-3 threads running programs of those calls under the deterministic thread scheduler (all schedules with <= b preemptions for "
        "hand-written programs, random/PCT for generated ones); oracle = underlying dispose count <= 1 at all times and == 1 at quiescence, a "
        "hook inside the underlying resource's dispose() that checks primary and every handed-out dependent had dispose() called, count >= 0; "
        "distinct = (program, decision list); non-trivial = a preemptive switch happened")
ASSUMPTIONS = ["free-running units: real threads, switch interval 1 us, yields injected at bytecode granularity (sys.monitoring INSTRUCTION) in the files under test; not replayable, a violation carries the recorded event log; the distinct event orders seen are in the evidence sets free_interleavings:*",
               "line-granular serialisation: interleavings inside one source line are not produced",
               "threading primitives are replaced by instrumented equivalents while reactivex is imported",
               "bounded histories only (<= 14 calls, <= 3 threads): the 'abstract model over unbounded histories' of the quantifier is out of this family's reach"]
REQUIRED = {"decided_runs": {"quick": 500, "thorough": 5000}, "preemptive_switches": {"quick": 300, "thorough": 3000},
            "dfs_complete_scenarios": {"quick": 5, "thorough": 6}, "single_thread_histories": {"quick": 1500, "thorough": 40000},
            "late_dependents": {"quick": 50, "thorough": 500},
            "runs:free": {"quick": 2000, "thorough": 40000}, "free_injected_yields": {"quick": 5000, "thorough": 100000}}
UNIT_TIMEOUT = {"quick": 240, "thorough": 3000}
FILES = ("disposable/refcountdisposable.py",)


class Underlying:
    def __init__(self, hook: Any) -> None:
        self.n = 0
        self.hook = hook

    def dispose(self) -> None:
        self.n += 1
        self.hook()


def gen_history(r: Any) -> list:
    ops: list = []
    ndep = 0
    for _ in range(r.randint(4, 14)):
        c = r.random()
        if c < 0.4 or ndep == 0 and c < 0.8:
            ops.append(["get", ndep])
            ndep += 1
        elif c < 0.85 and ndep:
            ops.append(["ddep", r.randrange(ndep)])
        else:
            ops.append(["dprim"])
    return ops


def run_history(seed: int, i: int, res: UnitResult) -> None:
    from reactivex.disposable import RefCountDisposable
    r = case_rng(seed, ID, "st", i)
    ops = gen_history(r)
    u = Underlying(lambda: None)
    rc = RefCountDisposable(u)
    deps: dict = {}
    # model
    prim = False
    live: set = set()
    released = False
    inert: set = set()
    problem = None
    late = 0
    for step, op in enumerate(ops):
        try:
            if op[0] == "get":
                deps[op[1]] = rc.disposable
                if released:
                    inert.add(op[1])
                    late += 1
                else:
                    live.add(op[1])
            elif op[0] == "ddep":
                deps[op[1]].dispose()
                live.discard(op[1])
            else:
                rc.dispose()
                prim = True
        except Exception as e:  # noqa: BLE001
            problem = ("C27:single-thread:call-raised", {"step": step, "op": op, "exc": repr(e)})
            break
        if prim and not live:
            released = True
        exp = 1 if released else 0
        if u.n != exp:
            how = "released-early" if u.n > exp and exp == 0 else ("released-twice" if u.n > 1 else "not-released")
            problem = ("C27:single-thread:%s" % how, {"step": step, "op": op, "underlying_disposals": u.n, "expected": exp})
            break
        if rc.count < 0:
            problem = ("C27:single-thread:negative-count", {"step": step, "count": rc.count})
            break
        if bool(rc.is_disposed) != released:
            problem = ("C27:single-thread:is_disposed", {"step": step, "is_disposed": rc.is_disposed, "expected": released})
            break
    res.count("single_thread_histories")
    res.count("late_dependents", late)
    res.case(key=ops, nontrivial=len(ops) >= 4, sample={"history": ops, "underlying_disposals": u.n})
    if problem:
        problem[1]["history"] = ops
        res.violation(problem[0], problem[1], {"scenario": "st", "params": {"seed": seed, "i": i}, "decisions": []})


HAND = [
    {"progs": [[["get", 0], ["ddep", 0]], [["dprim"]]]},
    {"progs": [[["get", 0], ["ddep", 0], ["ddep", 0]], [["dprim"]]]},
    {"pre": 1, "progs": [[["ddep", 0]], [["dprim"]]]},
    {"pre": 2, "progs": [[["ddep", 0]], [["ddep", 1]], [["dprim"]]]},
    {"pre": 1, "progs": [[["ddep", 0]], [["ddep", 0]], [["dprim"]]]},
    {"pre": 1, "progs": [[["ddep", 0], ["get", 1], ["ddep", 1]], [["dprim"]]]},
    {"progs": [[["get", 0], ["ddep", 0]], [["get", 1], ["ddep", 1]], [["dprim"], ["dprim"]]]},
    {"pre": 1, "progs": [[["ddep", 0]], [["dprim"]], [["get", 1], ["ddep", 1]]]},
]


def gen_program(r: Any) -> dict:
    pre = r.choice([0, 1, 1, 2])
    ndep = pre
    progs = []
    for _ in range(r.choice([2, 2, 3])):
        p = []
        for _ in range(r.randint(1, 4)):
            c = r.random()
            if c < 0.35:
                p.append(["get", ndep])
                ndep += 1
            elif c < 0.8 and ndep:
                p.append(["ddep", r.randrange(ndep)])
            else:
                p.append(["dprim"])
        progs.append(p)
    return {"pre": pre, "progs": progs}


def scenario(c: Any, P: dict) -> dict:
    from .. import dsched as D
    from reactivex.disposable import RefCountDisposable
    viol: list = []
    state = {"prim_called": False}
    handed: dict = {}          # dep id -> dependent object (recorded after rc.disposable returned)
    dep_called: set = set()
    released_at_get: dict = {}

    def hook() -> None:
        # checked at the instant the resource is released (before any further yield point). A dependent obtained
        # after the release decision is an inert plain Disposable, not an InnerDisposable: it is not "live".
        if not state["prim_called"]:
            viol.append(("C27:released-before-primary-dispose", {}))
        missing = [i for i, d in handed.items() if i not in dep_called and isinstance(d, RefCountDisposable.InnerDisposable)]
        if missing:
            viol.append(("C27:released-while-dependent-live", {"dependents": missing}))
        c.yp("underlying.dispose")

    u = Underlying(hook)
    rc = RefCountDisposable(u)
    for i in range(P.get("pre", 0)):
        handed[i] = rc.disposable

    def worker(prog: list) -> None:
        for op in prog:
            if op[0] == "get":
                before = u.n
                d = rc.disposable
                handed[op[1]] = d
                released_at_get[op[1]] = before
            elif op[0] == "ddep":
                d = handed.get(op[1])
                if d is None:
                    continue            # not obtained yet in this interleaving
                dep_called.add(op[1])
                d.dispose()
            else:
                state["prim_called"] = True
                rc.dispose()
            if u.n > 1:
                viol.append(("C27:released-twice", {"after": op}))

    ts = [c.Thread(target=worker, args=(p,), name="W") for p in P["progs"]]
    for t in ts:
        t.start()
    for t in ts:
        t.join()
    late = sum(1 for i, b in released_at_get.items() if b >= 1)
    # drain: dispose everything that is still live, then the resource must have been released exactly once
    state["prim_called"] = True
    rc.dispose()
    for i, d in list(handed.items()):
        dep_called.add(i)
        d.dispose()
        d.dispose()
    if u.n != 1:
        viol.append(("C27:%s" % ("not-released-at-quiescence" if u.n == 0 else "released-twice"), {"underlying_disposals": u.n}))
    if rc.count < 0:
        viol.append(("C27:negative-count", {"count": rc.count}))
    if not rc.is_disposed:
        viol.append(("C27:is_disposed-false-at-quiescence", {}))
    return {"viol": viol, "obs": {"late_dependents": late, "ops": sum(len(p) for p in P["progs"])}, "sig": {"underlying": u.n, "count": rc.count}, "decided": True}


def units(tier: str, seed: int) -> list[dict]:
    q = tier == "quick"
    us: list[dict] = []
    for hi, P in enumerate(HAND):
        three = len(P["progs"]) > 2
        us.append({"mode": "dfs", "hand": hi, "bound": (2 if not three else 1) if q else (3 if not three else 2), "seed": seed, "max_runs": 5000 if q else 120000})
    nprog, per = (16, 4) if q else (160, 10)
    for lo in range(0, nprog, per):
        us.append({"mode": "random", "progs": [lo, lo + per], "runs": 40 if q else 500, "seed": seed})
    nst = 2400 if q else 64000
    for lo in range(0, nst, nst // 4):
        us.append({"mode": "st", "lo": lo, "hi": lo + nst // 4, "seed": seed})
    # free-running tier (real threads, bytecode-granular yield injection)
    for lo in range(0, nprog, per):
        us.append({"mode": "free", "progs": [lo, lo + per], "runs": 150 if q else 3000, "seed": seed})
    return us


def run_unit(unit: dict, res: UnitResult) -> None:
    if unit["mode"] == "st":
        for i in range(unit["lo"], unit["hi"]):
            run_history(unit["seed"], i, res)
        return
    if unit["mode"] == "free":
        from ..freerun import explore_free
        ff = tuple("reactivex/" + x for x in FILES)
        for hi, P in enumerate(HAND):
            explore_free(res, ID, "free-hand%d" % hi, scenario, P, seed=unit["seed"], runs=max(20, unit["runs"] // 4), files=ff)
        for pi in range(*unit["progs"]):
            explore_free(res, ID, "free-gen%d" % pi, scenario, gen_program(case_rng(unit["seed"], ID, "prog", pi)), seed=unit["seed"], runs=unit["runs"], files=ff)
        return
    from .. import dcheck, dsched as D
    D.install(D.repo_file(*FILES))
    if not dcheck.check_install(res):
        return
    if unit["mode"] == "dfs":
        P = HAND[unit["hand"]]
        dcheck.explore(res, ID, "hand%d" % unit["hand"], scenario, P, "dfs", bound=unit["bound"], max_runs=unit["max_runs"])
        return
    for pi in range(*unit["progs"]):
        P = gen_program(case_rng(unit["seed"], ID, "prog", pi))
        dcheck.explore(res, ID, "gen%d" % pi, scenario, P, "random", seed=unit["seed"], runs=unit["runs"])
        dcheck.explore(res, ID, "gen%d" % pi, scenario, P, "pct", seed=unit["seed"], runs=unit["runs"] // 2)


def replay(rep: dict, res: UnitResult) -> None:
    if rep["scenario"] == "st":
        run_history(rep["params"]["seed"], rep["params"]["i"], res)
        return
    if rep.get("free"):
        from ..freerun import explore_free
        explore_free(res, ID, rep["scenario"], scenario, rep["params"], seed=rep.get("seed", 0), runs=rep.get("runs", 1000), files=tuple("reactivex/" + x for x in FILES))
        return
    from .. import dcheck, dsched as D
    D.install(D.repo_file(*FILES))
    dcheck.replay(res, ID, scenario, rep)
