"""C08 Falsy values are ordinary elements (metamorphic relabelling + model differential, virtual time).

Three oracles, all specialised for falsiness (None, 0, 0.0, False, '', (), [], {}):

* metamorphic (`_c08_meta`): the same timeline is run with falsy payloads and with every payload occurrence replaced
  by a truthy token; the recorded notifications of every observer (children of windows / groups, late subscribers
  of subjects and connectables), retained-state reads and future results must be equal up to the relabelling;
* model: the C05 / C06 list-semantics models (imported, not copied) on cases of the falsy domains, type-strict;
* direct value models for sources, pass-through operators and the blocking bridges (run(), to_future).
"""
from __future__ import annotations

import threading
from typing import Any

import reactivex as rx
import reactivex.operators as ops
from reactivex.internal.exceptions import SequenceContainsNoElementsError
from reactivex.run import run as run_blocking
from reactivex.scheduler import NewThreadScheduler

from ..common import UnitResult, case_rng, chunks, show, strict
from ..single import SUB_AT, cut_after_terminal, make_input, match_expected, run_single, show_timed
from . import _c06_seqeq as SQ
from . import _c08_meta as M
from . import c05, c06

ID = "C08"
LEVEL = "exploration"
RULE = ("seeded random cases, one operator / subject / factory per case in rotation. (a) metamorphic: timelines of 0..6 "
        "elements per source (75-95 % of the payloads drawn from None, 0, 0.0, False, '', (), [], {}; hot or cold; ending "
        "in C/E/never; coarse time grid) and falsy parameters (seeds, defaults, initial values, start_with arguments) are "
        "run twice, once as generated and once with every payload occurrence replaced by a distinct truthy token (for "
        "comparing / hashing operators a token that keeps ==, hash and order of the value it stands for, so 0 == False == "
        "0.0 stay equal); all recorded notifications (times, kinds, tuple / list / buffer / window / group structure), "
        "state reads and future results must be identical up to the relabelling. (b) the C05 and C06 models on cases "
        "re-drawn until the value domain is a falsy one and a falsy element or parameter is present, compared "
        "type-strictly; callback-free cases of those operators are relabelled as well. (c) direct value models for "
        "factories, pass-through operators, run() and to_future. non-trivial = the input contained >= 1 falsy payload "
        "or parameter AND the relabelled run / the model shows that occurrence (or, for aggregates such as count, "
        "contains, some, all, sequence_equal, a value computed from it) in the output or in retained state; distinct = "
        "digest of (operator, parameters, timelines)")
ASSUMPTIONS = ["reactivex.testing.TestScheduler is used as the clock (its ordering is checked independently by C28)",
               "probe sources / observers and the token classes are harness code; a token is an ordinary truthy object, "
               "EqTok delegates ==, hash and ordering to the value it stands for",
               "user callbacks used in relabelled runs are value-independent (call counters, timers, identity, wrapping) "
               "or look at the value the token stands for (partition predicate)",
               "run() uses real threads: verdict on the returned value only; a wall-clock watchdog yields inconclusive",
               "registry callbacks are total and pure (C05 / C06 assumptions apply to the imported models)"]

C05_OPS = [o for o in c05.OPS if o != "ignore_elements"]
C06_OPS = list(c06.OPS)
THREAD_OPS = ["run", "run_observe_on_new_thread"]
PLAN = ([("meta", n) for n in M.SCEN] + [("c05", o) for o in C05_OPS] + [("c06", o) for o in C06_OPS]
        + [("thread", o) for o in THREAD_OPS])
# the weight of a kind in the rotation: every operator name is visited once per round
PER_OP = {"quick": 96, "thorough": 4800}
REQUIRED = {"set:ops": len(PLAN),
            "set:ops_with_falsy": len(PLAN),
            "falsy_values_reached": {"quick": 12000, "thorough": 600000},
            "relabelled_runs_compared": {"quick": 8000, "thorough": 400000},
            "model_outputs_compared": {"quick": 6000, "thorough": 300000},
            "falsy_parameter_reached_output": {"quick": 600, "thorough": 30000},
            "set:falsy_kinds_reached": 8}

C05_DERIVED = {"map", "map_indexed", "find_index", "starmap"}
C06_DERIVED = {"reduce", "reduce_seed", "scan", "scan_seed", "count", "count_pred", "sum", "sum_key", "average",
               "average_key", "to_dict", "to_dict_elem", "all", "some", "some_pred", "contains", "contains_cmp", "is_empty"}
C05_AGNOSTIC = {"pairwise", "start_with", "default_if_empty", "take_last", "skip_last", "take_last_buffer", "element_at",
                "element_at_or_default", "take", "skip", "materialize"}
C06_AGNOSTIC = {"count", "to_list", "to_iterable", "first", "last", "single", "first_or_default", "last_or_default",
                "single_or_default", "some", "is_empty"}
C06_AGNOSTIC_EQ = {"to_set", "contains", "min", "max"}
VALUE_PARAMS = ("default", "seed", "value")
FALSY_DOMAINS = ("falsy", "hfalsy", "numeric")
RUN_WATCHDOG_S = 30.0


def units(tier: str, seed: int) -> list[dict]:
    total = PER_OP[tier] * len(PLAN)
    return [{"lo": lo, "hi": hi, "seed": seed} for lo, hi in chunks(total, 16 if tier == "quick" else 64)]


# ---------------------------------------------------------------------------------- helpers

def falsy_kind(v: Any) -> str:
    return "%s:%r" % (type(v).__name__, v)


def leaves(v: Any, depth: int = 0) -> list:
    """the value itself and everything reachable inside it (tuples, lists, dicts, sets, notifications, Box)"""
    out = [v]
    if depth > 40:
        return out
    if isinstance(v, (list, tuple, set, frozenset)):
        for x in v:
            out.extend(leaves(x, depth + 1))
    elif isinstance(v, dict):
        for k, x in v.items():
            out.extend(leaves(k, depth + 1))
            out.extend(leaves(x, depth + 1))
    elif type(v).__module__ == "reactivex.notification":
        if getattr(v, "kind", "") == "N":
            out.extend(leaves(v.value, depth + 1))
    elif isinstance(v, c05.Box):
        out.extend(leaves(v.a, depth + 1))
    return out


def falsy_leaves(values: list) -> list:
    return [x for v in values for x in leaves(v) if M.is_falsy(x)]


def param_values(P: dict) -> list:
    out = [P[k] for k in VALUE_PARAMS if k in P]
    out.extend(P.get("args", []))
    return out


def classify(expected: list, actual: list) -> str:
    ne, na = sum(1 for x in expected if x[1] == "N"), sum(1 for x in actual if x[1] == "N")
    if na < ne:
        return "dropped"
    if na > ne:
        return "extra"
    if [x[1] for x in expected] != [x[1] for x in actual]:
        return "terminal"
    for e, a in zip(expected, actual):
        if e[1] == "N" and strict(e[2]) != strict(a[2]):
            return "value"
    return "time"


def note_reached(res: UnitResult, name: str, offered: int, reached: int, kinds: list) -> None:
    res.count("falsy_values_offered", offered)
    res.count("falsy_values_reached", reached)
    if reached:
        res.note("ops_with_falsy", name)
        for k in kinds:
            res.note("falsy_kinds_reached", k)


# ---------------------------------------------------------------------------------- (a) metamorphic cases

def _emitted(run: dict, name: str = "s") -> list:
    return [e[6] for e in run["lab"].ev if e[2] == "emit" and e[3] == name and e[5] == "N" and e[4] == 0]


def _items(case: dict) -> list:
    return case["P"]["items"]


DIRECT = {
    # name -> expected element values of observer 'top' (None: the model does not apply to this case)
    "from_iterable": lambda case, run: _items(case),
    "from_": lambda case, run: _items(case),
    "of": lambda case, run: _items(case),
    "generate": lambda case, run: _items(case),
    "from_marbles": lambda case, run: _items(case),
    "return_value": lambda case, run: _items(case)[:1],
    "just": lambda case, run: _items(case)[:1],
    "start": lambda case, run: _items(case)[:1],
    "from_callable": lambda case, run: _items(case)[:1],
    "to_async": lambda case, run: _items(case)[:1],
    "from_future": lambda case, run: _items(case)[:1],
    "from_callback": lambda case, run: _items(case)[:1],
    "case": lambda case, run: [next(x for x in _items(case) if x == _items(case)[-1])],
    "repeat_value": lambda case, run: _items(case)[:1] * case["P"]["n"],
    "repeat_value_infinite_take": lambda case, run: _items(case)[:1] * case["P"]["n"],
}
for _n in ("as_observable", "do_action", "finally_action", "observe_on", "subscribe_on",
           "take_with_time", "take_until_with_time", "timeout", "share", "publish_ref_count"):
    DIRECT[_n] = lambda case, run: _emitted(run)
# (an error overtakes elements that are still being delayed: the value model is used on error-free timelines only)
DIRECT["delay"] = lambda case, run: None if any(m[1] == "E" for m in case["srcs"][0]["tl"]) else _emitted(run)
DIRECT["delay_subscription"] = DIRECT["delay"]
DIRECT["flat_map"] = lambda case, run: (None if any(m[1] == "E" for m in case["srcs"][0]["tl"])
                                        else [v for x in _emitted(run) for v in (x, x)])
DIRECT["concat_map"] = DIRECT["flat_map"]
DIRECT["timestamp"] = lambda case, run: _emitted(run)
DIRECT["time_interval"] = lambda case, run: _emitted(run)
DIRECT["zip_with_iterable"] = lambda case, run: list(zip(_emitted(run), _items(case)))


def run_meta(r: Any, name: str, seed: int, idx: int, res: UnitResult) -> None:
    case = M.gen_case(r, name)
    S = M.SCEN[name]
    a = M.run_variant(case, False)
    b = M.run_variant(case, True)
    desc = M.describe(case)
    offered, reached = M.reached(b, S.derived)
    kinds = sorted({falsy_kind(t.orig) for xs in b["raw"].values() for (_, k, v) in xs if k == "N"
                    for t in M.tokens_in(v) if M.is_falsy(t.orig)}
                   | {falsy_kind(t.orig) for (_, _, v) in b["raw_extras"] for t in M.tokens_in(v) if M.is_falsy(t.orig)})
    res.case(key=desc, nontrivial=reached > 0,
             sample={"case": desc, "with_falsy_payloads": M.show_run(a), "with_truthy_tokens": M.show_run(b)})
    res.note("ops", name)
    res.count("relabelled_runs_compared")
    note_reached(res, name, offered, reached, kinds)
    fed_ids = {id(t) for v in b["ctx"].fed for t in M.tokens_in(v) if M.is_falsy(t.orig)}
    if fed_ids and any(id(t) in fed_ids for xs in b["raw"].values() for (_, k, v) in xs if k == "N"
                       for t in M.tokens_in(v)):
        res.count("falsy_parameter_reached_output")
    d = M.diff(a, b)
    if d is not None:
        res.violation("C08:%s:%s" % (name, d[0]),
                      {"why": d[1], "oracle": "metamorphic relabelling", "case": desc,
                       "with_falsy_payloads": M.show_run(a), "with_truthy_tokens": M.show_run(b)},
                      {"seed": seed, "idx": idx})
        return
    if a["escaped"]:
        # identical in both runs, so not a falsiness finding; kept visible in the evidence
        res.count("observation:exception_escaped_to_scheduler_in_both_runs")
    fn = DIRECT.get(name)
    if fn is not None:
        exp = fn(case, a)
        if exp is not None:
            got = [v for (_, k, v) in a["raw"].get("top", []) if k == "N"]
            got = [getattr(v, "value") if name in ("timestamp", "time_interval") else v for v in got]
            res.count("direct_value_models_compared")
            if [strict(x) for x in exp] != [strict(x) for x in got]:
                what = "dropped" if len(got) < len(exp) else ("extra" if len(got) > len(exp) else "value")
                res.violation("C08:%s:%s" % (name, what),
                              {"why": "element values differ from the direct model", "oracle": "direct value model",
                               "case": desc, "expected_values": show(exp), "observed": M.show_run(a)},
                              {"seed": seed, "idx": idx})


# ---------------------------------------------------------------------------------- (b) C05 / C06 models

def relabel_single(case: dict, build: Any, msgs: list, hot: bool, eq: bool) -> tuple[list, list, list]:
    """second run of a single-source case with payloads and value parameters replaced by tokens"""
    m = M.Relab(eq)
    P = dict(case["P"])
    fed = []
    for k in VALUE_PARAMS:
        if k in P:
            P[k] = m(P[k])
            fed.append(P[k])
    if "args" in P:
        P["args"] = [m(v) for v in P["args"]]
        fed.extend(P["args"])
    case_b = dict(case, P=P)
    msgs_b = [(t, k, m(v) if k == "N" else v) for (t, k, v) in msgs]
    lab, obs, src = run_single(lambda lab, s: s.pipe(build(case_b)), msgs_b, hot)
    return obs.timed(), fed, list(lab.escaped_to_scheduler)


def agnostic(kind: str, case: dict) -> tuple[bool, bool]:
    """(the case uses no value-dependent callback, the operator compares / hashes / orders values)"""
    op, P = case["op"], case["P"]
    if kind == "c05":
        if op in C05_AGNOSTIC:
            return True, False
        if op in ("distinct", "distinct_until_changed") and not P.get("key") and not P.get("cmp"):
            return True, True
        return False, False
    if op in C06_AGNOSTIC:
        return True, False
    if op in C06_AGNOSTIC_EQ:
        return True, True
    if op in ("reduce", "reduce_seed", "scan", "scan_seed") and P.get("acc") in ("acc_pair", "acc_last"):
        return True, False
    return False, False


def draw_case(r: Any, mod: Any, op: str) -> tuple[dict, list, list]:
    """re-draw the C05 / C06 generator until the case is in a falsy domain and carries a falsy element or parameter"""
    k = mod.OPS.index(op)
    last = None
    for _ in range(60):
        case = mod.gen_case(r, k)
        if op.startswith("sequence_equal"):
            if case["domain"] == "falsy" and falsy_leaves([v for (_, kk, v) in case["tl1"] if kk == "N"]):
                return case, [], []
            last = (case, [], [])
            continue
        msgs, seen = make_input(r, case["tl"], case["hot"])
        last = (case, msgs, seen)
        if case["domain"] not in FALSY_DOMAINS:
            continue
        elems = [v for (_, kk, v) in cut_after_terminal(seen) if kk == "N"]
        if falsy_leaves(elems) or falsy_leaves(param_values(case["P"])):
            return last
    assert last is not None
    return last


def run_model(r: Any, kind: str, op: str, seed: int, idx: int, res: UnitResult) -> None:
    mod = c05 if kind == "c05" else c06
    case, msgs, seen = draw_case(r, mod, op)
    if op.startswith("sequence_equal"):
        run_seqeq(r, case, seed, idx, res)
        return
    facts: dict = {}
    if kind == "c05":
        alts = [mod.model(case, seen, SUB_AT)]
    else:
        alts = mod.model(case, seen, facts)
    lab, obs, src = run_single(lambda lab, s: s.pipe(mod.build(case)), msgs, case["hot"])
    actual = obs.timed()
    desc = mod.describe(case)
    if kind == "c05":
        why = match_expected(alts[0], actual)
        shown = show_timed(alts[0])
    else:
        why, _ = c06.check(alts, actual)
        shown = c06.show_alts(alts)
    if why is None and lab.escaped_to_scheduler:
        why = "exception escaped to scheduler: %r" % (lab.escaped_to_scheduler[0],)

    elems = [v for (_, k, v) in cut_after_terminal(seen) if k == "N"]
    in_falsy = falsy_leaves(elems)
    par_falsy = falsy_leaves(param_values(case["P"]))
    exp_vals = [v for (_, k, v) in alts[0] if k == "N"]
    out_leaves = {repr(strict(x)) for v in exp_vals for x in leaves(v)}
    hit_in = [x for x in in_falsy if repr(strict(x)) in out_leaves]
    hit_par = [x for x in par_falsy if repr(strict(x)) in out_leaves]
    derived = op in (C05_DERIVED if kind == "c05" else C06_DERIVED)
    if derived and in_falsy and exp_vals:
        reached, kinds = len(in_falsy), in_falsy
    else:
        reached, kinds = len(hit_in) + len(hit_par), hit_in + hit_par
    res.case(key=desc, nontrivial=reached > 0, sample={"case": desc, "expected": shown, "observed": show_timed(actual)})
    res.note("ops", op)
    res.count("model_outputs_compared", len(alts[0]))
    note_reached(res, op, len(in_falsy) + len(par_falsy), reached, sorted({falsy_kind(x) for x in kinds}))
    if hit_par and not derived:
        res.count("falsy_parameter_reached_output")
    if why is not None:
        res.violation("C08:%s:%s" % (op, classify(alts[0], actual)),
                      {"why": why, "oracle": "%s model" % kind.upper(), "case": desc, "expected": shown,
                       "observed": show_timed(actual)}, {"seed": seed, "idx": idx})
        return
    ok, eq = agnostic(kind, case)
    if ok:
        actual_b, fed, escaped_b = relabel_single(case, mod.build, msgs, case["hot"], eq)
        res.count("relabelled_runs_compared")
        ca = [(t, k, M.canon(v)) for (t, k, v) in actual]
        cb = [(t, k, M.canon(v)) for (t, k, v) in actual_b]
        if ca != cb or len(escaped_b) != len(lab.escaped_to_scheduler):
            what = classify([(t, k, v) for (t, k, v) in cb], [(t, k, v) for (t, k, v) in ca]) if ca != cb else "escaped"
            res.violation("C08:%s:%s" % (op, what),
                          {"why": "outputs differ between falsy payloads and truthy tokens", "oracle": "metamorphic relabelling",
                           "case": desc, "with_falsy_payloads": [[t, k, M.show_val(v)] for (t, k, v) in actual],
                           "with_truthy_tokens": [[t, k, M.show_val(v)] for (t, k, v) in actual_b]},
                          {"seed": seed, "idx": idx})


def run_seqeq(r: Any, case: dict, seed: int, idx: int, res: UnitResult) -> None:
    lab, obs, seen1, seen2 = SQ.run(r, case)
    desc = c06.describe(case)
    actual = obs.timed()
    nsub1 = sum(1 for e in lab.ev if e[2] == "sub" and e[3] == "s")
    nsub2 = sum(1 for e in lab.ev if e[2] == "sub" and e[3] == "s2")
    if nsub1 != 1 or (case["kind"] == "obs" and nsub2 != 1):
        why: Any = "sources subscribed %d / %d times (want once each)" % (nsub1, nsub2)
        events, expected = [], []
    else:
        events, info = SQ.merged_events(lab, case, seen1, seen2)
        expected, outcome = SQ.model(case, events)
        why = match_expected(expected, actual)
        res.count("seqeq:" + outcome)
    if why is None and lab.escaped_to_scheduler:
        why = "exception escaped to scheduler: %r" % (lab.escaped_to_scheduler[0],)
    in_falsy = falsy_leaves([v for (_, _, k, v) in events if k == "N"])
    reached = len(in_falsy) if any(k == "N" for (_, k, _) in expected) else 0
    shown_events = [[t, s, k, show(v)] for (t, s, k, v) in events]
    res.case(key=desc, nontrivial=reached > 0, sample={"case": desc, "events_as_offered": shown_events,
                                                       "expected": show_timed(expected), "observed": show_timed(actual)})
    res.note("ops", case["op"])
    res.count("model_outputs_compared", len(expected))
    note_reached(res, case["op"], len(in_falsy), reached, sorted({falsy_kind(x) for x in in_falsy}))
    if why is not None:
        res.violation("C08:%s:%s" % (case["op"], classify(expected, actual)),
                      {"why": why, "oracle": "C06 two-source model", "case": desc, "events_as_offered": shown_events,
                       "expected": show_timed(expected), "observed": show_timed(actual)}, {"seed": seed, "idx": idx})


# ---------------------------------------------------------------------------------- (c) blocking bridge, real threads

def _blocking(fn: Any) -> tuple:
    box: list = []

    def work() -> None:
        try:
            box.append(("value", fn()))
        except BaseException as e:   # noqa: BLE001 - reported as the outcome
            box.append(("error", e))
    th = threading.Thread(target=work, daemon=True)
    th.start()
    th.join(RUN_WATCHDOG_S)
    return box[0] if box else ("watchdog", None)


def run_thread(r: Any, name: str, seed: int, idx: int, res: UnitResult) -> None:
    vals = [M.gen_val(r, p_falsy=0.85) for _ in range(r.choice([0, 1, 1, 2, 3, 4]))]
    if vals and r.random() < 0.7:
        v = r.choice(M.FALSY)
        vals[-1] = type(v)() if isinstance(v, (list, dict)) else v
    toks = [M.Tok(v, i) for i, v in enumerate(vals)]

    def pipeline(items: list) -> Any:
        if name == "run":
            return rx.from_iterable(items)
        return rx.of(*items).pipe(ops.observe_on(NewThreadScheduler()))
    desc = {"op": name, "items": show(vals)}
    out_a = _blocking(lambda: pipeline(vals).run())
    out_b = _blocking(lambda: run_blocking(pipeline(toks)))
    res.note("ops", name)
    if "watchdog" in (out_a[0], out_b[0]):
        res.case(key=desc, nontrivial=False)
        res.inconclusive.append("run() did not return within %ss of wall clock (idx %d); no verdict for this case" % (RUN_WATCHDOG_S, idx))
        return
    nontrivial = bool(vals) and M.is_falsy(vals[-1])
    res.case(key=desc, nontrivial=nontrivial, sample={"case": desc, "run_returned": [out_a[0], show(out_a[1])],
                                                      "run_returned_for_tokens": [out_b[0], M.show_val(out_b[1])]})
    res.count("blocking_results_compared")
    note_reached(res, name, sum(1 for v in vals if M.is_falsy(v)), 1 if nontrivial else 0,
                 [falsy_kind(vals[-1])] if nontrivial else [])
    why = None
    if not vals:
        for o in (out_a, out_b):
            if not (o[0] == "error" and isinstance(o[1], SequenceContainsNoElementsError)):
                why = "empty sequence: run() gave %r (want SequenceContainsNoElementsError)" % (o,)
    else:
        if not (out_a[0] == "value" and strict(out_a[1]) == strict(vals[-1])):
            why = "run() gave %r, the last element is %r" % (out_a, vals[-1])
        elif not (out_b[0] == "value" and out_b[1] is toks[-1]):
            why = "with truthy tokens run() gave %r, the last element is %r" % (out_b, toks[-1])
    if why is not None:
        res.violation("C08:%s:value" % name, {"why": why, "oracle": "direct value model + relabelling", "case": desc},
                      {"seed": seed, "idx": idx})


# ---------------------------------------------------------------------------------- driver

def run_case(seed: int, idx: int, res: UnitResult) -> None:
    r = case_rng(seed, ID, idx)
    kind, name = PLAN[idx % len(PLAN)]
    if kind == "meta":
        run_meta(r, name, seed, idx, res)
    elif kind == "thread":
        run_thread(r, name, seed, idx, res)
    else:
        run_model(r, kind, name, seed, idx, res)


def run_unit(unit: dict, res: UnitResult) -> None:
    for idx in range(unit["lo"], unit["hi"]):
        run_case(unit["seed"], idx, res)


def replay(rep: dict, res: UnitResult) -> None:
    run_case(rep["seed"], rep["idx"], res)
