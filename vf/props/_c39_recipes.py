"""C39 helpers: argument synthesis for the fluent-vs-piped differential.

Everything here is a pure function of (Lab, rng): the same recipe is executed once per side in a fresh
Lab with an equally seeded rng, so both sides get equal arguments that live in their own laboratory.
"""
from __future__ import annotations

import datetime as _dt
from typing import Any, Callable

import reactivex as rx
import reactivex.operators as ops
from reactivex import Observable
from reactivex.internal.constants import UTC_ZERO
from reactivex.notification import OnCompleted, OnError, OnNext
from reactivex.scheduler.periodicscheduler import PeriodicScheduler
from reactivex.subject import ReplaySubject, Subject

from .. import registry as R
from ..common import show
from ..vlab import Lab, ProbeSource, SrcErr, gen_timeline, show_timeline

SUB_AT = 100.0        # virtual time of the (first) subscription
CONNECT_AT = 103.0    # connectables are connected here
LATE_AT = 131.0       # second subscriber of the multicasting methods
HORIZON = 700.0       # advance_to() bound of every run
ACTION_LIMIT = 40000  # runaway guard (scheduler actions per run)


# ------------------------------------------------------------------------------------------ scheduler proxy
class SchedProxy(PeriodicScheduler):
    """Counting proxy around the laboratory's virtual-time scheduler: logs every schedule*/now call into the
    ordered event log and forwards it.  A method that drops `scheduler=` leaves this log empty while the
    subscriber trace stays the same (the operator falls back to the subscribe-time scheduler)."""

    def __init__(self, lab: Lab) -> None:
        super().__init__()
        self.lab, self.ts, self.ncalls = lab, lab.ts, 0

    def _log(self, what: str, due: Any = None) -> None:
        self.ncalls += 1
        self.lab.add("sched", what, due)

    @property
    def now(self) -> _dt.datetime:
        self._log("now")
        return self.ts.now

    def schedule(self, action: Any, state: Any = None) -> Any:
        self._log("schedule")
        return self.ts.schedule(action, state)

    def schedule_relative(self, duetime: Any, action: Any, state: Any = None) -> Any:
        self._log("schedule_relative", duetime)
        return self.ts.schedule_relative(duetime, action, state)

    def schedule_absolute(self, duetime: Any, action: Any, state: Any = None) -> Any:
        self._log("schedule_absolute", duetime)
        return self.ts.schedule_absolute(duetime, action, state)

    def schedule_periodic(self, period: Any, action: Any, state: Any = None) -> Any:
        self._log("schedule_periodic", period)
        return super().schedule_periodic(period, action, state)   # runs through self.schedule_relative


class Box:
    """element type for pluck_attr"""

    def __init__(self, a: Any, b: Any) -> None:
        self.a, self.b = a, b

    def __canon__(self) -> Any:
        return ("Box", self.a, self.b)

    def __repr__(self) -> str:
        return "Box(%r, %r)" % (self.a, self.b)


# ------------------------------------------------------------------------------------------ generation context
class Ctx:
    def __init__(self, lab: Lab, r: Any, method: str, supplied: set) -> None:
        self.lab, self.r, self.method, self.supplied = lab, r, method, supplied
        self.desc: dict = {}
        self.proxy: SchedProxy | None = None
        self.src_tl: list = []
        self.late = False

    def pick(self, key: str, options: list) -> Any:
        v = self.r.choice(options)
        self.desc[key] = show(v)
        return v

    def fn(self, name: str, impl: Callable[..., Any], what: str | None = None) -> Any:
        if what is not None:
            self.desc[name] = "probe(%s)" % what
        return self.lab.fn(name, impl)

    def cold(self, name: str, msgs: list, describe: bool = True) -> ProbeSource:
        if describe:
            self.desc[name] = {"cold": show_timeline(msgs)}
        return self.lab.cold(name, msgs)

    def inner(self, name: str, msgs: list) -> ProbeSource:
        return self.lab.cold(name, msgs)

    def scheduler(self) -> SchedProxy:
        if self.proxy is None:
            self.proxy = SchedProxy(self.lab)
        return self.proxy


def _tick(d: float, v: Any = 0) -> list:
    return [(d, "N", v), (d, "C", None)]


# ------------------------------------------------------------------------------------------ sources
def src_default(ctx: Ctx, domain: str = "ints", term: Any = "auto", shift: float = 0.0, hot_ok: bool = True,
                maxlen: int = 6, conv: Callable[[Any, int], Any] | None = None, name: str = "src") -> ProbeSource:
    r = ctx.r
    hot = hot_ok and r.random() < 0.3
    tl = gen_timeline(r, domain, maxlen=maxlen, start=(SUB_AT if hot else 0.0) + shift, term=term)
    if conv is not None:
        n = 0
        new = []
        for (t, k, v) in tl:
            if k == "N":
                v = conv(v, n)
                n += 1
            new.append((t, k, v))
        tl = new
    ctx.src_tl = tl
    ctx.desc[name] = {"hot" if hot else "cold": show_timeline(tl)}
    return (ctx.lab.hot if hot else ctx.lab.cold)(name, tl)


def src_nonempty(ctx: Ctx) -> ProbeSource:
    s = src_default(ctx)
    return s


def src_err(ctx: Ctx) -> ProbeSource:
    """cold, terminal strictly after the subscription instant, mostly failing (catch / retry / resume)"""
    return src_default(ctx, term=ctx.r.choice(["E", "E", "E", "C"]), shift=5.0, hot_ok=False, maxlen=4)


def src_loop(ctx: Ctx) -> ProbeSource:
    """cold, completes strictly after the subscription instant (repeat / do_while / while_do)"""
    return src_default(ctx, term=ctx.r.choice(["C", "C", "C", "E"]), shift=5.0, hot_ok=False, maxlen=3)


def src_maybe_empty(ctx: Ctx) -> ProbeSource:
    if ctx.r.random() < 0.4:
        return src_default(ctx, maxlen=0, term="C")
    return src_default(ctx)


def src_short(ctx: Ctx) -> ProbeSource:
    """0..2 elements, completing (single / single_or_default / *_or_default)"""
    return src_default(ctx, maxlen=ctx.r.choice([0, 1, 1, 2, 3]), term=ctx.r.choice(["C", "C", "C", "E"]))


def src_inner(ctx: Ctx) -> ProbeSource:
    """source of inner probe sources (switch_latest, merge_all, exclusive, merge(max_concurrent=..))"""
    lab, r = ctx.lab, ctx.r
    inners: list = []

    def conv(v: Any, n: int) -> Any:
        tl = gen_timeline(r, "ints", maxlen=3, term=r.choice(["C", "C", "E", None]))
        tl = [(t, k, (100 * (n + 1) + x) if k == "N" else x) for (t, k, x) in tl]
        inners.append(show_timeline(tl))
        return lab.cold("in%d" % n, tl)

    s = src_default(ctx, conv=conv, maxlen=4)
    ctx.desc["inners"] = inners
    return s


def src_notifications(ctx: Ctx) -> ProbeSource:
    r = ctx.r

    def conv(v: Any, n: int) -> Any:
        c = r.random()
        return OnNext(v) if c < 0.8 else (OnCompleted() if c < 0.9 else OnError(SrcErr("inner#%d" % n)))

    return src_default(ctx, conv=conv)


def src_tuples(ctx: Ctx) -> ProbeSource:
    return src_default(ctx, conv=lambda v, n: (v, 50 + n))


def src_dicts(ctx: Ctx) -> ProbeSource:
    return src_default(ctx, conv=lambda v, n: {"a": v, "b": 50 + n})


def src_boxes(ctx: Ctx) -> ProbeSource:
    return src_default(ctx, conv=lambda v, n: Box(v, 50 + n))


def src_connectable(ctx: Ctx) -> Observable:
    return src_default(ctx).pipe(ops.publish())


def src_merge(ctx: Ctx) -> ProbeSource:
    return src_inner(ctx) if "max_concurrent" in ctx.supplied else src_default(ctx)


def src_flat(ctx: Ctx) -> ProbeSource:
    """flat_map()/flat_map_indexed() without a mapper need inner observables as elements"""
    if not (ctx.supplied & {"mapper", "mapper_indexed"}):
        return src_inner(ctx)
    return src_default(ctx)


# ------------------------------------------------------------------------------------------ parameter generators
# signature: gen(ctx, pname, ann) -> value
def g_pred(ctx: Ctx, p: str, ann: str) -> Any:
    n = ctx.pick(p, ["is_even", "lt2", "truthy"])
    return ctx.fn(p, R.PREDICATES[n])


def g_pred3(ctx: Ctx, p: str, ann: str) -> Any:
    n = ctx.pick(p, ["is_even", "lt2", "truthy"])
    f = R.PREDICATES[n]
    return ctx.fn(p, lambda x, i, s: f(x))


def g_pred_ix(ctx: Ctx, p: str, ann: str) -> Any:
    n = ctx.pick(p, sorted(R.PREDICATES_IX))
    return ctx.fn(p, R.PREDICATES_IX[n])


def _inner_for(ctx: Ctx, p: str, probe_ref: list, x: Any, extra: Any = None) -> ProbeSource:
    k = probe_ref[0].calls
    a = (x, "i0") if extra is None else (x, extra, "i0")
    b = (x, "i1") if extra is None else (x, extra, "i1")
    return ctx.inner("%s#%d" % (p, k), [(3.0, "N", a), (9.0, "N", b), (12.0, "C", None)])


def g_mapper(ctx: Ctx, p: str, ann: str) -> Any:
    """mapper / project: the annotation decides between value->value, value->Observable and
    Observable->Observable (publish, replay, publish_value)"""
    a = ann.replace(" ", "")
    ref: list = []
    if "Mapper[Observable[" in a:
        # Observable -> Observable: uses the shared sequence twice so that subject policies (plain / replay /
        # behaviour) and the number of source subscriptions become visible
        pr = ctx.fn(p, lambda o: rx.concat(o.pipe(ops.take(2)), o.pipe(ops.map(R.wrap))), "obs->concat(take(2), map(wrap))")
    elif ",Observable[" in a or "Observable[_B]" in a:
        pr = ctx.fn(p, lambda x: _inner_for(ctx, p, ref, x), "value->inner probe")
    else:
        n = ctx.pick(p, ["inc", "neg", "wrap"])
        pr = ctx.fn(p, R.MAPPERS[n])
    ref.append(pr)
    return pr


def g_mapper_ix(ctx: Ctx, p: str, ann: str) -> Any:
    a = ann.replace(" ", "")
    ref: list = []
    if ",Observable[" in a:
        pr = ctx.fn(p, lambda x, i: _inner_for(ctx, p, ref, x, i), "(value,index)->inner probe")
    else:
        n = ctx.pick(p, sorted(R.MAPPERS_IX))
        pr = ctx.fn(p, R.MAPPERS_IX[n])
    ref.append(pr)
    return pr


def g_star(ctx: Ctx, p: str, ann: str) -> Any:
    return ctx.fn(p, lambda a, b: (b, a), "(a,b)->(b,a)")


def g_key(ctx: Ctx, p: str, ann: str) -> Any:
    n = ctx.pick(p, ["key_mod3", "key_bool"])
    return ctx.fn(p, R.KEYS[n])


def g_numkey(ctx: Ctx, p: str, ann: str) -> Any:
    n = ctx.pick(p, ["inc", "neg"])
    return ctx.fn(p, R.MAPPERS[n])


def g_elem(ctx: Ctx, p: str, ann: str) -> Any:
    n = ctx.pick(p, ["wrap", "neg"])
    return ctx.fn(p, R.MAPPERS[n])


def g_eqcmp(ctx: Ctx, p: str, ann: str) -> Any:
    n = ctx.pick(p, ["eq_abs", "eq_parity"])
    f = R.eq_abs if n == "eq_abs" else (lambda a, b: int(R.num(a)) % 2 == int(R.num(b)) % 2)
    return ctx.fn(p, f)


def g_subcmp(ctx: Ctx, p: str, ann: str) -> Any:
    n = ctx.pick(p, ["cmp_rev", "cmp_abs"])
    return ctx.fn(p, R.SUBCOMPARERS[n])


def g_acc(ctx: Ctx, p: str, ann: str) -> Any:
    n = ctx.pick(p, ["acc_pair", "acc_sum"])
    return ctx.fn(p, R.ACCUMULATORS[n])


def g_const(*options: Any) -> Callable[[Ctx, str, str], Any]:
    def gen(ctx: Ctx, p: str, ann: str) -> Any:
        return ctx.pick(p, list(options))
    return gen


def g_skipcount(ctx: Ctx, p: str, ann: str) -> Any:
    return ctx.pick(p, [1, 3, 4])


def g_time(ctx: Ctx, p: str, ann: str) -> Any:
    return ctx.pick(p, [7.0, 12.0, 21.0])


def g_timeshift(ctx: Ctx, p: str, ann: str) -> Any:
    return ctx.pick(p, [5.0, 16.0, 30.0])


def g_abs_or_rel(ctx: Ctx, p: str, ann: str) -> Any:
    d = ctx.r.choice([8.0, 17.0, 33.0])
    if ctx.r.random() < 0.4:
        ctx.desc[p] = "absolute %s" % (SUB_AT + d)
        return UTC_ZERO + _dt.timedelta(seconds=SUB_AT + d)
    ctx.desc[p] = d
    return d


def g_sched(ctx: Ctx, p: str, ann: str) -> Any:
    ctx.desc[p] = "counting proxy"
    return ctx.scheduler()


def _other_tl(ctx: Ctx, offset: int, maxlen: int = 4) -> list:
    tl = gen_timeline(ctx.r, "ints", maxlen=maxlen, term=ctx.r.choice(["C", "C", "C", "E", None]))
    return [(t, k, v + offset if k == "N" else v) for (t, k, v) in tl]


def g_other(ctx: Ctx, p: str, ann: str) -> Any:
    return ctx.cold(p, _other_tl(ctx, 20))


def g_others(ctx: Ctx, p: str, ann: str, n: int) -> list:
    return [ctx.cold("%s%d" % (p, i), _other_tl(ctx, 20 * (i + 1))) for i in range(n)]


def g_values(ctx: Ctx, p: str, ann: str, n: int) -> list:
    vals = [ctx.r.choice([None, 0, "", 5, (1,), "x"]) for _ in range(n)]
    ctx.desc[p] = show(vals)
    return vals


def g_ticks(ctx: Ctx, p: str, ann: str) -> Any:
    per = ctx.r.choice([9.0, 14.0, 22.0])
    n = ctx.r.randint(2, 5)
    msgs: list = [(per * (i + 1), "N", "b%d" % i) for i in range(n)]
    if ctx.r.random() < 0.5:
        msgs.append((per * (n + 1), "C", None))
    return ctx.cold(p, msgs)


def g_durmap(ctx: Ctx, p: str, ann: str) -> Any:
    """callable(*a) -> fresh duration probe (closing / duration / delay / timeout / throttle mappers)"""
    d = ctx.pick(p, [4.0, 6.0, 9.0, 13.0, 17.0])
    ref: list = []

    def impl(*a: Any) -> Any:
        return ctx.inner("%s#%d" % (p, ref[0].calls), _tick(d))

    pr = ctx.fn(p, impl)
    ref.append(pr)
    return pr


def g_subjmap(ctx: Ctx, p: str, ann: str) -> Any:
    ctx.desc[p] = "probe(()->ReplaySubject(1))"
    return ctx.fn(p, lambda: ReplaySubject(1, scheduler=ctx.lab.ts))


def g_subject(ctx: Ctx, p: str, ann: str) -> Any:
    k = ctx.pick(p, ["Subject", "ReplaySubject(2)"])
    return Subject() if k == "Subject" else ReplaySubject(2, scheduler=ctx.lab.ts)


def g_handler(ctx: Ctx, p: str, ann: str) -> Any:
    if ctx.r.random() < 0.5:
        return ctx.cold(p, _other_tl(ctx, 20))
    tl = _other_tl(ctx, 20)
    ctx.desc[p] = {"probe((exc,src)->cold)": show_timeline(tl)}
    ref: list = []
    pr = ctx.fn(p, lambda e, s: ctx.inner("%s#%d" % (p, ref[0].calls), tl))
    ref.append(pr)
    return pr


def g_condition(ctx: Ctx, p: str, ann: str) -> Any:
    k = ctx.pick(p, [0, 1, 2])
    ref: list = []
    pr = ctx.fn(p, lambda o: ref[0].calls <= k)
    ref.append(pr)
    return pr


def g_cb(nargs: int) -> Callable[[Ctx, str, str], Any]:
    def gen(ctx: Ctx, p: str, ann: str) -> Any:
        ctx.desc[p] = "probe"
        return ctx.fn(p, (lambda: None) if nargs == 0 else (lambda x: None))
    return gen


def g_future_ctor(ctx: Ctx, p: str, ann: str) -> Any:
    import concurrent.futures
    ctx.desc[p] = "probe(()->concurrent.futures.Future())"
    return ctx.fn(p, lambda: concurrent.futures.Future())


def g_sub_delay(ctx: Ctx, p: str, ann: str) -> Any:
    """delay_with_mapper(subscription_delay[, delay_duration_mapper]): alone it may also be the duration mapper"""
    if "delay_duration_mapper" in ctx.supplied or ctx.r.random() < 0.5:
        return ctx.cold(p, _tick(ctx.r.choice([5.0, 11.0])))
    return g_durmap(ctx, p, ann)


def g_first_timeout(ctx: Ctx, p: str, ann: str) -> Any:
    return ctx.cold(p, _tick(ctx.r.choice([6.0, 14.0])))


def g_sampler(ctx: Ctx, p: str, ann: str) -> Any:
    if ctx.r.random() < 0.5:
        return g_time(ctx, p, ann)
    return g_ticks(ctx, p, ann)


def g_contains_value(ctx: Ctx, p: str, ann: str) -> Any:
    vals = [v for (_, k, v) in ctx.src_tl if k == "N"]
    v = ctx.r.choice(vals) if vals and ctx.r.random() < 0.7 else 4
    v = -v if ctx.r.random() < 0.5 else v      # only the equality comparer (eq_abs) finds the negated value
    ctx.desc[p] = v
    return v


def g_seq_second(ctx: Ctx, p: str, ann: str) -> Any:
    """sequence_equal: the second sequence equals the source up to sign, sometimes not at all; Observable or list"""
    vals = [v for (_, k, v) in ctx.src_tl if k == "N"]
    c = ctx.r.random()
    if c < 0.3:
        vals = [-v for v in vals]
    elif c < 0.5:
        vals = vals[:-1] if vals else [1]
    if ctx.r.random() < 0.5:
        ctx.desc[p] = vals
        return list(vals)
    return ctx.cold(p, [(4.0 * (i + 1), "N", v) for i, v in enumerate(vals)] + [(4.0 * (len(vals) + 1), "C", None)])


def g_iterable(ctx: Ctx, p: str, ann: str) -> Any:
    vals = [20 + i for i in range(ctx.r.randint(0, 4))]
    ctx.desc[p] = vals
    return vals


def g_expand_mapper(ctx: Ctx, p: str, ann: str) -> Any:
    ref: list = []

    def impl(x: Any) -> Any:
        k = ref[0].calls
        if R.num(x) < 3 and k < 12:
            return ctx.inner("%s#%d" % (p, k), [(4.0, "N", R.num(x) + 2), (4.0, "C", None)])
        return ctx.inner("%s#%d" % (p, k), [(1.0, "C", None)])

    pr = ctx.fn(p, impl, "x -> cold(x+2) while x<3")
    ref.append(pr)
    return pr


# by parameter name
BY_NAME: dict[str, Callable[..., Any]] = {
    "predicate": g_pred, "predicate_indexed": g_pred_ix,
    "mapper": g_mapper, "project": g_mapper, "mapper_indexed": g_mapper_ix,
    "key_mapper": g_key, "element_mapper": g_elem, "comparer": g_eqcmp,
    "accumulator": g_acc, "seed": g_const(0, "s", 10),
    "count": g_const(0, 1, 2, 3), "index": g_const(0, 1, 2, 4), "skip": g_skipcount,
    "duetime": g_time, "duration": g_time, "timespan": g_time, "window_duration": g_time, "period": g_time,
    "timeshift": g_timeshift, "start_time": g_abs_or_rel, "end_time": g_abs_or_rel,
    "scheduler": g_sched,
    "other": g_other, "second": g_other, "right": g_other, "right_source": g_other,
    "boundaries": g_ticks, "openings": g_ticks, "sampler": g_sampler,
    "closing_mapper": g_durmap, "left_duration_mapper": g_durmap, "right_duration_mapper": g_durmap,
    "duration_mapper": g_durmap, "throttle_duration_mapper": g_durmap, "delay_duration_mapper": g_durmap,
    "timeout_duration_mapper": g_durmap,
    "subject_mapper": g_subjmap, "subject": g_subject,
    "default_value": g_const("dflt", -77, 0), "initial_value": g_const("init", -5), "value": g_contains_value,
    "has_default": g_const(True), "inclusive": g_const(True),
    "start": g_const(1, 2), "stop": g_const(3, 4, 5), "step": g_const(2, 3),
    "buffer_size": g_const(0, 1, 2), "window": g_const(15.0, 25.0),
    "retry_count": g_const(0, 1, 2, 3), "repeat_count": g_const(0, 1, 2, 3), "max_concurrent": g_const(1, 2),
    "handler": g_handler, "condition": g_condition, "action": g_cb(0),
    "on_next": g_cb(1), "on_error": g_cb(1), "on_completed": g_cb(0),
    "key": g_const("a", "b"), "attr": g_const("a", "b"),
    "future_ctor": g_future_ctor, "subscription_delay": g_sub_delay, "first_timeout": g_first_timeout,
}
# var-positional parameters: gen(ctx, pname, ann, n) -> list
BY_NAME_VAR: dict[str, Callable[..., list]] = {"sources": g_others, "others": g_others, "args": g_values}

# per-method overrides: "src": source recipe, "p": {param: generator}, "late": second subscriber,
# "with": {param: [params that must accompany it]}
OVERRIDES: dict[str, dict] = {
    "merge": {"src": src_merge},
    "switch_latest": {"src": src_inner}, "merge_all": {"src": src_inner}, "exclusive": {"src": src_inner},
    "flat_map": {"src": src_flat}, "flat_map_indexed": {"src": src_flat},
    "zip_with_iterable": {"p": {"second": g_iterable}},
    "default_if_empty": {"src": src_maybe_empty},
    "find": {"p": {"predicate": g_pred3}}, "find_index": {"p": {"predicate": g_pred3}},
    "catch": {"src": src_err}, "retry": {"src": src_err}, "on_error_resume_next": {"src": src_err},
    "repeat": {"src": src_loop}, "do_while": {"src": src_loop}, "while_do": {"src": src_loop},
    "single": {"src": src_short}, "single_or_default": {"src": src_short}, "single_or_default_async": {"src": src_short},
    "first_or_default": {"src": src_short}, "last_or_default": {"src": src_short},
    "element_at_or_default": {"src": src_short}, "is_empty": {"src": src_maybe_empty},
    "sum": {"p": {"key_mapper": g_numkey}}, "average": {"p": {"key_mapper": g_numkey}},
    "min": {"p": {"comparer": g_subcmp}}, "max": {"p": {"comparer": g_subcmp}},
    "min_by": {"p": {"comparer": g_subcmp}}, "max_by": {"p": {"comparer": g_subcmp}},
    "share": {"late": True}, "publish": {"late": True}, "multicast": {"late": True}, "publish_value": {"late": True},
    "replay": {"late": True, "with": {"window": ["scheduler"]}},
    "ref_count": {"src": src_connectable, "late": True},
    "sequence_equal": {"p": {"second": g_seq_second}},
    "starmap": {"src": src_tuples, "p": {"mapper": g_star}},
    "starmap_indexed": {"src": src_tuples, "p": {"mapper_indexed": g_star}},
    "pluck": {"src": src_dicts}, "pluck_attr": {"src": src_boxes},
    "expand": {"p": {"mapper": g_expand_mapper}},
    "dematerialize": {"src": src_notifications},
    "timeout": {"p": {"duetime": g_const(6.0, 11.0, 14.0)}},
    "to_marbles": {"p": {"timespan": g_const(2.0, 5.0)}},
    "delay_subscription": {"p": {"duetime": g_abs_or_rel}},
}
