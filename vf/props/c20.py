"""C20 A Subject broadcasts to exactly the observers subscribed at the time (sequential-model differential)."""
from __future__ import annotations

from typing import Any

from reactivex.subject import Subject

from ..common import UnitResult, chunks
from ._subjects import gen_history, sync_case

ID = "C20"
LEVEL = "exploration"
RULE = ("seeded random call histories of 1..14 calls from {subscribe(i), unsubscribe(i), on_next(v), on_error(e), "
        "on_completed(), dispose()} on one Subject; every subscribe uses a fresh probe observer (observer object, three "
        "callbacks, or on_next only after dispose); observers may, inside their k-th callback, unsubscribe themselves, "
        "unsubscribe another observer or subscribe a new observer (never emit); values are unique per history and "
        "include None/0/False/''/0.0/(); per-observer received sequence and per-call outcome (DisposedException or not) "
        "are compared with a sequential model (delivery set = observers subscribed at call time in subscription order, "
        "minus those whose dispose() returned before their turn; late subscribers get only the stored terminal); "
        "non-trivial = at least one delivery or one call that must raise; distinct = digest of the history")
ASSUMPTIONS = ["probe observers are harness code; reactions never raise and never emit re-entrantly",
               "the model visits observers in subscription order (DESIGN.md C20)"]
CASES = {"quick": 4000, "thorough": 300000}
REQUIRED = {"deliveries": {"quick": 3000, "thorough": 100000},
            "late_subscribers": {"quick": 200, "thorough": 5000},
            "unsub_in_callback": {"quick": 100, "thorough": 3000},
            "sub_in_callback": {"quick": 100, "thorough": 3000},
            "disposed_calls": {"quick": 300, "thorough": 8000},
            "falsy_delivered": {"quick": 300, "thorough": 8000},
            "runs:free": {"quick": 1000, "thorough": 20000}, "free_injected_yields": {"quick": 3000, "thorough": 60000}}


def units(tier: str, seed: int) -> list[dict]:
    from ._subjects_conc import conc_units
    return [{"lo": lo, "hi": hi, "seed": seed} for lo, hi in chunks(CASES[tier], 16 if tier == "quick" else 64)] + conc_units(tier, seed)


def gen(r: Any) -> dict:
    return gen_history(r)


def run_case(seed: int, idx: int, res: UnitResult) -> None:
    sync_case(ID, "subject", seed, idx, res, gen, lambda h: Subject())


def run_unit(unit: dict, res: UnitResult) -> None:
    if unit.get("mode") == "conc":
        from ._subjects_conc import run_conc_unit
        run_conc_unit(ID, 'subject', unit, res)
        return
    for idx in range(unit["lo"], unit["hi"]):
        run_case(unit["seed"], idx, res)


def replay(rep: dict, res: UnitResult) -> None:
    if "scenario" in rep:
        from ._subjects_conc import replay_conc
        replay_conc(ID, 'subject', rep, res)
        return
    run_case(rep["seed"], rep["idx"], res)
