"""C23 An AsyncSubject delivers only the final value (sequential-model differential)."""
from __future__ import annotations

from typing import Any

from reactivex.subject import AsyncSubject

from ..common import UnitResult, case_rng, chunks
from ._subjects import gen_history, is_falsy_value, sync_case

ID = "C23"
LEVEL = "exploration"
RULE = ("call histories as for C20 (1..14 calls from subscribe/unsubscribe/on_next/on_error/on_completed/dispose, "
        "observers that unsubscribe self/other or subscribe a new observer inside a callback, unique values incl. "
        "None/0/False/''/0.0/()) on an AsyncSubject; sequential model: nothing before termination; at on_completed "
        "every current subscriber gets the last value (if any on_next happened; falsy values count) then completion, "
        "later subscribers the same; at on_error only the error, also later; C20 rules for unsubscribe "
        "(an observer unsubscribing inside the value callback does not get the completion) and dispose; "
        "non-trivial = at least one delivery or one call that must raise; distinct = digest of the history")
ASSUMPTIONS = ["probe observers are harness code; reactions never raise and never emit re-entrantly",
               "the model visits observers in subscription order (DESIGN.md C20)"]
CASES = {"quick": 4000, "thorough": 300000}
REQUIRED = {"deliveries": {"quick": 2500, "thorough": 90000},
            "late_subscribers": {"quick": 300, "thorough": 8000},
            "unsub_in_callback": {"quick": 60, "thorough": 2000},
            "sub_in_callback": {"quick": 60, "thorough": 2000},
            "disposed_calls": {"quick": 300, "thorough": 8000},
            "final_value_falsy": {"quick": 150, "thorough": 5000},
            "completed_without_value": {"quick": 100, "thorough": 3000},
            "error_after_value": {"quick": 80, "thorough": 3000}}
PROFILE_W = {  # termination must happen for anything to be delivered: heavier on completion than C20
    "sub": 0.30, "unsub": 0.10, "next": 0.30, "error": 0.08, "completed": 0.18, "dispose": 0.04,
            "runs:free": {"quick": 1000, "thorough": 20000}, "free_injected_yields": {"quick": 3000, "thorough": 60000}}


def units(tier: str, seed: int) -> list[dict]:
    from ._subjects_conc import conc_units
    return [{"lo": lo, "hi": hi, "seed": seed} for lo, hi in chunks(CASES[tier], 16 if tier == "quick" else 64)] + conc_units(tier, seed)


def gen(r: Any) -> dict:
    return gen_history(r, falsy_rate=0.5, weights=PROFILE_W if r.random() < 0.6 else None)


def classify(h: dict, res: UnitResult) -> None:
    """what the terminating call found (from the history alone)"""
    last: Any = None
    has = False
    for c in h["calls"]:
        if c[0] == "dispose":
            return
        if c[0] == "next":
            has, last = True, c[1]
        elif c[0] == "completed":
            if not has:
                res.count("completed_without_value")
            elif is_falsy_value(last):
                res.count("final_value_falsy")
            return
        elif c[0] == "error":
            if has:
                res.count("error_after_value")
            return


def run_case(seed: int, idx: int, res: UnitResult) -> None:
    classify(gen(case_rng(seed, ID, idx)), res)
    sync_case(ID, "async", seed, idx, res, gen, lambda h: AsyncSubject())


def run_unit(unit: dict, res: UnitResult) -> None:
    if unit.get("mode") == "conc":
        from ._subjects_conc import run_conc_unit
        run_conc_unit(ID, 'async', unit, res)
        return
    for idx in range(unit["lo"], unit["hi"]):
        run_case(unit["seed"], idx, res)


def replay(rep: dict, res: UnitResult) -> None:
    if "scenario" in rep:
        from ._subjects_conc import replay_conc
        replay_conc(ID, 'async', rep, res)
        return
    run_case(rep["seed"], rep["idx"], res)
