"""C15 Time-shifting operators move notifications by the requested time (virtual time, model differential).

Oracles are written from the property statement:
  delay(d)              every element and the completion exactly d later, same order; an error at its own time,
                        pending elements dropped (an element due at exactly the error instant may fall on either side);
                        an absolute datetime D means d = D - subscription time
  delay_subscription(d) the source is subscribed exactly once, at t0 + d (or at the absolute datetime), and the
                        result is what the source then offers
  delay_with_mapper     element x is delivered at the first N or C of ITS delay observable (observed trace order);
                        completion after the source completed and nothing is pending; optional subscription delay
  timestamp             (value, scheduler clock reading at emission)
  time_interval         (value, time since previous element / subscription)
"""
from __future__ import annotations

import datetime as _dt
from typing import Any

import reactivex.operators as ops

from ..common import UnitResult, case_rng, chunks, show, strict
from ..single import SUB_AT, cut_after_terminal, make_input, match_expected, run_single, show_timed
from ..vlab import Lab, gen_timeline, show_timeline
from . import _c15_time as T

ID = "C15"
LEVEL = "exploration"
RULE = ("seeded random cases: operator (delay, delay_subscription, delay_with_mapper with and without subscription "
        "delay, timestamp, time_interval) x clock (TestScheduler float seconds / HistoricalScheduler datetime) x "
        "due-time shape (int, float, timedelta, absolute datetime) x scheduler given to the operator or to subscribe "
        "x hot/cold coarse-grid timeline (0..6 elements, same-instant bursts, C/E/never); delay observables are probe "
        "sources firing by N, by C, twice, never or synchronously; non-trivial = the subscriber is offered >= 1 "
        "element or the model expects >= 1 output; distinct = digest of (operator, parameters, clock, timeline)")
ASSUMPTIONS = ["TestScheduler / HistoricalScheduler are the clock (their ordering is checked independently by C28)",
               "probe sources and probe observers are harness code (conforming here)",
               "an absolute datetime given to delay() denotes the shift D - (subscription time); only D >= subscription time is generated"]
CASES = {"quick": 16000, "thorough": 640000}
OPS = ["delay", "delay", "delay", "delay_subscription", "delay_subscription", "delay_with_mapper", "delay_with_mapper",
       "delay_with_mapper", "timestamp", "time_interval"]
OPSET = sorted(set(OPS))
REQUIRED = {"set:ops": len(OPSET), "set:clocks": 2, "set:shapes": 4,
            "ties": {"quick": 50, "thorough": 1000},
            "delay_error_with_pending": {"quick": 20, "thorough": 400},
            "delay_zero": {"quick": 10, "thorough": 200},
            "same_instant_bursts": {"quick": 100, "thorough": 2000},
            "dwm_coinciding_fires": {"quick": 20, "thorough": 400},
            "resubscriptions_checked": {"quick": 1500, "thorough": 30000}}
DELAYS = [0, 0, 1, 4, 5, 5, 10, 10, 15, 20, 2.5]


def units(tier: str, seed: int) -> list[dict]:
    return [{"lo": lo, "hi": hi, "seed": seed} for lo, hi in chunks(CASES[tier], 16 if tier == "quick" else 64)]


def gen_case(r: Any, idx: int) -> dict:
    op = OPS[idx % len(OPS)]
    clock = r.choice(["num", "dt"])
    domain = r.choice(["ints", "falsy", "dups"])
    hot = r.random() < 0.4
    tl = gen_timeline(r, domain, maxlen=6)
    n = sum(1 for m in tl if m[1] == "N")
    # "both": the operator gets the lab's scheduler explicitly AND subscribe() hands down a different scheduler object (one that is
    # never started): "the scheduler" of the statement is the one given to the operator
    P: dict = {"sched": r.choice(["arg", "sub", "both"]) if op in ("delay", "delay_subscription", "timestamp", "time_interval") else r.choice(["arg", "sub"])}
    if op in ("delay", "delay_subscription"):
        P["d"] = r.choice(DELAYS)
        P["shape"] = r.choice(["int", "float", "td", "abs"])
    elif op == "delay_with_mapper":
        P["delays"] = [T.gen_fire_spec(r) for _ in range(n)]
        P["sub_delay"] = T.gen_fire_spec(r, allow_sync=False, allow_never=False) if r.random() < 0.35 else None
    return {"op": op, "P": P, "tl": tl, "hot": hot, "clock": clock, "domain": domain}


def build(case: dict, lab: Lab, src: Any) -> Any:
    op, P = case["op"], case["P"]
    T.arm(lab)
    sch = lab.ts if P["sched"] in ("arg", "both") else None
    if op == "delay":
        return src.pipe(ops.delay(T.due(lab, P["shape"], rel=P["d"], at=SUB_AT + P["d"]), scheduler=sch))
    if op == "delay_subscription":
        return src.pipe(ops.delay_subscription(T.due(lab, P["shape"], rel=P["d"], at=SUB_AT + P["d"]), scheduler=sch))
    if op == "delay_with_mapper":
        calls = [0]

        def mapper(x: Any) -> Any:
            i = calls[0]
            calls[0] += 1
            return T.make_probe(lab, "d%d" % i, P["delays"][i])
        if P["sub_delay"] is not None:
            return src.pipe(ops.delay_with_mapper(T.make_probe(lab, "sd", P["sub_delay"]), mapper))
        return src.pipe(ops.delay_with_mapper(mapper))
    if op == "timestamp":
        return src.pipe(ops.timestamp(scheduler=sch))
    if op == "time_interval":
        return src.pipe(ops.time_interval(scheduler=sch))
    raise KeyError(op)


# ------------------------------------------------------------------------------------------- models

def model_delay(seen: list, d: float) -> list[list]:
    seen = cut_after_terminal(seen)
    elems = [(t, v) for (t, k, v) in seen if k == "N"]
    term = seen[-1] if seen and seen[-1][1] in "EC" else None
    if term is not None and term[1] == "E":
        te = term[0]
        before = [(t + d, "N", v) for (t, v) in elems if t + d < te]
        tied = [(t + d, "N", v) for (t, v) in elems if t + d == te]
        # due at exactly the error instant: the delay timer and the error race (rule 2); order kept => a prefix
        return [before + tied[:k] + [term] for k in range(len(tied) + 1)]
    out = [(t + d, "N", v) for (t, v) in elems]
    if term is not None:
        out.append((term[0] + d, "C", None))
    return [out]


def model_dwm(lab: Lab) -> list:
    """Walks the observed trace: source element i is pending until the first N/C of delay source d<i>."""
    out: list = []
    pending: dict[int, Any] = {}
    n = 0
    done = False
    for (seq, t, name, sid, k, v) in T.emits(lab):
        if name == "s":
            if k == "N":
                pending[n] = v
                n += 1
            elif k == "E":
                out.append((t, "E", v))
                return out
            else:
                done = True
                if not pending:
                    out.append((t, "C", None))
                    return out
        elif name.startswith("d") and name[1:].isdigit():
            i = int(name[1:])
            if i in pending and k in "NC":
                out.append((t, "N", pending.pop(i)))
                if done and not pending:
                    out.append((t, "C", None))
                    return out
    return out


def model_stamp(seen: list, t0: float, interval: bool) -> list:
    seen = cut_after_terminal(seen)
    out = []
    last = t0
    for (t, k, v) in seen:
        if k == "N":
            out.append((t, "N", (v, t - last if interval else t)))
            last = t
        else:
            out.append((t, k, v))
    return out


def err_instant_alts(alts: list[list]) -> list[list]:
    """delay_subscription: the statement fixes WHEN the source is subscribed; it says nothing about elements that the
    source emits at the very instant of its error.  The library routes elements (not errors) through a scheduled hop,
    so such elements are overtaken by the error and lost.  Not forbidden by the statement => both outcomes accepted
    (order kept: a prefix of that burst survives) and the loss is counted as an observation."""
    out = []
    for a in alts:
        out.append(a)
        if a and a[-1][1] == "E":
            te = a[-1][0]
            k = len(a) - 1
            while k > 0 and a[k - 1][1] == "N" and a[k - 1][0] == te:
                k -= 1
                out.append(a[:k] + [a[-1]])
    return out


def describe(case: dict) -> dict:
    P = dict(case["P"])
    if "delays" in P:
        P["delays"] = [T.show_spec(s) for s in P["delays"]]
        P["sub_delay"] = T.show_spec(P["sub_delay"])
    return {"op": case["op"], "params": show(P), "clock": case["clock"], "hot": case["hot"],
            "timeline": show_timeline(case["tl"])}


def run_case(seed: int, idx: int, res: UnitResult) -> None:
    r = case_rng(seed, ID, idx)
    case = gen_case(r, idx)
    op, P = case["op"], case["P"]
    msgs, seen = make_input(r, case["tl"], case["hot"])
    other = None
    if P["sched"] == "both":
        other = T.frozen_scheduler
        res.count("cases_with_a_different_scheduler_at_subscribe")
    lab, obs, src = run_single(lambda lab, s: build(case, lab, s), msgs, case["hot"], clock=case["clock"], sub_scheduler=other)
    desc = describe(case)
    if T.spun(lab):
        # not judged against the model (times are meaningless once the scheduler spins); reported as its own mechanism
        res.count("same_instant_livelocks")
        res.case(key=desc, nontrivial=False)
        res.violation("C15:%s:same-instant-livelock" % op,
                      {"why": "more than %d scheduler actions at one virtual instant (%d): the operator keeps rescheduling "
                              "itself without advancing; run stopped" % (T.SPIN_GUARD, lab.max_same_instant),
                       "case": desc, "observed_so_far": show_timed(obs.timed())}, {"seed": seed, "idx": idx})
        return
    actual = obs.timed()
    why = None
    extra: dict = {}
    alts: list[list]
    seen_cut = cut_after_terminal(seen)

    if op == "delay":
        d = P["d"]
        alts = model_delay(seen, d)
        if len(alts) > 1:
            res.count("ties")
            res.count("boundary_hits")
        term = seen_cut[-1] if seen_cut and seen_cut[-1][1] in "EC" else None
        if term is not None and term[1] == "E" and any(k == "N" and t + d >= term[0] for (t, k, v) in seen_cut):
            res.count("delay_error_with_pending")
        if d == 0 and any(k == "N" for (_, k, _) in seen_cut):
            res.count("delay_zero")
        why = T.match_any(alts, actual)
    elif op == "delay_subscription":
        d = P["d"]
        sub = T.subs(lab, "s")
        src_out = cut_after_terminal([(t, k, v) for (seq, t, name, sid, k, v) in T.emits(lab) if name == "s"])
        alts = [src_out]
        extra["source_subscriptions"] = [t for (_, t) in sub]
        if len(sub) != 1:
            why = "source subscribed %d times (expected once, at %s)" % (len(sub), SUB_AT + d)
        elif abs(sub[0][1] - (SUB_AT + d)) > 1e-9:
            why = "source subscribed at %s, expected %s" % (sub[0][1], SUB_AT + d)
        else:
            # (1) the result is what the source delivered to that one subscription (observed trace) ...
            alts = err_instant_alts([src_out])
            why = T.match_any(alts, actual)
            # (2) ... and that is what the description says a subscriber arriving at t0+d is offered
            if why is None and not case["hot"]:
                alts = err_instant_alts([[(t + d, k, v) for (t, k, v) in seen_cut]])
                why = T.match_any(alts, actual)
            if why is None and case["hot"]:
                # a hot source offers everything strictly after t0+d, nothing from before; notifications at
                # exactly t0+d race with the subscription timer (rule 2): any suffix of that burst is accepted
                B = SUB_AT + d
                at = [m for m in msgs if m[0] == B]
                after = [m for m in msgs if m[0] > B]
                if any(m[1] in "EC" for m in msgs if m[0] < B):
                    alts = [[]]
                else:
                    alts = [cut_after_terminal(at[p:] + after) for p in range(len(at) + 1)]
                if at:
                    res.count("ties")
                    res.count("boundary_hits")
                alts = err_instant_alts(alts)
                why = T.match_any(alts, actual)
            if why is None and match_expected(src_out, actual) is not None:
                # observation, not a violation (DESIGN §4 rule 3): see err_instant_alts
                res.count("obs_delay_subscription_element_lost_at_error_instant")
        if d == 0:
            res.count("delay_zero")
    elif op == "delay_with_mapper":
        expected = model_dwm(lab)
        alts = [expected]
        sub = T.subs(lab, "s")
        extra["source_subscriptions"] = [t for (_, t) in sub]
        if P["sub_delay"] is None:
            want_sub = SUB_AT
        else:
            want_sub = SUB_AT + T.fires_at(P["sub_delay"])
            res.count("dwm_with_subscription_delay")
        if len(sub) != 1 or abs(sub[0][1] - want_sub) > 1e-9:
            why = "source subscriptions at %s, expected exactly one at %s" % ([t for (_, t) in sub], want_sub)
        else:
            why = match_expected(expected, actual)
        if why is None and not case["hot"] and P["sub_delay"] is None:
            # cross-check of the trace-driven model with the description: element i fires at t_i + offset_i
            fire = []
            for i, (t, v) in enumerate([(t, v) for (t, k, v) in seen_cut if k == "N"]):
                off = T.fires_at(P["delays"][i])
                fire.append(None if off is None else t + off)
            term = seen_cut[-1] if seen_cut and seen_cut[-1][1] in "EC" else None
            limit = term[0] if term is not None and term[1] == "E" else None
            want_times = sorted(f for f in fire if f is not None and (limit is None or f < limit))
            got_times = [t for (t, k, v) in actual if k == "N" and (limit is None or t < limit)]
            if want_times != got_times:
                why = "delivery times %s differ from element time + delay offset %s" % (got_times, want_times)
        fires = [t for (seq, t, name, sid, k, v) in T.emits(lab) if name != "s"] + \
                [t for (seq, t, name, sid, k, v) in T.emits(lab) if name == "s" and k != "N"]
        if len(fires) != len(set(fires)):
            res.count("dwm_coinciding_fires")
            res.count("ties")
        if any(s["kind"] == "sync" for s in P["delays"]):
            res.count("dwm_sync_delay")
    else:
        expected = model_stamp(seen, SUB_AT, op == "time_interval")
        alts = [expected]
        conv = []
        for (t, k, v) in actual:
            if k == "N":
                if op == "timestamp":
                    v = (getattr(v, "value", "<no .value>"), T.clock_seconds(lab, getattr(v, "timestamp", None)))
                else:
                    iv = getattr(v, "interval", None)
                    v = (getattr(v, "value", "<no .value>"),
                         iv.total_seconds() if isinstance(iv, _dt.timedelta) else ("not-a-timedelta", repr(iv)))
                    if isinstance(v[1], float) and v[1] == 0.0:
                        res.count("zero_intervals")
            conv.append((t, k, v))
        actual = conv
        # model times are floats (seconds); intervals/timestamps come back as floats too
        expected = [(t, k, (v[0], float(v[1])) if k == "N" else v) for (t, k, v) in expected]
        alts = [expected]
        why = match_expected(expected, actual)

    times = [t for (t, k, v) in seen_cut]
    if len(times) != len(set(times)):
        res.count("same_instant_bursts")
    nontrivial = any(m[1] == "N" for m in seen) or any(e[1] == "N" for a in alts for e in a)
    res.case(key=desc, nontrivial=nontrivial,
             sample={"case": desc, "expected": show_timed(alts[0]), "observed": show_timed(actual)} if idx % 11 == 0 else None)
    res.note("ops", op)
    res.note("clocks", case["clock"])
    if "shape" in P:
        res.note("shapes", P["shape"])
    res.count("outputs_compared", len(alts[0]))
    if why is None and lab.escaped_to_scheduler:
        why = "exception escaped to scheduler: %r" % (lab.escaped_to_scheduler[0],)
    if why is not None:
        detail = {"why": why, "case": desc, "accepted": [show_timed(a) for a in alts[:4]], "observed": show_timed(actual)}
        detail.update(extra)
        res.violation("C15:%s" % op, detail, {"seed": seed, "idx": idx})
    if why is None and op == "delay" and not case["hot"] and (P["shape"] != "abs" or P["d"] > 7) and idx % 2 == 0:
        second_subscription_delay(case, res, seed, idx, desc)
    if why is None and op != "delay" and P.get("shape") != "abs" and idx % 3 == 0:
        resubscription_case(case, res, seed, idx, desc)


def second_subscription_delay(case: dict, res: UnitResult, seed: int, idx: int, desc: dict) -> None:
    """delay(...) built ONCE and subscribed at SUB_AT and again a little later: every subscription must be shifted by the
    requested time (a relative delay by d; an absolute due time by due - its own subscription time)."""
    from ..vlab import Lab
    P = case["P"]
    off = 3.0 if idx % 4 == 0 else 7.0
    lab = Lab(case["clock"])
    src = lab.cold("s", list(case["tl"]))
    first, second = lab.observer("first"), lab.observer("second")
    holder: dict = {}

    def sub1() -> None:
        holder["o"] = build(case, lab, src)
        first.subscribe_to(holder["o"])
    lab.at(SUB_AT, sub1)
    lab.at(SUB_AT + off, lambda: second.subscribe_to(holder["o"]))
    lab.run()
    if T.spun(lab):
        return
    d2 = P["d"] - off if P["shape"] == "abs" else P["d"]
    seen2 = [(SUB_AT + off + t, k, v) for (t, k, v) in case["tl"]]
    alts2 = model_delay(seen2, d2)
    res.count("second_subscriptions_checked")
    why2 = T.match_any(alts2, second.timed())
    if why2 is not None:
        res.violation("C15:delay:second-subscription", {"why": why2, "case": desc, "second_subscribed_at": SUB_AT + off,
                                                        "accepted": [show_timed(a) for a in alts2[:3]], "observed": show_timed(second.timed())},
                      {"seed": seed, "idx": idx})


def resubscription_case(case: dict, res: UnitResult, seed: int, idx: int, desc: dict) -> None:
    """The time-shifted observable is built ONCE, subscribed at SUB_AT and, long after that subscription is over, again at T2.
    What the second subscriber sees must be what the only subscriber of a FRESHLY built observable sees when it subscribes
    at T2 in a lab of its own (same cold source, same delay probes): no state of the first subscription may leak."""
    from ..vlab import Lab
    op, P = case["op"], case["P"]
    T2 = SUB_AT + 400.0

    def world(twice: bool) -> Any:
        lab = Lab(case["clock"])
        src = lab.cold("s", list(case["tl"]))
        calls = [0]
        if op == "delay_with_mapper":
            T.arm(lab)

            def mapper(x: Any) -> Any:
                i = calls[0]
                calls[0] += 1
                return T.make_probe(lab, "d%d" % i, P["delays"][i % len(P["delays"])])
            if P["sub_delay"] is not None:
                o = src.pipe(ops.delay_with_mapper(T.make_probe(lab, "sd", P["sub_delay"]), mapper))
            else:
                o = src.pipe(ops.delay_with_mapper(mapper))
        else:
            o = build(case, lab, src)
        first, second = lab.observer("first"), lab.observer("second")
        if twice:
            if P.get("sched") == "sub":
                # the first subscription hands down ANOTHER scheduler object (working, frozen clock): an operator without a
                # scheduler of its own must use, for every subscription, the scheduler of THAT subscription
                lab.at(SUB_AT, lambda: first.subscribe_to(o, scheduler=T.frozen_scheduler(lab)))
            else:
                lab.at(SUB_AT, lambda: first.subscribe_to(o))
            lab.at(T2 - 1.0, first.dispose)

        def sub2() -> None:
            calls[0] = 0
            second.subscribe_to(o)
        lab.at(T2, sub2)
        lab.run()
        return lab, second

    labA, secondA = world(True)
    labB, secondB = world(False)
    if T.spun(labA) or T.spun(labB):
        return

    def conv(lab: Any, xs: list) -> list:
        out = []
        for (t, k, v) in xs:
            if k == "N" and op == "timestamp":
                v = (getattr(v, "value", None), T.clock_seconds(lab, getattr(v, "timestamp", None)))
            elif k == "N" and op == "time_interval":
                iv = getattr(v, "interval", None)
                v = (getattr(v, "value", None), iv.total_seconds() if isinstance(iv, _dt.timedelta) else repr(iv))
            out.append((t, k, v))
        return out
    a, b = conv(labA, secondA.timed()), conv(labB, secondB.timed())
    res.count("resubscriptions_checked")
    res.count("resubscription_notifications_compared", len(b))
    same = len(a) == len(b) and all(x[0] == y[0] and x[1] == y[1] and (x[1] == "E" or strict(x[2]) == strict(y[2])) for x, y in zip(a, b))
    if not same:
        res.violation("C15:%s:second-subscription" % op, {"why": "the second subscriber of a re-used observable differs from the only subscriber of a fresh one",
                                                          "case": desc, "second_subscribed_at": T2, "fresh": show_timed(b), "reused": show_timed(a)},
                      {"seed": seed, "idx": idx})


def run_unit(unit: dict, res: UnitResult) -> None:
    for idx in range(unit["lo"], unit["hi"]):
        run_case(unit["seed"], idx, res)


def replay(rep: dict, res: UnitResult) -> None:
    run_case(rep["seed"], rep["idx"], res)
