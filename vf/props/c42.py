"""C42 CatchScheduler routes action exceptions to its handler (virtual time, tree workloads, differential).

A generated *tree of recursive scheduling* is executed twice:

* on ``CatchScheduler(inner, handler)``: every node action logs itself, schedules its children through the
  scheduler **handed to the action**, and raises a fresh exception where the tree says so; the handler logs the
  exception and answers with the verdict the tree attached to that raise;
* on the bare ``inner`` scheduler with an action body that *emulates the statement*: at a raise point whose
  verdict is truthy the action simply returns (periodic: disposes itself and returns) -- "swallowed, periodic
  work stops" -- and at a raise point whose verdict is falsy it raises -- "otherwise it propagates".

Oracles (all from the statement):
  H  handler log == list of raised exceptions, same objects, same order, once each;
  E  exceptions escaping ``inner.start()`` == the raises with a falsy verdict, same objects, same order;
  P  a periodic action is never invoked again after a handled raise;
  D  the execution trace (node, virtual clock, state, ``now`` seen through the handed scheduler, which inner
     lane the work was put on) is identical in both runs; for raise-free trees this is literally
     "actions that do not raise behave exactly as on the wrapped scheduler".
``inner`` is a plain ``VirtualTimeScheduler`` or (a third of the trees) a two-lane virtual-time scheduler that hands
one of two lane objects to each action, so that *which* scheduler a recursive wrapper wraps becomes observable.
"""
from __future__ import annotations

import datetime as _dt
from collections import Counter
from typing import Any

from reactivex.scheduler import CatchScheduler, VirtualTimeScheduler
from reactivex.scheduler.periodicscheduler import PeriodicScheduler

from ..common import UnitResult, case_rng, chunks

ID = "C42"
LEVEL = "exploration"
RULE = ("seeded random trees (2..14 nodes, depth <= 4) of schedule / schedule_relative (float or timedelta) / "
        "schedule_absolute / schedule_periodic calls, children always scheduled through the scheduler handed to the "
        "parent action (periodic nodes: the scheduler they were created on), optional cancel edges; variant idx%3: "
        "0 = raise-free tree, 1 = exactly one raise at node (idx//3 mod n) (every position is reached), 2 = random raises "
        "(p=0.35 per node) before or after scheduling the children; handler verdict per raise from "
        "{True, 1, False, None, 0}; inner = VirtualTimeScheduler or a 2-lane virtual-time scheduler; non-trivial = "
        ">= 1 nested (depth >= 1) node executed; distinct = digest of (tree, inner kind)")
ASSUMPTIONS = ["reactivex.scheduler.VirtualTimeScheduler is the trusted clock/queue (its ordering is checked by C28)",
               "the two-lane inner scheduler is harness code built on VirtualTimeScheduler + PeriodicScheduler",
               "after an exception escaped inner.start() the run is resumed with inner.stop(); inner.start()"]
CASES = {"quick": 2400, "thorough": 200000}
REQUIRED = {
    "raise_free_trees": {"quick": 500, "thorough": 40000},
    "nested_raises_handled": {"quick": 200, "thorough": 15000},
    "nested_raises_unhandled": {"quick": 100, "thorough": 8000},
    "periodic_raises_handled": {"quick": 40, "thorough": 3000},
    "periodic_raises_unhandled": {"quick": 20, "thorough": 1500},
    "lane_trees": {"quick": 400, "thorough": 30000},
    "cancel_edges_fired": {"quick": 50, "thorough": 4000},
}
T_END = 600.0
VERDICTS = [True, True, True, 1, False, False, None, 0]


class Boom(Exception):
    def __init__(self, nid: int, call: int, verdict: Any) -> None:
        super().__init__("node %d call %d" % (nid, call))
        self.nid, self.call, self.verdict = nid, call, verdict

    def __bool__(self) -> bool:
        # every third exception object is FALSY (like an error that carries an empty list of failures): code that tests the truth
        # value of an exception instead of `is not None` loses it
        return (self.nid + self.call) % 3 != 0

    def key(self) -> tuple:
        return (self.nid, self.call)


# ---------------------------------------------------------------------------------- two-lane inner scheduler

class Lane(PeriodicScheduler):
    """Forwards to the root virtual-time scheduler; actions scheduled through a lane are handed that lane."""

    def __init__(self, root: "LaneVTS", k: int) -> None:
        super().__init__()
        self.root, self.k = root, k

    @property
    def now(self) -> _dt.datetime:
        return self.root.now

    def _bind(self, action: Any) -> Any:
        lane = self

        def bound(_s: Any, state: Any = None) -> Any:
            return action(lane, state)
        return bound

    def schedule(self, action: Any, state: Any = None) -> Any:
        self.root.log.append(("lane", self.k, "s", None))
        return VirtualTimeScheduler.schedule_absolute(self.root, self.root._clock, self._bind(action), state)

    def schedule_relative(self, duetime: Any, action: Any, state: Any = None) -> Any:
        self.root.log.append(("lane", self.k, "r", self.to_seconds(duetime)))
        return VirtualTimeScheduler.schedule_relative(self.root, duetime, self._bind(action), state)

    def schedule_absolute(self, duetime: Any, action: Any, state: Any = None) -> Any:
        self.root.log.append(("lane", self.k, "a", self.to_seconds(duetime)))
        return VirtualTimeScheduler.schedule_absolute(self.root, duetime, self._bind(action), state)


class LaneVTS(VirtualTimeScheduler):
    """Virtual-time scheduler that hands alternating lane objects to the actions scheduled on it directly."""

    def __init__(self, log: list) -> None:
        super().__init__()
        self.log = log
        self.lanes = [Lane(self, 0), Lane(self, 1)]
        self.flip = 0

    def invoke_action(self, action: Any, state: Any = None) -> Any:
        from reactivex import abc
        from reactivex.disposable import Disposable
        lane = self.lanes[self.flip % 2]
        self.flip += 1
        ret = action(lane, state)
        return ret if isinstance(ret, abc.DisposableBase) else Disposable()


# ---------------------------------------------------------------------------------- trees

def gen_tree(r: Any, idx: int) -> dict:
    variant = idx % 3
    budget = [r.randint(2, 14)]
    nodes: list[dict] = []

    def make(depth: int) -> dict:
        nid = len(nodes)
        m = r.choice("srrrap" if depth else "srrap")
        n: dict = {"id": nid, "m": m, "depth": depth, "raise": None, "kids": [], "cancel": None}
        nodes.append(n)
        budget[0] -= 1
        if m == "r":
            n["due"] = float(r.choice([0, 0, 1, 5, 5, 10, 30]))
            n["td"] = r.random() < 0.3
        elif m == "a":
            n["due"] = float(r.choice([0, 5, 10, 20, 40, 80, 150]))
        elif m == "p":
            n["period"] = float(r.choice([1, 5, 5, 10]))
            n["stop_after"] = r.randint(1, 5)
            n["raise_at"] = None
            n["verdict"] = None
        if depth < 4:
            want = r.choice([0, 1, 1, 2, 2, 3]) if depth else r.choice([1, 2, 2, 3])
            for _ in range(want):
                if budget[0] <= 0:
                    break
                n["kids"].append(make(depth + 1))
        return n

    roots = []
    while budget[0] > 0 and len(roots) < 3:
        roots.append(make(0))
    # cancel edges: a node disposes the handle of another node when it runs
    for n in nodes:
        if r.random() < 0.12 and len(nodes) > 1:
            n["cancel"] = r.choice([x["id"] for x in nodes if x["id"] != n["id"]])

    def set_raise(n: dict) -> None:
        v = r.choice(VERDICTS)
        if n["m"] == "p":
            n["raise_at"] = r.randint(1, n["stop_after"])
            n["verdict"] = v
        else:
            n["raise"] = [r.choice(["before", "after"]), v]

    if variant == 1:
        set_raise(nodes[(idx // 3) % len(nodes)])
    elif variant == 2:
        for n in nodes:
            if r.random() < 0.35:
                set_raise(n)
    lanes = r.random() < 0.34
    return {"roots": roots, "n": len(nodes), "lanes": lanes, "variant": variant}


def all_nodes(tree: dict) -> list[dict]:
    out: list[dict] = []

    def walk(n: dict) -> None:
        out.append(n)
        for k in n["kids"]:
            walk(k)
    for n in tree["roots"]:
        walk(n)
    return out


# ---------------------------------------------------------------------------------- execution

class Run:
    def __init__(self, tree: dict, mode: str) -> None:
        self.tree, self.mode = tree, mode
        self.trace: list[tuple] = []
        self.raised: list[Boom] = []
        self.handler_log: list[Any] = []
        self.escapes: list[Any] = []
        self.foreign: list[str] = []
        self.handles: dict[int, Any] = {}
        self.pcalls: Counter = Counter()
        self.pdead: dict[int, int] = {}      # periodic node -> call number of its handled raise
        self.after_dead: list[tuple] = []
        self.cancels_fired = 0
        self.lanelog: list[tuple] = []
        self.inner: Any = LaneVTS(self.lanelog) if tree["lanes"] else VirtualTimeScheduler()
        self.root: Any = CatchScheduler(self.inner, self.handler) if mode == "catch" else self.inner
        self.handed_types: set[str] = set()

    # -- catch side
    def handler(self, exc: Exception) -> Any:
        self.handler_log.append(exc)
        self.trace.append(("handler", getattr(exc, "nid", None), getattr(exc, "call", None), self.clock()))
        return getattr(exc, "verdict", False)

    def clock(self) -> float:
        return float(self.inner._clock)

    def do_raise(self, nid: int, call: int, verdict: Any) -> bool:
        exc = Boom(nid, call, verdict)
        self.raised.append(exc)
        if self.mode == "bare":
            # the statement's reading of a handled raise: as if the action had returned here
            self.trace.append(("handler", nid, call, self.clock()))
            if verdict:
                return True
        raise exc

    def schedule_node(self, sched: Any, n: dict) -> None:
        nid = n["id"]
        m = n["m"]
        if m == "p":
            h = sched.schedule_periodic(n["period"], self.periodic_action(sched, n), 0)
        elif m == "s":
            h = sched.schedule(self.action(n), nid)
        elif m == "r":
            due: Any = _dt.timedelta(seconds=n["due"]) if n.get("td") else n["due"]
            h = sched.schedule_relative(due, self.action(n), nid)
        else:
            h = sched.schedule_absolute(n["due"], self.action(n), nid)
        self.handles[nid] = h

    def fire_cancel(self, n: dict) -> None:
        tgt = n["cancel"]
        if tgt is not None and tgt in self.handles:
            self.handles[tgt].dispose()
            self.cancels_fired += 1
            self.trace.append(("cancel", n["id"], tgt))

    def action(self, n: dict) -> Any:
        nid = n["id"]

        def act(sched: Any, state: Any = None) -> Any:
            self.handed_types.add(type(sched).__name__)
            self.trace.append(("run", nid, self.clock(), state, sched.now == self.inner.now))
            self.fire_cancel(n)
            rs = n["raise"]
            if rs and rs[0] == "before" and self.do_raise(nid, 1, rs[1]):
                return None
            for k in n["kids"]:
                self.schedule_node(sched, k)
            if rs and rs[0] == "after" and self.do_raise(nid, 1, rs[1]):
                return None
            return None
        return act

    def periodic_action(self, sched: Any, n: dict) -> Any:
        nid = n["id"]

        def pact(state: Any = None) -> Any:
            self.pcalls[nid] += 1
            k = self.pcalls[nid]
            self.trace.append(("prun", nid, self.clock(), state, k))
            if nid in self.pdead:
                self.after_dead.append((nid, k, self.clock()))
            if k == 1:
                self.fire_cancel(n)
                for kid in n["kids"]:
                    self.schedule_node(sched, kid)
            if n["raise_at"] == k:
                if n["verdict"]:
                    self.pdead[nid] = k
                if self.do_raise(nid, k, n["verdict"]):
                    self.handles[nid].dispose()     # bare emulation of "periodic work stops"
                    return None
            if k >= n["stop_after"]:
                self.handles[nid].dispose()
            return (state or 0) + 1
        return pact

    def go(self) -> "Run":
        for n in self.tree["roots"]:
            self.schedule_node(self.root, n)

        def cleanup(_s: Any, _st: Any = None) -> None:
            for h in list(self.handles.values()):
                h.dispose()
        self.inner.schedule_absolute(T_END, cleanup)
        for _ in range(400):
            try:
                self.inner.start()
                break
            except Boom as e:
                self.escapes.append(e)
                self.trace.append(("escape", e.nid, e.call, self.clock()))
                self.inner.stop()
            except Exception as e:  # not ours
                self.foreign.append(repr(e))
                self.inner.stop()
        else:
            self.foreign.append("run did not finish within 400 restarts")
        return self


def describe(tree: dict) -> dict:
    def d(n: dict) -> Any:
        lab = n["m"]
        if n["m"] in "ra":
            lab += "%g" % n["due"] + ("td" if n.get("td") else "")
        if n["m"] == "p":
            lab += "%g/stop%d" % (n["period"], n["stop_after"])
            if n["raise_at"]:
                lab += "/raise@%d->%r" % (n["raise_at"], n["verdict"])
        if n["raise"]:
            lab += "/raise-%s->%r" % (n["raise"][0], n["raise"][1])
        if n["cancel"] is not None:
            lab += "/cancel%d" % n["cancel"]
        return {"%d:%s" % (n["id"], lab): [d(k) for k in n["kids"]]}
    return {"inner": "2-lane VTS" if tree["lanes"] else "VirtualTimeScheduler", "roots": [d(n) for n in tree["roots"]]}


def run_case(seed: int, idx: int, res: UnitResult) -> None:
    r = case_rng(seed, ID, idx)
    tree = gen_tree(r, idx)
    desc = describe(tree)
    c = Run(tree, "catch").go()
    b = Run(tree, "bare").go()
    nodes = {n["id"]: n for n in all_nodes(tree)}
    executed_nested = sum(1 for t in c.trace if t[0] in ("run", "prun") and nodes[t[1]]["depth"] >= 1)
    res.case(key=desc, nontrivial=executed_nested > 0,
             sample={"tree": desc, "trace": [list(map(str, t)) for t in c.trace[:40]],
                     "handler_calls": [e.key() for e in c.handler_log if isinstance(e, Boom)],
                     "escaped": [e.key() for e in c.escapes]})
    res.count("trees")
    res.count("actions_executed", sum(1 for t in c.trace if t[0] in ("run", "prun")))
    if not c.raised:
        res.count("raise_free_trees")
    if tree["lanes"]:
        res.count("lane_trees")
    res.count("cancel_edges_fired", c.cancels_fired)
    for t in c.handed_types:
        res.note("handed_scheduler_types", t)
    for e in c.raised:
        n = nodes[e.nid]
        kind = "periodic" if n["m"] == "p" else ("nested" if n["depth"] >= 1 else "root")
        res.count("%s_raises_%s" % (kind, "handled" if e.verdict else "unhandled"))
        if n["m"] == "p" and n["depth"] >= 1:
            res.count("nested_periodic_raises")
        res.note("verdict_values", repr(e.verdict))

    rep = {"seed": seed, "idx": idx}

    def viol(mech: str, why: str, extra: dict | None = None) -> None:
        d = {"why": why, "tree": desc, "raised": [e.key() + (repr(e.verdict),) for e in c.raised],
             "handler_log": [getattr(e, "key", lambda: repr(e))() for e in c.handler_log],
             "escaped": [e.key() for e in c.escapes]}
        d.update(extra or {})
        res.violation(mech, d, rep)

    if c.foreign or b.foreign:
        viol("C42:foreign-exception", "an exception that no node raised came out of inner.start(): %s / bare: %s" % (c.foreign, b.foreign))
        return
    # H: handler called once per raise, with that exception object, in raise order
    if len(c.handler_log) != len(c.raised) or any(x is not y for x, y in zip(c.handler_log, c.raised)):
        missing = [e.key() for e in c.raised if not any(e is h for h in c.handler_log)]
        twice = [e.key() for e in c.raised if sum(1 for h in c.handler_log if h is e) > 1]
        mech = "C42:handler:never-called" if missing else ("C42:handler:called-twice" if twice else "C42:handler:order-or-object")
        viol(mech, "handler log differs from the raised exceptions (missing=%s twice=%s)" % (missing, twice))
    # E: escapes == falsy-verdict raises
    want_escape = [e for e in c.raised if not e.verdict]
    if len(c.escapes) != len(want_escape) or any(x is not y for x, y in zip(c.escapes, want_escape)):
        escaped_handled = [e.key() for e in c.escapes if e.verdict]
        swallowed = [e.key() for e in want_escape if not any(e is x for x in c.escapes)]
        mech = "C42:escape:handled-escaped" if escaped_handled else ("C42:escape:unhandled-swallowed" if swallowed else "C42:escape:order")
        viol(mech, "escaped exceptions differ from the raises with a falsy verdict (handled but escaped=%s, unhandled but swallowed=%s)"
             % (escaped_handled, swallowed))
    # P: periodic stops after a handled raise
    if c.after_dead:
        viol("C42:periodic:continues-after-handled", "periodic action invoked again after a handled raise: %s" % (c.after_dead,))
    # D: differential against the bare inner scheduler
    if c.trace != b.trace or c.lanelog != b.lanelog or c.clock() != b.clock():
        k = next((i for i, (x, y) in enumerate(zip(c.trace, b.trace)) if x != y), min(len(c.trace), len(b.trace)))
        mech = "C42:differential:raise-free" if not c.raised else "C42:differential:with-raises"
        if c.trace == b.trace and c.lanelog != b.lanelog:
            mech += ":lane"
            k2 = next((i for i, (x, y) in enumerate(zip(c.lanelog, b.lanelog)) if x != y), min(len(c.lanelog), len(b.lanelog)))
            extra = {"first_lane_difference_at": k2, "catch": [list(map(str, t)) for t in c.lanelog[k2:k2 + 3]],
                     "bare": [list(map(str, t)) for t in b.lanelog[k2:k2 + 3]]}
        else:
            extra = {"first_difference_at": k, "catch": [list(map(str, t)) for t in c.trace[max(0, k - 2):k + 3]],
                     "bare": [list(map(str, t)) for t in b.trace[max(0, k - 2):k + 3]]}
        viol(mech, "trace on CatchScheduler differs from the same tree on the bare inner scheduler", extra)
    elif any(t[0] == "run" and not t[4] for t in c.trace):
        viol("C42:now", "now seen through the handed scheduler differs from the inner scheduler's now")


def run_unit(unit: dict, res: UnitResult) -> None:
    for idx in range(unit["lo"], unit["hi"]):
        run_case(unit["seed"], idx, res)


def units(tier: str, seed: int) -> list[dict]:
    return [{"lo": lo, "hi": hi, "seed": seed} for lo, hi in chunks(CASES[tier], 16 if tier == "quick" else 64)]


def replay(rep: dict, res: UnitResult) -> None:
    run_case(rep["seed"], rep["idx"], res)
