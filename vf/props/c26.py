"""C26 Container disposables dispose each held item exactly once (model histories + dsched)."""
from __future__ import annotations

from typing import Any

from ..common import UnitResult, case_rng

ID = "C26"
LEVEL = "exploration"
RULE = ("(a) single-thread random call histories (add/remove/clear/assign/dispose, 4..12 calls, items that are plain counters and items that "
        "are empty CompositeDisposables, i.e. falsy) on Composite/Serial/SingleAssignment/MultipleAssignment disposables compared after every "
        "call with a sequential model (per-item dispose counts, rejected assignments, return values); (b) 2-3 threads running small programs of "
        "such calls under the deterministic thread scheduler: all schedules with <= b preemptions for hand-written programs, random/PCT "
        "schedules for generated ones; oracle = exactly-once accounting at quiescence + 'not disposed while held by a live container' "
        "hook inside every item's dispose(); distinct = (program, decision list); non-trivial = a preemptive switch happened")
ASSUMPTIONS = ["free-running units: real threads, switch interval 1 us, yields injected at bytecode granularity (sys.monitoring INSTRUCTION) in the files under test; not replayable, a violation carries the recorded event log; the distinct event orders seen are in the evidence sets free_interleavings:*",
               "line-granular serialisation: interleavings inside one source line are not produced",
               "threading primitives are replaced by instrumented equivalents while reactivex is imported",
               "the hook inside Item.dispose reads container fields (disposable/current/is_disposed) while only one thread runs"]
REQUIRED = {"decided_runs": {"quick": 600, "thorough": 6000}, "preemptive_switches": {"quick": 400, "thorough": 4000},
            "dfs_complete_scenarios": {"quick": 6, "thorough": 9}, "single_thread_histories": {"quick": 1500, "thorough": 40000},
            "falsy_items_used": {"quick": 200, "thorough": 2000},
            "runs:free": {"quick": 2000, "thorough": 40000}, "free_injected_yields": {"quick": 5000, "thorough": 100000}}
UNIT_TIMEOUT = {"quick": 240, "thorough": 3000}
FILES = ("disposable/compositedisposable.py", "disposable/serialdisposable.py", "disposable/singleassignmentdisposable.py",
         "disposable/multipleassignmentdisposable.py")
KINDS = ("comp", "serial", "sad", "mad")


def make_container(kind: str) -> Any:
    from reactivex.disposable import (CompositeDisposable, MultipleAssignmentDisposable, SerialDisposable,
                                      SingleAssignmentDisposable)
    return {"comp": CompositeDisposable, "serial": SerialDisposable, "sad": SingleAssignmentDisposable,
            "mad": MultipleAssignmentDisposable}[kind]()


def make_items(n: int, falsy: list[bool], on_dispose: Any) -> list:
    from reactivex.abc import DisposableBase
    from reactivex.disposable import CompositeDisposable

    class Item(DisposableBase):
        def __init__(self, iid: int) -> None:
            self.iid, self.n = iid, 0

        def dispose(self) -> None:
            self.n += 1
            on_dispose(self)

        def __repr__(self) -> str:
            return "Item%d" % self.iid

    class EmptyComposite(CompositeDisposable):
        """a real, empty CompositeDisposable (falsy because of __len__) that counts dispose() calls"""

        def __init__(self, iid: int) -> None:
            super().__init__()
            self.iid, self.n = iid, 0

        def dispose(self) -> None:
            self.n += 1
            on_dispose(self)
            super().dispose()

        def __repr__(self) -> str:
            return "EmptyComposite%d" % self.iid

    return [EmptyComposite(i) if falsy[i] else Item(i) for i in range(n)]


def held_by(kind: str, cont: Any, item: Any) -> bool:
    if cont.is_disposed:
        return False
    if kind == "comp":
        return any(x is item for x in cont.disposable)
    return cont.current is item


def held_raw(kind: str, cont: Any, item: Any) -> bool:
    """is the item stored in the container (whatever the container says about being disposed)"""
    if kind == "comp":
        return any(x is item for x in cont.disposable)
    return cont.current is item


def apply_op(kind: str, cont: Any, items: list, op: list) -> Any:
    """returns ("ok", value) or ("raised", exc)"""
    try:
        if op[0] == "add":
            return ("ok", cont.add(items[op[1]]))
        if op[0] == "remove":
            return ("ok", cont.remove(items[op[1]]))
        if op[0] == "clear":
            return ("ok", cont.clear())
        if op[0] == "assign":
            cont.disposable = items[op[1]]
            return ("ok", None)
        if op[0] == "dispose":
            return ("ok", cont.dispose())
    except Exception as e:  # noqa: BLE001
        return ("raised", e)
    raise KeyError(op[0])


# ---------------------------------------------------------------- sequential model

class Model:
    def __init__(self, kind: str, n: int) -> None:
        self.kind, self.counts = kind, [0] * n
        self.held: list[int] = []
        self.current: int | None = None
        self.disposed = False

    def step(self, op: list) -> Any:
        k = self.kind
        if op[0] == "dispose":
            if not self.disposed:
                self.disposed = True
                if k == "comp":
                    for i in self.held:
                        self.counts[i] += 1
                    self.held = []
                elif self.current is not None:
                    self.counts[self.current] += 1
                    self.current = None
            return ("ok", None)
        if op[0] == "add":
            if self.disposed:
                self.counts[op[1]] += 1
            else:
                self.held.append(op[1])
            return ("ok", None)
        if op[0] == "remove":
            if not self.disposed and op[1] in self.held:
                self.held.remove(op[1])
                self.counts[op[1]] += 1
                return ("ok", True)
            return ("ok", False)
        if op[0] == "clear":
            for i in self.held:
                self.counts[i] += 1
            self.held = []
            return ("ok", None)
        if op[0] == "assign":
            i = op[1]
            if self.disposed:
                self.counts[i] += 1
                return ("ok", None)
            if k == "sad":
                if self.current is not None:
                    return ("raised", None)
                self.current = i
            elif k == "serial":
                if self.current is not None:
                    self.counts[self.current] += 1
                self.current = i
            else:
                self.current = i
            return ("ok", None)
        raise KeyError(op[0])

    def holds(self, i: int) -> bool:
        return not self.disposed and (i in self.held if self.kind == "comp" else self.current == i)


def gen_history(r: Any, kind: str) -> tuple[list, list[bool]]:
    n_ops = r.randint(4, 12)
    ops: list = []
    nid = 0
    for _ in range(n_ops):
        c = r.random()
        if kind == "comp":
            if c < 0.45 or nid == 0:
                ops.append(["add", nid])
                nid += 1
            elif c < 0.7:
                ops.append(["remove", r.randrange(nid)])
            elif c < 0.82:
                ops.append(["clear"])
            else:
                ops.append(["dispose"])
        else:
            if c < 0.75:
                ops.append(["assign", nid])
                nid += 1
            else:
                ops.append(["dispose"])
    falsy = [r.random() < 0.4 for _ in range(max(1, nid))]
    return ops, falsy


def run_history(seed: int, i: int, res: UnitResult) -> None:
    r = case_rng(seed, ID, "st", i)
    kind = KINDS[i % 4]
    ops, falsy = gen_history(r, kind)
    n = len(falsy)
    premature: list = []
    cont = make_container(kind)
    items = make_items(n, falsy, lambda it: premature.append(it.iid) if held_by(kind, cont, it) else None)
    m = Model(kind, n)
    res.count("single_thread_histories")
    res.count("falsy_items_used", sum(1 for op in ops if op[0] in ("add", "assign") and falsy[op[1]]))
    desc = {"kind": kind, "ops": ops, "falsy_items": [j for j in range(n) if falsy[j]]}
    problem = None
    for step, op in enumerate(ops):
        got = apply_op(kind, cont, items, op)
        exp = m.step(op)
        counts = [it.n for it in items]
        if got[0] != exp[0]:
            problem = ("C26:%s:%s:%s" % (kind, op[0], "accepted-should-reject" if exp[0] == "raised" else "raised-unexpectedly"),
                       {"step": step, "op": op, "got": repr(got), "expected": exp[0]})
        elif op[0] == "remove" and got[1] != exp[1]:
            problem = ("C26:%s:remove:return-value" % kind, {"step": step, "got": got[1], "expected": exp[1]})
        elif counts != m.counts:
            bad = [j for j in range(n) if counts[j] != m.counts[j]]
            j = bad[0]
            how = "not-disposed" if counts[j] < m.counts[j] else "disposed-again"
            problem = ("C26:%s:%s:%s%s" % (kind, op[0], how, ":falsy-item" if falsy[j] else ""),
                       {"step": step, "op": op, "item": j, "count": counts[j], "expected": m.counts[j]})
        elif premature:
            problem = ("C26:%s:%s:disposed-while-held" % (kind, op[0]), {"step": step, "items": premature})
        if problem:
            break
    res.case(key=desc, nontrivial=len(ops) >= 4, sample={"history": desc, "final_counts": [it.n for it in items]})
    if problem:
        problem[1]["history"] = desc
        res.violation(problem[0], problem[1], {"scenario": "st", "params": {"seed": seed, "i": i}, "decisions": []})


# ---------------------------------------------------------------- concurrent programs

HAND = [
    {"kind": "sad", "pre": [], "progs": [[["assign", 0]], [["dispose"]]], "falsy": [False]},
    {"kind": "sad", "pre": [], "progs": [[["assign", 0]], [["dispose"]]], "falsy": [True]},
    {"kind": "sad", "pre": [], "progs": [[["assign", 0]], [["assign", 1]]], "falsy": [False, False]},
    {"kind": "serial", "pre": [], "progs": [[["assign", 0], ["assign", 1]], [["dispose"]]], "falsy": [False, False]},
    {"kind": "serial", "pre": [], "progs": [[["assign", 0]], [["assign", 1]]], "falsy": [False, True]},
    {"kind": "mad", "pre": [], "progs": [[["assign", 0], ["assign", 1]], [["dispose"]]], "falsy": [False, False]},
    {"kind": "comp", "pre": [], "progs": [[["add", 0], ["remove", 0]], [["dispose"]]], "falsy": [False]},
    {"kind": "comp", "pre": [0], "progs": [[["remove", 0]], [["remove", 0]]], "falsy": [False]},
    {"kind": "comp", "pre": [0], "progs": [[["clear"]], [["add", 1]], [["dispose"]]], "falsy": [False, True]},
    {"kind": "comp", "pre": [0], "progs": [[["remove", 0]], [["clear"]]], "falsy": [False]},
]


def gen_program(r: Any) -> dict:
    kind = r.choice(KINDS)
    nthreads = r.choice([2, 2, 3])
    nid = 0
    pre = []
    if kind == "comp" and r.random() < 0.6:
        pre = [0]
        nid = 1
    progs = []
    for _ in range(nthreads):
        p = []
        for _ in range(r.randint(1, 3)):
            c = r.random()
            if kind == "comp":
                if c < 0.4:
                    p.append(["add", nid])
                    nid += 1
                elif c < 0.65 and nid:
                    p.append(["remove", r.randrange(nid)])
                elif c < 0.8:
                    p.append(["clear"])
                else:
                    p.append(["dispose"])
            else:
                if c < 0.65:
                    p.append(["assign", nid])
                    nid += 1
                else:
                    p.append(["dispose"])
        progs.append(p)
    return {"kind": kind, "pre": pre, "progs": progs, "falsy": [r.random() < 0.35 for _ in range(max(1, nid))]}


def scenario(c: Any, P: dict) -> dict:
    from .. import dsched as D
    kind = P["kind"]
    n = len(P["falsy"])
    viol: list = []
    premature: list = []
    cont = make_container(kind)
    items = make_items(n, P["falsy"], lambda it: (premature.append(it.iid) if held_by(kind, cont, it) else None, c.yp("item.dispose")))
    for i in P["pre"]:
        cont.add(items[i])
    results: dict = {}        # (thread index, op index) -> result
    any_dispose = any(op[0] == "dispose" for p in P["progs"] for op in p)

    def worker(ti: int, prog: list) -> None:
        disposed_by_me = False
        for oi, op in enumerate(prog):
            got = apply_op(kind, cont, items, op)
            results[(ti, oi)] = got
            if op[0] == "dispose":
                disposed_by_me = True
            elif op[0] in ("add", "assign") and disposed_by_me:
                # program order: my own dispose() returned before this call
                if got[0] == "raised":
                    viol.append(("C26:%s:%s-after-dispose:raised" % (kind, op[0]), {"thread": ti, "op": op}))
                elif items[op[1]].n != 1:
                    viol.append(("C26:%s:%s-after-dispose:count" % (kind, op[0]), {"thread": ti, "op": op, "count": items[op[1]].n,
                                                                                    "falsy": P["falsy"][op[1]]}))

    ts = [c.Thread(target=worker, args=(ti, p), name="W") for ti, p in enumerate(P["progs"])]
    for t in ts:
        t.start()
    for t in ts:
        t.join()
    # at quiescence, before the harness drains the container: a container that reports disposed holds nothing any more (an item
    # stored into it while / after it was being disposed would never be disposed by anybody)
    if cont.is_disposed:
        held = [it.iid for it in items if held_raw(kind, cont, it)]
        if held:
            viol.append(("C26:%s:disposed-container-still-holds-an-item" % kind, {"items": held, "counts": [items[i].n for i in held]}))
    cont.dispose()
    counts = [it.n for it in items]
    ok_assign = [op[1] for ti, p in enumerate(P["progs"]) for oi, op in enumerate(p) if op[0] in ("assign", "add") and results[(ti, oi)][0] == "ok"]
    rejected = [op[1] for ti, p in enumerate(P["progs"]) for oi, op in enumerate(p) if op[0] == "assign" and results[(ti, oi)][0] == "raised"]
    given = set(ok_assign) | set(P["pre"])
    for i in range(n):
        f = ":falsy-item" if P["falsy"][i] else ""
        if i in given:
            if kind == "mad":
                if counts[i] > 1:
                    viol.append(("C26:mad:disposed-twice" + f, {"item": i, "count": counts[i]}))
            elif counts[i] != 1:
                viol.append(("C26:%s:%s%s" % (kind, "never-disposed" if counts[i] == 0 else "disposed-twice", f), {"item": i, "count": counts[i]}))
        elif counts[i] != 0:
            viol.append(("C26:%s:rejected-or-unused-item-disposed" % kind, {"item": i, "count": counts[i]}))
    if kind == "sad":
        if rejected and False:
            pass
        if not any_dispose and len(ok_assign) > 1:
            viol.append(("C26:sad:second-assignment-accepted", {"accepted": ok_assign}))
        for ti, p in enumerate(P["progs"]):
            for oi, op in enumerate(p):
                if op[0] != "assign" and results[(ti, oi)][0] == "raised":
                    viol.append(("C26:sad:%s-raised" % op[0], {"exc": repr(results[(ti, oi)][1])}))
    else:
        for k, got in results.items():
            if got[0] == "raised":
                viol.append(("C26:%s:call-raised" % kind, {"op": P["progs"][k[0]][k[1]], "exc": repr(got[1])}))
    if kind == "comp":
        trues = {}
        for ti, p in enumerate(P["progs"]):
            for oi, op in enumerate(p):
                if op[0] == "remove" and results[(ti, oi)] == ("ok", True):
                    trues[op[1]] = trues.get(op[1], 0) + 1
        for i, k in trues.items():
            if k > 1:
                viol.append(("C26:comp:remove-true-twice", {"item": i}))
    if premature:
        viol.append(("C26:%s:disposed-while-held" % kind, {"items": premature}))
    return {"viol": viol, "obs": {"falsy_items_used": sum(1 for i in given if P["falsy"][i]), "ops": sum(len(p) for p in P["progs"])},
            "sig": {"counts": counts, "rejected": rejected}, "decided": True}


def units(tier: str, seed: int) -> list[dict]:
    q = tier == "quick"
    us: list[dict] = []
    for hi, _ in enumerate(HAND):
        three = len(HAND[hi]["progs"]) > 2
        us.append({"mode": "dfs", "hand": hi, "bound": (2 if not three else 1) if q else (3 if not three else 2), "seed": seed,
                   "max_runs": 5000 if q else 120000})
    nprog = 16 if q else 160
    per = 4 if q else 10
    for lo in range(0, nprog, per):
        us.append({"mode": "random", "progs": [lo, lo + per], "runs": 40 if q else 500, "seed": seed})
    nst = 2400 if q else 64000
    for lo in range(0, nst, nst // 4):
        us.append({"mode": "st", "lo": lo, "hi": lo + nst // 4, "seed": seed})
    # free-running tier (real threads, bytecode-granular yield injection)
    for lo in range(0, nprog, per):
        us.append({"mode": "free", "progs": [lo, lo + per], "runs": 150 if q else 3000, "seed": seed})
    return us


def run_unit(unit: dict, res: UnitResult) -> None:
    if unit["mode"] == "st":
        for i in range(unit["lo"], unit["hi"]):
            run_history(unit["seed"], i, res)
        return
    if unit["mode"] == "free":
        from ..freerun import explore_free
        ff = tuple("reactivex/" + x for x in FILES)
        for hi, P in enumerate(HAND):
            explore_free(res, ID, "free-hand%d" % hi, scenario, P, seed=unit["seed"], runs=max(20, unit["runs"] // 4), files=ff)
        for pi in range(*unit["progs"]):
            explore_free(res, ID, "free-gen%d" % pi, scenario, gen_program(case_rng(unit["seed"], ID, "prog", pi)), seed=unit["seed"], runs=unit["runs"], files=ff)
        return
    from .. import dcheck, dsched as D
    D.install(D.repo_file(*FILES))
    if not dcheck.check_install(res):
        return
    if unit["mode"] == "dfs":
        P = HAND[unit["hand"]]
        dcheck.explore(res, ID, "hand%d-%s" % (unit["hand"], P["kind"]), scenario, P, "dfs", bound=unit["bound"], max_runs=unit["max_runs"])
        return
    for pi in range(*unit["progs"]):
        P = gen_program(case_rng(unit["seed"], ID, "prog", pi))
        dcheck.explore(res, ID, "gen%d-%s" % (pi, P["kind"]), scenario, P, "random", seed=unit["seed"], runs=unit["runs"])
        dcheck.explore(res, ID, "gen%d-%s" % (pi, P["kind"]), scenario, P, "pct", seed=unit["seed"], runs=unit["runs"] // 2)


def replay(rep: dict, res: UnitResult) -> None:
    if rep["scenario"] == "st":
        run_history(rep["params"]["seed"], rep["params"]["i"], res)
        return
    if rep.get("free"):
        from ..freerun import explore_free
        explore_free(res, ID, rep["scenario"], scenario, rep["params"], seed=rep.get("seed", 0), runs=rep.get("runs", 1000), files=tuple("reactivex/" + x for x in FILES))
        return
    from .. import dcheck, dsched as D
    D.install(D.repo_file(*FILES))
    dcheck.replay(res, ID, scenario, rep)
