"""C31 EventLoopScheduler: serial, one thread, ordered (dsched: scheduling threads x loop thread)."""
from __future__ import annotations

from typing import Any

from ..common import UnitResult, case_rng

ID = "C31"
LEVEL = "exploration"
RULE = ("programs of schedule / schedule_relative / schedule_absolute (past, present, future due) / cancel / virtual sleep / dispose issued by "
        "1-2 scheduling threads (and nested scheduling from inside actions) against one EventLoopScheduler (exit_if_empty on and off) under the "
        "deterministic thread scheduler with a virtual clock: all schedules with <= b preemptions for hand-written programs, random/PCT for "
        "generated ones; oracle over the recorded history (schedule call/return, action start/end with thread and clock, cancel/dispose "
        "call/return): single non-caller thread per loop incarnation, no overlap, FIFO for immediately-due actions ordered by happens-before, "
        "no early start, due order for timed actions, cancelled-before-commit never starts, DisposedException after dispose returned, nothing "
        "runnable left at quiescence, exit_if_empty thread exit and restart; distinct = (program, decision list); non-trivial = preemptive switch happened")
ASSUMPTIONS = ["line-granular serialisation; threading primitives replaced by instrumented equivalents; virtual clock replaces default_now",
               "best-effort cancellation is asserted only when dispose() returned before the item's due time, while the loop thread was inside "
               "another action, or before the loop thread existed (DESIGN.md §4 rule 4)",
               "the abstract run-loop model over all interleavings mentioned by the quantifier is not claimed (out of family)"]
REQUIRED = {"decided_runs": {"quick": 600, "thorough": 6000}, "preemptive_switches": {"quick": 500, "thorough": 5000},
            "dfs_complete_scenarios": {"quick": 4, "thorough": 7}, "actions_started": {"quick": 1500, "thorough": 15000},
            "cancels_decided": {"quick": 100, "thorough": 1000}, "post_dispose_schedules": {"quick": 40, "thorough": 400},
            "clock_advances": {"quick": 200, "thorough": 2000}}
UNIT_TIMEOUT = {"quick": 240, "thorough": 3000}
FILES = ("scheduler/eventloopscheduler.py", "scheduler/scheduleditem.py")

# op forms: ["imm", id] ["rel", id, delay] ["abs", id, offset] ["cancel", id] ["sleep", dt] ["dispose"]
# an item may carry nested ops executed inside its action: NESTED[id] = [ops]
HAND = [
    {"exit": False, "progs": [[["imm", 0], ["imm", 1]], [["imm", 2]]], "nested": {}},
    {"exit": False, "progs": [[["rel", 0, 0.5], ["cancel", 0]], [["imm", 1]]], "nested": {}},
    {"exit": False, "progs": [[["imm", 0], ["dispose"]], [["imm", 1]]], "nested": {}},
    {"exit": True, "progs": [[["imm", 0]], [["sleep", 1.0], ["imm", 1]]], "nested": {}},
    {"exit": False, "progs": [[["rel", 0, 0.3], ["imm", 1]], [["rel", 2, 0.1]]], "nested": {"1": [["imm", 3]]}},
    {"exit": True, "progs": [[["imm", 0]], [["imm", 1]]], "nested": {}},
    {"exit": True, "progs": [[["imm", 0]], [["rel", 1, 0.1]]], "nested": {}},
    # two items that the loop can pick up in one cycle; the later one is cancelled by its scheduler while the loop is inside the
    # earlier one, or by the earlier action itself
    {"exit": False, "progs": [[["imm", 0], ["imm", 1], ["cancel", 1]]], "nested": {}},
    {"exit": False, "progs": [[["imm", 0], ["imm", 1], ["imm", 2]]], "nested": {"0": [["cancel", 1]]}},
]


def gen_program(r: Any) -> dict:
    nid = [0]

    def ops(n: int, own: list, depth: int, nested: dict) -> list:
        out = []
        for _ in range(n):
            c = r.random()
            if c < 0.35:
                i = nid[0]
                nid[0] += 1
                out.append(["imm", i])
                own.append(i)
            elif c < 0.55:
                i = nid[0]
                nid[0] += 1
                out.append(["rel", i, r.choice([0.0, 0.1, 0.2, 0.2, 0.5, 1.0])])
                own.append(i)
            elif c < 0.65:
                i = nid[0]
                nid[0] += 1
                out.append(["abs", i, r.choice([-1.0, 0.0, 0.1, 0.3, 0.5])])
                own.append(i)
            elif c < 0.82 and own:
                out.append(["cancel", r.choice(own)])
            elif c < 0.94:
                out.append(["sleep", r.choice([0.05, 0.1, 0.2, 0.25, 0.5])])
            elif depth == 0:
                out.append(["dispose"])
            if out and out[-1][0] in ("imm", "rel", "abs") and depth < 2 and r.random() < 0.25:
                # (an action may cancel items its scheduling thread has scheduled before it: siblings of the same batch)
                nested[str(out[-1][1])] = ops(r.randint(1, 2), [x for x in own if x != out[-1][1]], depth + 1, nested)
        return out

    nested: dict = {}
    progs = [ops(r.randint(1, 4), [], 0, nested) for _ in range(r.choice([1, 2, 2]))]
    return {"exit": r.random() < 0.4, "progs": progs, "nested": nested}


def scenario(c: Any, P: dict) -> dict:
    import datetime
    from .. import dsched as D
    from reactivex.internal.exceptions import DisposedException
    from reactivex.scheduler import EventLoopScheduler
    s = EventLoopScheduler(exit_if_empty=P["exit"])
    t0 = c.clock
    disps: dict = {}
    inside = {"n": 0}
    viol: list = []

    def do_ops(ops: list, who: str) -> None:
        for op in ops:
            k = op[0]
            if k in ("imm", "rel", "abs"):
                i = op[1]
                due = c.clock if k == "imm" else (c.clock + max(0.0, op[2]) if k == "rel" else t0 + op[2])
                kind = "imm" if due <= c.clock else "timed"
                c.log("sched_call", i, due, kind)
                try:
                    if k == "imm":
                        d = s.schedule(make(i))
                    elif k == "rel":
                        d = s.schedule_relative(op[2], make(i))
                    else:
                        when = datetime.datetime.fromtimestamp(t0 + op[2], tz=D.UTC)
                        hours = (None, -3, 5.5)[i % 3]      # the same instant written in another time zone
                        if hours is not None:
                            when = when.astimezone(datetime.timezone(datetime.timedelta(hours=hours)))
                        d = s.schedule_absolute(when, make(i))
                    disps[i] = d
                    c.log("sched_ret", i)
                except DisposedException:
                    c.log("sched_raised", i, "DisposedException")
                except Exception as e:  # noqa: BLE001
                    c.log("sched_raised", i, repr(e))
            elif k == "cancel":
                d = disps.get(op[1])
                if d is not None:
                    c.log("cancel_call", op[1], inside["n"])
                    d.dispose()
                    c.log("cancel_ret", op[1], inside["n"])
            elif k == "sleep":
                if who != "action":
                    c.sleep(op[1])
            elif k == "dispose":
                c.log("dispose_call")
                s.dispose()
                c.log("dispose_ret")

    def make(i: int) -> Any:
        def act(sch: Any, st: Any) -> None:
            inside["n"] += 1
            c.log("start", i)
            c.yp("in-action")
            do_ops(P["nested"].get(str(i), []), "action")
            c.yp("in-action")
            c.log("end", i)
            inside["n"] -= 1
        return act

    ts = [D.VThread(target=do_ops, args=(p, "thread"), name="S") for p in P["progs"]]
    for t in ts:
        t.start()
    for t in ts:
        t.join()
    c.wait_quiescent()
    c.log("quiescent")
    # judged here, at the first quiescence: the restart probe below would otherwise start a new loop thread that
    # also picks up (and so hides) an item stranded by the exit_if_empty hand-over
    viol.extend(judge(c.events, P))
    loop_threads = [r for r in c.by_name.values() if r.name.startswith("T")]
    disposed = any(e[3] == "dispose_ret" for e in c.events)
    if P["exit"] and not disposed:
        alive = [r.name for r in loop_threads if not r.done]
        if alive:
            viol.append(("C31:exit_if_empty:thread-still-alive-when-idle", {"threads": alive}))
        # a later schedule starts a new thread
        before = len(loop_threads)
        c.log("sched_call", 999, c.clock, "imm")
        disps[999] = s.schedule(make(999))
        c.log("sched_ret", 999)
        c.wait_quiescent()
        c.log("quiescent")
        now_threads = [r for r in c.by_name.values() if r.name.startswith("T")]
        started = any(e[3] == "start" and e[4] == 999 for e in c.events)
        if not started:
            viol.append(("C31:exit_if_empty:no-restart", {}))
        elif len(now_threads) <= before and before > 0:
            viol.append(("C31:exit_if_empty:restart-without-new-thread", {}))
    if not disposed:
        s.dispose()
        c.wait_quiescent()
        still = [r.name for r in c.by_name.values() if r.name.startswith("T") and not r.done]
        if still:
            viol.append(("C31:dispose:loop-thread-still-alive", {"threads": still}))
    starts = sum(1 for e in c.events if e[3] == "start")
    cancels_decided = sum(1 for e in c.events if e[3] == "cancel_decided")
    post = sum(1 for e in c.events if e[3] == "post_dispose_schedule")
    return {"viol": viol, "obs": {"actions_started": starts, "cancels_decided": cancels_decided, "post_dispose_schedules": post},
            "sig": {"order": [e[4] for e in c.events if e[3] == "start"]}, "decided": True}


def judge(events: list, P: dict) -> list:
    """events: (seq, clock, thread, kind, *data)"""
    viol: list = []
    info: dict = {}
    for e in events:
        seq, clock, th, kind = e[0], e[1], e[2], e[3]
        if kind == "sched_call":
            info[e[4]] = {"call": seq, "due": e[5], "kind": e[6], "caller": th, "call_clock": clock}
        elif kind == "sched_ret":
            info[e[4]]["ret"] = seq
        elif kind == "sched_raised":
            info[e[4]]["raised"] = e[5]
            info[e[4]]["raised_seq"] = seq
        elif kind == "start":
            it = info[e[4]]
            if "start" in it:
                viol.append(("C31:action-ran-twice", {"id": e[4]}))
            it["start"], it["start_clock"], it["thread"] = seq, clock, th
        elif kind == "end":
            info[e[4]]["end"] = seq
        elif kind == "cancel_call":
            info[e[4]].setdefault("cancel_call", seq)
        elif kind == "cancel_ret":
            it = info[e[4]]
            if "cancel_ret" not in it:
                it["cancel_ret"], it["cancel_clock"], it["cancel_thread"], it["cancel_inside"] = seq, clock, th, e[5]
    dispose_ret = next((e[0] for e in events if e[3] == "dispose_ret"), None)
    dispose_call = next((e[0] for e in events if e[3] == "dispose_call"), None)
    started = sorted((it for it in info.values() if "start" in it), key=lambda it: it["start"])
    # one non-caller thread per incarnation, no overlap
    callers = {it["caller"] for it in info.values() if not it["caller"].startswith("T")}
    for it in started:
        if it["thread"] in callers or not it["thread"].startswith("T"):
            viol.append(("C31:action-on-caller-thread", {"thread": it["thread"]}))
    open_actions: dict = {}
    for e in events:
        if e[3] == "start":
            others = [t for t in open_actions if t != e[2]]
            if others:
                viol.append(("C31:two-actions-at-once", {"threads": [e[2]] + others}))
            open_actions[e[2]] = open_actions.get(e[2], 0) + 1
        elif e[3] == "end":
            open_actions[e[2]] -= 1
            if not open_actions[e[2]]:
                del open_actions[e[2]]
    if not P["exit"] and len({it["thread"] for it in started}) > 1:
        viol.append(("C31:more-than-one-loop-thread", {"threads": sorted({it["thread"] for it in started})}))
    # no early start
    for i, it in info.items():
        if "start" in it and it["start_clock"] < it["due"] - 1e-9:
            viol.append(("C31:started-before-due", {"id": i, "due": it["due"], "clock": it["start_clock"]}))
    # FIFO among immediately-due actions ordered by happens-before (a returned before b was called)
    imm = [(i, it) for i, it in info.items() if it["kind"] == "imm" and "start" in it]
    for i, a in imm:
        for j, b in imm:
            if "ret" in a and a["ret"] < b["call"] and a["start"] > b["start"]:
                viol.append(("C31:immediate-actions-out-of-submission-order", {"first": i, "second": j}))
    # due order among timed actions
    timed = [(i, it) for i, it in info.items() if it["kind"] == "timed" and "start" in it]
    for i, a in timed:
        for j, b in timed:
            if a["due"] < b["due"] - 1e-9 and "ret" in a and a["ret"] < b["start"] and a["start"] > b["start"]:
                viol.append(("C31:timed-actions-out-of-due-order", {"first_due": i, "second_due": j}))
    # cancellation (rule 4): dispose() of the item returned ...
    for i, it in info.items():
        if "cancel_ret" not in it:
            continue
        decided = None
        if it["cancel_clock"] < it["due"] - 1e-9:
            decided = "before-due"
        elif it["cancel_inside"] > 0 and it.get("start", 10 ** 9) > it["cancel_ret"]:
            decided = "while-loop-inside-an-action"
        if decided and ("start" not in it or it["start"] > it["cancel_ret"]):
            events.append((len(events), 0, "judge", "cancel_decided", i))
        if decided and "start" in it and it["start"] > it["cancel_ret"]:
            viol.append(("C31:cancelled-action-started:" + decided, {"id": i}))
    # after dispose() returned
    if dispose_ret is not None:
        for i, it in info.items():
            if it["call"] > dispose_ret:
                events.append((len(events), 0, "judge", "post_dispose_schedule", i))
                if it.get("raised") != "DisposedException":
                    viol.append(("C31:schedule-after-dispose-did-not-raise", {"id": i, "got": it.get("raised", "returned")}))
                if "start" in it:
                    viol.append(("C31:action-scheduled-after-dispose-ran", {"id": i}))
    for i, it in info.items():
        if "raised" in it and it["raised"] != "DisposedException":
            viol.append(("C31:schedule-raised", {"id": i, "exc": it["raised"]}))
        elif "raised" in it and (dispose_call is None or it["raised_seq"] < dispose_call):
            viol.append(("C31:DisposedException-before-dispose", {"id": i}))
    # bounded liveness: at quiescence nothing runnable is left
    if dispose_call is None:
        for i, it in info.items():
            if "ret" in it and "start" not in it and "cancel_call" not in it:
                viol.append(("C31:item-stranded-at-quiescence", {"id": i, "kind": it["kind"], "due": it["due"]}))
    return viol


def units(tier: str, seed: int) -> list[dict]:
    q = tier == "quick"
    us: list[dict] = []
    for hi, _ in enumerate(HAND):
        # bound 1 is enumerated completely in both tiers; the thorough tier adds bound 2 with a run cap (the evidence names the
        # scenarios whose enumeration was complete: dfs_complete / dfs_truncated)
        us.append({"mode": "dfs", "hand": hi, "bound": 1, "seed": seed, "max_runs": 2500 if q else 20000})
        if not q:
            us.append({"mode": "dfs", "hand": hi, "bound": 2, "seed": seed, "max_runs": 60000})
    nprog, per = (24, 2) if q else (240, 6)
    for lo in range(0, nprog, per):
        us.append({"mode": "random", "progs": [lo, lo + per], "runs": 40 if q else 300, "seed": seed})
    return us


def run_unit(unit: dict, res: UnitResult) -> None:
    from .. import dcheck, dsched as D
    D.install(D.repo_file(*FILES))
    D.DEFAULT_MAX_STEPS = 50000      # runs of this check take < 1000 steps (evidence: steps_per_run_below); no progress within 50000 is reported
    if not dcheck.check_install(res):
        return
    if unit["mode"] == "dfs":
        P = HAND[unit["hand"]]
        dcheck.explore(res, ID, "hand%d" % unit["hand"], scenario, P, "dfs", bound=unit["bound"], max_runs=unit["max_runs"], on_failed="violation")
        return
    for pi in range(*unit["progs"]):
        P = gen_program(case_rng(unit["seed"], ID, "prog", pi))
        dcheck.explore(res, ID, "gen%d" % pi, scenario, P, "random", seed=unit["seed"], runs=unit["runs"], on_failed="violation")
        dcheck.explore(res, ID, "gen%d" % pi, scenario, P, "pct", seed=unit["seed"], runs=unit["runs"] // 2, on_failed="violation")


def replay(rep: dict, res: UnitResult) -> None:
    from .. import dcheck, dsched as D
    D.install(D.repo_file(*FILES))
    D.DEFAULT_MAX_STEPS = 50000      # runs of this check take < 1000 steps (evidence: steps_per_run_below); no progress within 50000 is reported
    dcheck.replay(res, ID, scenario, rep)
