"""C02 Termination releases every source subscription (virtual time, interval monitor over probe-source logs)."""
from __future__ import annotations

from typing import Any

from ..catalog import CATALOG
from ..common import UnitResult, case_rng, chunks
from . import _c01_pipeline as P

ID = "C02"
LEVEL = "exploration"
PATTERNS = ["completion", "error", "early", "inner_error", "pending_aux", "nested_outlive", "random"]
RULE = ("seeded random pipelines (depth 1-4 from the %d-entry operator catalog without subscribe_on, "
        "1-3 conforming probe sources cold/hot/synchronous/from_iterable) built for a termination pattern: completion of "
        "the main source, error of the main source, early termination (take/first/element_at/take_while/amb/take_until/"
        "timeout/... forced into the pipeline over sources that never end), an inner/second source that errors while its "
        "siblings never end, trigger/sampler/duration/boundary sources that never end while the main source completes, "
        "windows/groups that outlive the outer terminal (nested operator followed by an early terminator; the probes on "
        "the windows are unsubscribed at t=500), and unconstrained. Oracle: with T = time of the top subscriber's terminal "
        "and T' = latest terminal/unsubscribe time of the window/group probes, every `sub` of a probe source has an `unsub` "
        "at time <= max(T,T') and no `sub` is later. A case is checked only when the top subscriber terminated; "
        "non-trivial = checked AND at least one subscription was still pending (its source had not terminated by itself) "
        "when it was closed; distinct = digest of (sources, pipeline with arguments)" % len(CATALOG))
ASSUMPTIONS = ["TestScheduler / HistoricalScheduler are the clock (C28)", "probe sources are harness code and conforming here",
               "the run is cut at virtual time 600; cases whose top subscriber has not terminated by then are not judged"]
CASES = {"quick": 3200, "thorough": 800000}
REQUIRED = {"set:ops": len(CATALOG) - 8,
            "checked": {"quick": 1000, "thorough": 400000},
            "pending_subscriptions_closed": {"quick": 800, "thorough": 300000},
            "checked_early": {"quick": 100, "thorough": 40000},
            "checked_inner_error": {"quick": 60, "thorough": 25000},
            "checked_pending_aux": {"quick": 100, "thorough": 40000},
            "checked_nested_outlive": {"quick": 40, "thorough": 15000},
            "windows_outliving_top": {"quick": 40, "thorough": 15000}}
EXCLUDE = ("sub_on",)


def units(tier: str, seed: int) -> list[dict]:
    return [{"lo": lo, "hi": hi, "seed": seed} for lo, hi in chunks(CASES[tier], 16 if tier == "quick" else 64)]


def gen(seed: int, idx: int) -> tuple:
    r = case_rng(seed, ID, idx)
    pattern = PATTERNS[idx % len(PATTERNS)]
    clock = "dt" if r.random() < 0.1 else "num"
    depth = r.choice([1, 2, 2, 3, 3, 4])
    plan: dict = {}
    pol: dict = {}
    never_or_late = lambda rr: rr.choice([None, None, "C"])      # noqa: E731
    if pattern == "completion":
        pol = {"main": "C"}
    elif pattern == "error":
        pol = {"main": "E"}
    elif pattern == "early":
        pol = {"main": None}
        for role in ("trigger", "amb", "second", "zipped", "first_timeout", "other"):
            pol[role] = "auto"
        plan[r.randrange(depth)] = "early"
    elif pattern == "inner_error":
        state = {"n": 0}

        def inner_pol(rr: Any) -> Any:
            state["n"] += 1
            return "E" if state["n"] == 1 else None

        pol = {"main": r.choice([None, None, "C"])}
        for role in ("merged", "concatenated", "zipped", "combined", "latest", "amb", "joined", "inner", "second", "other",
                     "handler", "right", "mapper", "project", "mapper_indexed"):
            pol[role] = inner_pol
        plan[r.randrange(depth)] = "inner"
    elif pattern == "pending_aux":
        pol = {"main": "C"}
        for role in ("trigger", "sampler", "boundary", "openings", "closing_mapper", "duration_mapper", "right", "first_timeout",
                     "left_duration_mapper", "right_duration_mapper", "delay_duration_mapper", "throttle_duration_mapper",
                     "timeout_duration_mapper", "subscription_delay", "merged", "combined", "latest", "zipped", "amb", "second",
                     "inner"):
            pol[role] = None
        plan[r.randrange(depth)] = "aux"
    elif pattern == "nested_outlive":
        depth = max(depth, 2)
        pol = {"main": never_or_late}
        i = r.randrange(depth - 1)
        plan[i] = "nested"
        plan[i + 1] = r.choice(["take", "take", "element_at", "take_until", "take_with_time", "take_until_with_time"])
    b = P.build(r, depth, clock=clock, exclude=EXCLUDE, plan=plan, term_policy=pol)
    return b, pattern, r.random() < 0.5


def judge(b: P.Built, top: Any) -> dict:
    """Interval monitor. Returns {"checked": bool, "problems": [...], ...}"""
    lab = b.lab
    out: dict = {"checked": False, "problems": [], "pending_closed": 0, "outlive": 0}
    term = top.terminal
    if term is None or b.livelock:
        return out
    T = term[2]
    tmax = T
    for (c, s, eseq, etime) in P.child_intervals(lab, top):
        if eseq is None:
            return out                      # a window/group probe neither terminated nor was unsubscribed: not judged
        if etime > T:
            out["outlive"] += 1
        tmax = max(tmax, etime)
    out["checked"] = True
    out["T"], out["Tmax"] = T, tmax
    selfterm = P.self_terminated(lab)
    for key, sub, unsub in P.subscriptions(lab):
        if sub[1] > tmax:
            out["problems"].append(("late-sub", key, sub[1], None))
        if unsub is None:
            out["problems"].append(("leak", key, sub[1], None))
        elif unsub[1] > tmax:
            out["problems"].append(("leak", key, sub[1], unsub[1]))
        if key not in selfterm:
            out["pending_closed"] += 1
    return out


def run(seed: int, idx: int, keep: list | None) -> tuple:
    b, pattern, as_callbacks = gen(seed, idx)
    top = P.execute(b, keep, as_callbacks=as_callbacks)
    return b, top, pattern, judge(b, top)


def run_case(seed: int, idx: int, res: UnitResult, keep: list | None = None) -> None:
    b, top, pattern, j = run(seed, idx, keep)
    lab = b.lab
    desc = b.describe(keep)
    nsubs = len(lab.events("sub"))
    sample = {"pattern": pattern, "case": desc, "top": top.kinds[:20], "T": j.get("T"), "Tmax": j.get("Tmax"),
              "subscriptions": [[k[0], k[1], s[1], None if u is None else u[1]] for k, s, u in P.subscriptions(lab)][:12]}
    res.case(key=desc, nontrivial=j["checked"] and j["pending_closed"] > 0, sample=sample if j["checked"] and j["pending_closed"] else None)
    res.count("pattern_" + pattern)
    for n in b.opnames(keep):
        res.note("ops", n)
    if b.livelock:
        res.count("livelock_cut")
    if not j["checked"]:
        res.count("not_judged_top_never_terminated" if top.terminal is None else "not_judged_window_still_live")
        return
    res.count("checked")
    res.count("checked_" + pattern)
    res.count("terminal_" + top.terminal[0])
    res.count("subscriptions_checked", nsubs)
    res.count("pending_subscriptions_closed", j["pending_closed"])
    res.count("windows_outliving_top", j["outlive"])
    res.count("window_probes", len(lab.observers) - 1)
    res.count("clock_" + lab.clock_kind)
    if not j["problems"]:
        return
    kinds = sorted({p[0] for p in j["problems"]})
    kept = keep
    if keep is None:
        def fails(cand: list) -> bool:
            jj = run(seed, idx, cand)[3]
            return any(p[0] == kinds[0] for p in jj["problems"])
        kept = P.minimize(lambda: gen(seed, idx)[0], fails)
        b, top, pattern, j2 = run(seed, idx, kept)
        if j2["problems"]:
            j = j2
        desc = b.describe(kept)
    opn = "+".join(sorted(set(b.opnames(kept)))) or "source-only"
    res.violation("C02:%s:%s" % (kinds[0], opn),
                  {"why": "a source subscription outlives the pipeline's termination" if kinds[0] == "leak"
                   else "a source is subscribed after the pipeline terminated",
                   "expected": "every sub has an unsub at time <= max(T,T') = %s, no sub later" % j.get("Tmax"),
                   "observed": [{"kind": p[0], "source": p[1][0], "sid": p[1][1], "sub_time": p[2], "unsub_time": p[3]} for p in j["problems"][:6]],
                   "T_top_terminal": j.get("T"), "top_received": top.kinds[:30], "pattern": pattern, "case": desc},
                  {"seed": seed, "idx": idx, "keep": kept})


def run_unit(unit: dict, res: UnitResult) -> None:
    for idx in range(unit["lo"], unit["hi"]):
        run_case(unit["seed"], idx, res)


def replay(rep: dict, res: UnitResult) -> None:
    run_case(rep["seed"], rep["idx"], res, keep=rep.get("keep"))
