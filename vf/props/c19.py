"""C19 Grouping routes each element to exactly one live group (virtual time, trace-driven dict-of-lists model)."""
from __future__ import annotations

from typing import Any

import reactivex.operators as ops

from .. import registry as R
from ..common import UnitResult, case_rng, chunks, show, strict
from ..single import SUB_AT, make_input
from ..vlab import Lab, gen_timeline, show_timeline
from ._c18_trace import INF, Trace, check_subscribed, check_top_term, check_windows, deliveries, terminal_of

ID = "C19"
LEVEL = "exploration"
RULE = ("seeded random cases: group_by / group_by_until / partition with key function, element mapper and predicate "
        "from a registry (few keys, many keys, keys that are falsy and keys that are equal across types: 0/False/0.0, "
        "1/True, '', None, ()), source timeline of 0..10 elements ending in C/E/never (hot, cold, synchronous), "
        "numeric or datetime virtual clock; for group_by_until every duration_mapper call returns a fresh cold probe "
        "that fires (element or completion, never synchronously) at a generated offset or never. A probe is subscribed "
        "to every group inside the outer on_next. The model is a dict key -> list fed with the OBSERVED emissions of "
        "the source and of the duration probes; every delivery is attributed (by event sequence number) to the source "
        "emission that carried it. Two more families: durations derived from the group itself (g.pipe(skip(m-1))), judged for "
        "routing, expiry, terminals and escapes; group life cycles over a hot source (outer subscription ended early by take(m) / "
        "dispose / dispose from inside a group subscriber's first on_next, group subscribers arriving late and leaving early, "
        "groups backed by Subject / ReplaySubject / BehaviorSubject): the source stays subscribed exactly while the outer or any "
        "group subscription is alive and every group subscriber gets what its kind of subject owes it; a group subscriber that answers the "
        "completion of its (expired) group by pushing further elements of the same or another key into a Subject source from inside that callback "
        "(conservation per key: what was pushed for a key is the concatenation of what the successive groups of that key received). non-trivial = the operator was offered >= 1 element; distinct = digest of "
        "(operator, parameters, timelines)")
ASSUMPTIONS = ["TestScheduler / HistoricalScheduler are the clocks (ordering checked by C28)",
               "probe sources and probe observers are harness code (conforming)",
               "two keys are the same key when they are equal and hash alike (dict semantics): 0, False and 0.0 name one group; "
               "the group carries the key of the element that created it",
               "duration sequences that fire synchronously inside subscribe, and duration sequences that end with an "
               "error, are outside the statement (the former are not generated, the check stops judging at the latter)",
               "partition: only the routing of elements is judged (the statement says nothing else); both outputs are "
               "subscribed at the same instant before the first element"]
CASES = {"quick": 3600, "thorough": 600000}
OPS = ["group_by", "group_by_until", "group_by_until", "partition"]
REQUIRED = {"set:ops": 3, "set:keys": 7, "derived_duration_elements": {"quick": 1500, "thorough": 200000},
            "groups_with_falsy_key": {"quick": 100, "thorough": 5000},
            "elements_joining_group_of_equal_key_of_other_type": {"quick": 30, "thorough": 600},
            "groups_reborn_after_expiry": {"quick": 50, "thorough": 1000},
            "source_error_with_2_or_more_open_groups": {"quick": 30, "thorough": 600},
            "partition_elements_checked": {"quick": 500, "thorough": 10000},
            "lifecycle_cases": {"quick": 800, "thorough": 100000},
            "requeue_cases": {"quick": 1000, "thorough": 150000}, "requeued_elements": {"quick": 800, "thorough": 100000},
            "requeue_groups_reborn": {"quick": 500, "thorough": 50000},
            "lifecycle_source_held_by_a_group_subscriber_after_outer_ended": {"quick": 300, "thorough": 30000},
            "lifecycle_groups_subscribed_after_outer_ended": {"quick": 200, "thorough": 20000}}
STEPS = (0, 5, 5, 10, 10, 15, 1, 4, 6, 20)
T0 = SUB_AT


def key_zeroes(v: Any) -> Any:
    """keys that are falsy and/or equal across types"""
    return [0, False, 0.0, "", None, 1, True, ()][int(R.num(v)) % 8]


def key_self(v: Any) -> Any:
    """the element itself when hashable (so 0, 0.0, False, None, '', () are keys), else its repr: many keys"""
    try:
        hash(v)
        return v
    except TypeError:
        return repr(v)


KEYS = dict(R.KEYS)
KEYS["key_zeroes"] = key_zeroes
KEYS["key_self"] = key_self


def units(tier: str, seed: int) -> list[dict]:
    return [{"lo": lo, "hi": hi, "seed": seed} for lo, hi in chunks(CASES[tier], 16 if tier == "quick" else 64)]


def gen_duration(r: Any) -> list:
    c = r.random()
    if c < 0.25:
        return []
    d = r.choice(STEPS)
    if c < 0.55:
        return [(d, "N", r.randint(0, 9))]
    if c < 0.75:
        return [(d, "C", None)]
    e = r.choice((0, 5, 10))
    if c < 0.9:
        return [(d, "N", 1), (d + e, "N", 2)]
    return [(d, "N", 1), (d + e, "C", None)]


def gen_case(r: Any, idx: int) -> dict:
    op = OPS[idx % len(OPS)]
    domain = r.choice(["ints", "dups", "falsy", "falsy", "hfalsy"])
    clock = r.choice(["num", "dt"])
    c = r.random()
    kind = "sync" if (op != "partition" and c < 0.07) else ("hot" if c < 0.45 else "cold")
    tl = gen_timeline(r, domain, maxlen=10)
    P: dict = {}
    if op == "partition":
        P["pred"] = r.choice(sorted(R.PREDICATES))
    else:
        P["key"] = r.choice(sorted(KEYS) + ["key_zeroes", "key_self"])
        P["elem"] = r.choice([None, None] + sorted(R.MAPPERS))
        if op == "group_by_until":
            P["durations"] = [gen_duration(r) for _ in range(12)]
    return {"op": op, "P": P, "tl": tl, "kind": kind, "clock": clock, "domain": domain}


def describe(case: dict) -> dict:
    P = dict(case["P"])
    if "durations" in P:
        P["durations"] = [show_timeline(d) for d in P["durations"]]
    return {"op": case["op"], "params": P, "source": case["kind"], "clock": case["clock"], "timeline": show_timeline(case["tl"])}


def _err(inp: Any) -> Any:
    return inp.v if inp.k == "E" else None


# ------------------------------------------------------------------------------------------- groups

def model_groups(tr: Trace, keyf: Any, stats: dict) -> dict:
    specs: list[dict] = []
    live: dict = {}
    top_term: Any = None
    ignore_after = INF
    cutoff = False
    ever: dict = {}
    for inp in tr.inputs:
        if inp.src == "s":
            if inp.k == "N":
                k = keyf(inp.v)
                if k not in live:
                    live[k] = len(specs)
                    specs.append({"open_t": inp.t, "open_cause": inp.idx, "open_after": None, "elems": [], "close": None, "key": k})
                    if k in ever:
                        stats["groups_reborn_after_expiry"] += 1
                    ever[k] = True
                    if not k:
                        stats["groups_with_falsy_key"] += 1
                s = specs[live[k]]
                if strict(s["key"]) != strict(k):
                    stats["elements_joining_group_of_equal_key_of_other_type"] += 1
                s["elems"].append(inp.idx)
            else:
                for j in live.values():
                    specs[j]["close"] = (inp.k, inp.idx, inp.t, _err(inp), "terminal")
                if len(live) >= 2:
                    stats["source_%s_with_2_or_more_open_groups" % ("error" if inp.k == "E" else "completed")] += 1
                top_term = (inp.k, inp.idx, _err(inp))
                break
        else:
            j = int(inp.src[1:])
            if j < len(specs) and live.get(specs[j]["key"], -1) == j:
                if inp.k in "NC":
                    specs[j]["close"] = ("C", inp.idx, inp.t, None, "rule")
                    del live[specs[j]["key"]]
                    stats["groups_expired"] += 1
                else:
                    ignore_after, cutoff = inp.seq, True
                    break
            else:
                stats["obs_emissions_of_duration_probes_no_longer_current"] += 1
    return {"specs": specs, "ignore_after": ignore_after, "top_term": top_term, "cutoff": cutoff}


def run_groups(case: dict, r: Any, res: UnitResult, seed: int, idx: int) -> None:
    op, P = case["op"], case["P"]
    lab = Lab(case["clock"])
    if case["kind"] == "sync":
        src = lab.sync("s", case["tl"])
    else:
        msgs, _ = make_input(r, case["tl"], case["kind"] == "hot")
        src = lab.hot("s", msgs) if case["kind"] == "hot" else lab.cold("s", msgs)
    keyf = KEYS[P["key"]]
    elemf = R.MAPPERS[P["elem"]] if P["elem"] else None
    dur_args: list = []
    if op == "group_by":
        o = ops.group_by(keyf, elemf) if elemf is not None else ops.group_by(keyf)
    else:
        durations = P["durations"]

        def duration_mapper(grp: Any) -> Any:
            i = len(dur_args)
            dur_args.append(getattr(grp, "key", "<no key attribute>"))
            return lab.cold("d%d" % i, durations[i] if i < len(durations) else [])
        o = ops.group_by_until(keyf, elemf, duration_mapper)
    top = lab.observer("top")
    lab.at(T0, lambda: top.subscribe_to(src.pipe(o)))
    lab.run()
    tr = Trace(lab)
    stats = {k: 0 for k in ("groups_reborn_after_expiry", "groups_with_falsy_key", "elements_joining_group_of_equal_key_of_other_type",
                            "source_error_with_2_or_more_open_groups", "source_completed_with_2_or_more_open_groups", "groups_expired",
                            "obs_emissions_of_duration_probes_no_longer_current")}
    model = model_groups(tr, keyf, stats)
    specs = model["specs"]
    mapv = elemf if elemf is not None else (lambda v: v)
    probs = check_windows(tr, top, specs, 0, model["ignore_after"], "s", mapv)
    probs.extend(check_top_term(tr, top, model["top_term"], model["ignore_after"]))
    groups = [x for x in top.recv if x[0] == "N" and x[3] < model["ignore_after"]]
    for j, (x, s) in enumerate(zip(groups, specs)):
        gk = getattr(x[1], "key", "<no key attribute>")
        if strict(gk) != strict(s["key"]):
            probs.append(("group_key", "group %d has key %r, the element that created it has key %r" % (j, gk, s["key"])))
    if op == "group_by_until":
        probs.extend(check_subscribed(lab, tr, [("d%d" % j, s["open_cause"]) for j, s in enumerate(specs)], "duration_not_subscribed"))
    if op == "group_by_until" and model["ignore_after"] == INF:
        want = [s["key"] for s in specs]
        if [strict(k) for k in dur_args[:len(want)]] != [strict(k) for k in want] or len(dur_args) > len(want):
            probs.append(("duration_mapper_args", "duration_mapper was called for groups with keys %r, the groups created have keys %r" % (dur_args, want)))
    if lab.escaped_to_scheduler:
        probs.append(("escaped", "exception escaped to the scheduler: %r" % (lab.escaped_to_scheduler[0],)))
    esc = lab.events("escaped")
    if esc:
        probs.append(("escaped", "exception escaped into the emitting source: %r" % (esc[0][5],)))
    for k, v in stats.items():
        if v:
            res.count(k, v)
    res.count("groups_checked", len(specs))
    res.count("group_elements_checked", sum(len(s["elems"]) for s in specs))
    if model["cutoff"]:
        res.count("cutoff_cases")
    if elemf is not None:
        res.count("cases_with_element_mapper")
    res.note("keys", P["key"])
    ins = tr.inputs
    res.count("same_instant_duration_and_element", sum(1 for a, b in zip(ins, ins[1:]) if a.t == b.t and a.src != b.src))
    finish(case, tr, top, probs, res, seed, idx,
           {"outer": [[x[2], x[0], show(x[1]) if x[0] != "N" else "<group %d key=%r>" % (j, getattr(x[1], "key", None))] for j, x in enumerate(top.recv)],
            "groups": [[c.name, [[t, k, show(v)] for (t, k, v) in c.timed()]] for c in top.children]},
           [{"key": show(s["key"]), "open_t": s["open_t"], "elems": s["elems"], "close": show(s["close"][:3] + s["close"][4:]) if s["close"] else None}
            for s in specs])


# ------------------------------------------------------------------------------------------- partition

def run_partition(case: dict, r: Any, res: UnitResult, seed: int, idx: int) -> None:
    P = case["P"]
    lab = Lab(case["clock"])
    msgs, _ = make_input(r, case["tl"], case["kind"] == "hot")
    src = lab.hot("s", msgs) if case["kind"] == "hot" else lab.cold("s", msgs)
    pred = R.PREDICATES[P["pred"]]
    indexed = idx % 3 == 0
    if indexed:
        # partition_indexed: the predicate also sees the position; every third position flips the answer
        outs = src.pipe(ops.partition_indexed(lambda x, i: bool(pred(x)) != (i % 3 == 0)))
        res.count("partition_indexed_cases")
    else:
        outs = src.pipe(ops.partition(pred))
    tops = [lab.observer("true"), lab.observer("false")]

    def sub() -> None:
        tops[0].subscribe_to(outs[0])
        tops[1].subscribe_to(outs[1])
    lab.at(T0, sub)
    lab.run()
    tr = Trace(lab)
    probs: list = []
    if len(outs) != 2:
        probs.append(("outputs", "partition returned %d observables" % len(outs)))
    src_in = [i for i in tr.inputs if i.src == "s"]
    term = next((i for i in src_in if i.k in "EC"), None)
    elems = [i for i in src_in if i.k == "N" and (term is None or i.idx < term.idx)]
    got = []
    for top in tops:
        owners, ps = deliveries(tr, top)
        probs.extend(ps)
        got.append(owners)
    pos = {e.idx: n for n, e in enumerate(elems)}
    for side, want_flag in ((0, True), (1, False)):
        want = [e.idx for e in elems if (bool(pred(e.v)) != (pos[e.idx] % 3 == 0) if indexed else bool(pred(e.v))) == want_flag]
        if got[side] != want:
            both = sorted(set(got[0]) & set(got[1]))
            none = [e.idx for e in elems if e.idx not in got[0] and e.idx not in got[1]]
            cat = "element_on_both_outputs" if both else ("element_on_neither_output" if none else "element_on_wrong_output")
            probs.append((cat, "output[%d] (predicate %s) received source elements %s, expected %s" % (side, want_flag, got[side], want)))
    res.count("partition_elements_checked", len(elems))
    res.count("partition_true", len(got[0]))
    res.count("partition_false", len(got[1]))
    if term is not None:
        for top in tops:
            t = terminal_of(top)
            if t is None or t[0] != term.k:
                res.count("obs_partition_output_terminal_differs_from_source")
    if lab.escaped_to_scheduler:
        probs.append(("escaped", "exception escaped to the scheduler: %r" % (lab.escaped_to_scheduler[0],)))
    finish(case, tr, tops[0], probs, res, seed, idx,
           {"true": [[t, k, show(v)] for (t, k, v) in tops[0].timed()], "false": [[t, k, show(v)] for (t, k, v) in tops[1].timed()]}, None)


def finish(case: dict, tr: Trace, top: Any, probs: list, res: UnitResult, seed: int, idx: int, observed: dict, model: Any) -> None:
    desc = describe(case)
    n_src = sum(1 for i in tr.inputs if i.src == "s" and i.k == "N")
    res.case(key=desc, nontrivial=n_src > 0, sample={"case": desc, "inputs": tr.show(), "observed": observed})
    res.note("ops", case["op"])
    res.note("source_kind", case["kind"])
    res.note("clock", case["clock"])
    term = next((i for i in tr.inputs if i.src == "s" and i.k in "EC"), None)
    res.count("source_" + ("never" if term is None else ("completed" if term.k == "C" else "error")))
    if probs:
        cats = []
        for c, _ in probs:
            if c not in cats:
                cats.append(c)
        detail = {"why": [p for _, p in probs][:8], "case": desc, "inputs(idx,src,t,kind,value)": tr.show(), "observed": observed}
        if model is not None:
            detail["model_groups"] = model
        res.violation("C19:%s:%s" % (case["op"], cats[0]), detail, {"seed": seed, "idx": idx})


def run_case(seed: int, idx: int, res: UnitResult) -> None:
    r = case_rng(seed, ID, idx)
    case = gen_case(r, idx)
    if case["op"] == "partition":
        run_partition(case, r, res, seed, idx)
    else:
        run_groups(case, r, res, seed, idx)



# ------------------------------------------------------------------ group-derived durations (conservation only)
# group_by_until with a duration selector that is derived from the group itself (group.skip(m-1), i.e. "expire after m
# elements"). The statement does not say whether the element that triggers expiry belongs to the expiring or to the
# next group, but it must be delivered to exactly one group of its key, in arrival order, and nothing may be lost.

def derived_duration_case(seed: int, idx: int, res: UnitResult) -> None:
    r = case_rng(seed, ID, "derived", idx)
    m = r.randint(1, 3)
    nkeys = r.randint(1, 3)
    tl = gen_timeline(r, "ints", maxlen=8, term=r.choice(["C", "C", "E", None]))
    hot = r.random() < 0.4
    msgs, seen = make_input(r, tl, hot)
    lab = Lab("num")
    src = lab.hot("s", msgs) if hot else lab.cold("s", msgs)
    keyf = lambda v: v % nkeys  # noqa: E731
    top = lab.observer("top")
    o = src.pipe(ops.group_by_until(keyf, None, lambda g: g.pipe(ops.skip(m - 1))))
    lab.at(SUB_AT, lambda: top.subscribe_to(o))
    lab.run()
    offered = []
    for (t, k, v) in seen:
        offered.append((t, k, v))
        if k in "EC":
            break
    elems = [(t, v) for (t, k, v) in offered if k == "N"]
    per_key: dict = {}
    for t, v in elems:
        per_key.setdefault(keyf(v), []).append((t, v))
    got_per_key: dict = {}
    groups = []
    for g, child in zip([x for x in top.values], top.children):
        groups.append((g.key, child.timed()))
        got_per_key.setdefault(g.key, []).extend((t, v) for (t, k, v) in child.timed() if k == "N")
    desc = {"family": "derived-duration", "expire_after": m, "keys": nkeys, "hot": hot, "timeline": show_timeline(tl)}
    res.case(key=desc, nontrivial=len(elems) >= 2,
             sample={"case": desc, "groups": [[k, [[t, kk, show(v)] for (t, kk, v) in tr]] for k, tr in groups]} if idx % 50 == 0 else None)
    res.count("derived_duration_cases")
    res.count("derived_duration_elements", len(elems))
    problem = None
    for key, exp in per_key.items():
        got = got_per_key.get(key, [])
        if [(t, strict(v)) for t, v in got] != [(t, strict(v)) for t, v in exp]:
            lost = [v for (t, v) in exp if (t, strict(v)) not in [(tt, strict(vv)) for tt, vv in got]]
            what = "element-lost" if lost else ("element-duplicated" if len(got) > len(exp) else "order")
            problem = ("C19:group_by_until:derived-duration:%s" % what, {"key": key, "expected_elements": [[t, show(v)] for t, v in exp],
                                                                          "delivered_to_groups_of_key": [[t, show(v)] for t, v in got]})
            break
    for key in got_per_key:
        if key not in per_key and got_per_key[key]:
            problem = problem or ("C19:group_by_until:derived-duration:foreign-element", {"key": key})
    if problem is None:
        for (gk, tr) in groups:
            if any(keyf(v) != gk for (t, k, v) in tr if k == "N"):
                problem = ("C19:group_by_until:derived-duration:element-on-group-of-other-key", {"group": gk})
            if sum(1 for (t, k, v) in tr if k == "N") > m:
                problem = problem or ("C19:group_by_until:derived-duration:group-outlived-its-duration", {"group": gk, "elements": len(tr)})
    term = offered[-1] if offered and offered[-1][1] in "EC" else None
    if problem is None:
        esc = [e for e in lab.ev if e[2] in ("escaped", "escaped_sched")]
        if esc:
            problem = ("C19:group_by_until:derived-duration:exception-escaped-into-the-source", {"escaped": show(esc[:3])})
    if problem is None and term is not None:
        res.count("derived_duration_terminated")
        tt = top.timed()
        if not tt or tt[-1][1] != term[1] or tt[-1][0] != term[0]:
            problem = ("C19:group_by_until:derived-duration:subscriber-not-terminated-with-the-source", {"terminal": show(term), "top_tail": show(tt[-2:])})
        for (gk, tr) in groups:
            if problem is None and (not tr or tr[-1][1] not in "EC"):
                problem = ("C19:group_by_until:derived-duration:group-left-open-after-source-terminal", {"group": gk, "terminal": show(term)})
            n_el = sum(1 for (t, k, v) in tr if k == "N")
            if problem is None and n_el < m and tr and tr[-1][1] != term[1]:
                # a group whose duration has not fired is open when the source terminates: it ends with the source's terminal kind
                problem = ("C19:group_by_until:derived-duration:open-group-ended-with-other-kind", {"group": gk, "terminal": show(term), "trace": show(tr)})
    if problem:
        problem[1]["case"] = desc
        problem[1]["groups"] = [[k, [[t, kk, show(v)] for (t, kk, v) in tr]] for k, tr in groups]
        res.violation(problem[0], problem[1], {"seed": seed, "idx": idx, "family": "derived"})

def lifecycle_case(seed: int, idx: int, res: UnitResult) -> None:
    """group_by over a hot source where the groups are NOT all subscribed inside the outer on_next and do not all stay
    subscribed: the outer subscription ends early (take(m) or an explicit dispose, also from inside a group subscriber's
    first on_next), group subscribers arrive late and leave early, groups are Subject / ReplaySubject / BehaviorSubject
    (subject_mapper). Reference model: the source stays subscribed while the outer subscription or any group subscription
    is alive (and is released exactly when the last of them goes, or at its terminal); while it is subscribed every element
    goes to the subject of its key; a group subscriber gets what that kind of subject owes a subscriber that is subscribed
    over [t_sub, t_unsub)."""
    from reactivex.subject import BehaviorSubject, ReplaySubject
    r = case_rng(seed, ID, "lifecycle", idx)
    nkeys = r.randint(2, 3)
    n = r.randint(3, 8)
    kind = r.choice(["subject", "subject", "replay", "behavior"])
    term = r.choice(["C", "E", None, None])
    times = sorted(r.sample(range(10, 100, 5), n))
    from ..vlab import SrcErr
    err = SrcErr("source failed")
    msgs = [(T0 + t, "N", r.randint(0, 9)) for t in times]
    t_term = T0 + 105
    if term:
        msgs.append((t_term, term, err if term == "E" else None))
    keyf = lambda v: v % nkeys  # noqa: E731
    outer_end = r.choice(["take", "take", "dispose_at", "dispose_in_group_on_next", "never"])
    m = r.randint(1, nkeys)
    t_outer_dispose = T0 + r.choice([22, 47, 63])
    lab = Lab("num")
    src = lab.hot("s", msgs)
    plans: list = []       # per group (in order of appearance): (subscribe offset, dispose offset or None)
    for _ in range(nkeys):
        plans.append((r.choice([0, 0, 7, 23, 41]), r.choice([None, None, 12, 31, 55])))
    subject_mapper = {"subject": None, "replay": (lambda: ReplaySubject()), "behavior": (lambda: BehaviorSubject("init"))}[kind]
    o = src.pipe(ops.group_by(keyf, None, subject_mapper))
    if outer_end == "take":
        o = o.pipe(ops.take(m))
    gsubs: list = []       # dicts: key, obs, t_sub, t_unsub
    top_holder: dict = {}

    def on_recv(k: str, g: Any, obs: Any) -> None:
        if k != "N":
            return
        gi = len(gsubs)
        off, doff = plans[gi] if gi < len(plans) else (0, None)
        rec = {"key": g.key, "obs": lab.observer("g%d" % gi, inner=False), "t_sub": None, "t_unsub": None, "t_group": lab.now(), "sync": off == 0,
               "create_seq": max(e[0] for e in lab.ev if e[2] == "emit" and e[3] == "s")}
        gsubs.append(rec)
        if outer_end == "dispose_in_group_on_next" and gi == 0:
            fired = [False]

            def hook(kk: str, vv: Any, oo: Any) -> None:
                if kk == "N" and not fired[0]:
                    fired[0] = True
                    top_holder["top"].dispose()
                    rec_outer["t"] = lab.now()
                    rec_outer["seq"] = len(lab.ev)
            rec["obs"].on_recv = hook

        def do_sub() -> None:
            rec["t_sub"] = lab.now()
            rec["sub_seq"] = len(lab.ev)
            rec["obs"].subscribe_to(g)

        def do_unsub() -> None:
            rec["obs"].dispose()
            rec["t_unsub"] = lab.now()
            rec["unsub_seq"] = len(lab.ev)
        if off == 0:
            do_sub()
        else:
            lab.at(lab.now() + off, do_sub)
        if doff is not None:
            lab.at(lab.now() + off + doff, do_unsub)
    rec_outer: dict = {"t": None, "seq": None}
    top = lab.observer("top", inner=False, on_recv=on_recv)
    top_holder["top"] = top
    lab.at(T0, lambda: top.subscribe_to(o))
    if outer_end == "dispose_at":
        def disp_outer() -> None:
            top.dispose()
            rec_outer["t"] = lab.now()
            rec_outer["seq"] = len(lab.ev)
        lab.at(t_outer_dispose, disp_outer)
    lab.at(T0 + 300, lambda: [g["obs"].dispose() for g in gsubs])
    lab.run()
    desc = {"family": "lifecycle", "subject": kind, "keys": nkeys, "timeline": show_timeline(msgs), "outer": outer_end, "take": m if outer_end == "take" else None,
            "outer_dispose_at": t_outer_dispose if outer_end == "dispose_at" else None, "group_plans": plans}
    res.count("lifecycle_cases")
    # ---- reference model over the event log (sequence numbers order everything)
    ev = lab.ev
    subs = list(lab.open_subscriptions().items())
    problem = None
    BIG = 10 ** 9
    if len(subs) != 1:
        problem = ("source-subscriptions", {"subscriptions": len(subs)})
    else:
        (_, (sub_e, unsub_e)) = subs[0]
        src_term = next((e for e in ev if e[2] == "emit" and e[3] == "s" and e[5] in "EC"), None)

        def dispose_span(name: str) -> tuple | None:
            c = next((e[0] for e in ev if e[2] == "dispose_call" and e[3] == name), None)
            rr = next((e[0] for e in ev if e[2] == "dispose_ret" and e[3] == name), None)
            return None if c is None else (c, rr if rr is not None else BIG)
        # holders of the source: (first seq at which it holds, first seq at which its release may happen, last seq of its release)
        holders = []
        tt = top.terminal
        osp = dispose_span("top")
        if tt is not None and (osp is None or tt[3] < osp[0]):
            holders.append(("outer", sub_e[0], tt[3], tt[3] + 3))
        elif osp is not None:
            holders.append(("outer", sub_e[0], osp[0], osp[1]))
        else:
            holders.append(("outer", sub_e[0], BIG, BIG))
        for g in gsubs:
            if g.get("sub_seq") is None:
                continue
            sp = dispose_span(g["obs"].name)
            gt = g["obs"].terminal
            if gt is not None and (sp is None or gt[3] < sp[0]):
                holders.append((g["obs"].name, g["sub_seq"], gt[3], gt[3] + 3))
            elif sp is not None:
                holders.append((g["obs"].name, g["sub_seq"], sp[0], sp[1]))
            else:
                holders.append((g["obs"].name, g["sub_seq"], BIG, BIG))
        # the source is held from its subscription on; walk forward: it is released at the end of the last holder that
        # started holding before the release
        cur = holders[0]
        while True:
            nxt = [h for h in holders if h is not cur and h[1] <= cur[2] and h[2] > cur[2]]
            if not nxt:
                break
            cur = max(nxt, key=lambda h: h[2])
        rel_from, rel_to = cur[2], cur[3]
        res.count("lifecycle_group_subscriptions", len(holders) - 1)
        if holders[0][2] < BIG and any(h[1] > holders[0][2] for h in holders[1:]):
            res.count("lifecycle_groups_subscribed_after_outer_ended")
        if cur is not holders[0]:
            res.count("lifecycle_source_held_by_a_group_subscriber_after_outer_ended")
        by_terminal = src_term is not None and src_term[0] < rel_from
        if not by_terminal and rel_from < BIG:
            if unsub_e is None:
                problem = ("source-never-released", {"last_holder": cur[0]})
            elif unsub_e[0] < rel_from:
                problem = ("source-released-while-a-subscriber-was-live", {"released_at": unsub_e[1], "holder_still_live": cur[0]})
            elif unsub_e[1] > ev[min(rel_to, len(ev) - 1)][1]:
                problem = ("source-released-late", {"released_at": unsub_e[1], "last_holder": cur[0]})
        open_until = unsub_e[0] if unsub_e is not None else BIG
        if problem is None:
            emits_n = [e for e in ev if e[2] == "emit" and e[3] == "s" and e[5] == "N" and sub_e[0] < e[0] < open_until]
            routed = [(e[0], e[1], e[6]) for e in emits_n]
            # the element during whose delivery the source was released (outer ended inside on_next(group)): either way is accepted
            ambiguous = None
            if routed and unsub_e is not None and not any(e[2] == "emit" and routed[-1][0] < e[0] < unsub_e[0] for e in ev) and routed[-1][1] == unsub_e[1]:
                ambiguous = routed[-1]
            term_e = src_term if (src_term is not None and src_term[0] < open_until) else None
            for g in gsubs:
                if g.get("sub_seq") is None:
                    continue
                key = g["key"]
                a = g["sub_seq"]
                sp = dispose_span(g["obs"].name)
                b = sp[0] if sp is not None else BIG
                alts = []
                for drop in ([None, ambiguous] if ambiguous is not None and keyf(ambiguous[2]) == key else [None]):
                    mine = [(q, t, v) for (q, t, v) in routed if keyf(v) == key and (q, t, v) != drop]
                    exp: list = []
                    # (the element that created the group is written to it after on_next(group) returned: a subscriber that
                    #  subscribed inside that on_next is already there)
                    early = lambda x: x[0] < a and not (g["sync"] and x[0] == g["create_seq"])  # noqa: E731
                    before = [x for x in mine if early(x)]
                    if kind == "replay":
                        exp += [(g["t_sub"], "N", v) for (q, t, v) in before]
                    elif kind == "behavior" and not (term_e is not None and term_e[0] < a):
                        exp.append((g["t_sub"], "N", before[-1][2] if before else "init"))
                    exp += [(t, "N", v) for (q, t, v) in mine if not early((q, t, v)) and q < b]
                    if term_e is not None and term_e[0] < b:
                        exp.append((max(term_e[1], g["t_sub"]), term_e[5], None if term_e[5] == "C" else term_e[6]))
                    alts.append(exp)
                got = g["obs"].timed()

                def same(exp: list) -> bool:
                    return len(exp) == len(got) and all(x[0] == y[0] and x[1] == y[1] and (x[1] != "N" or strict(x[2]) == strict(y[2])) and (x[1] != "E" or x[2] is y[2])
                                                         for x, y in zip(exp, got))
                res.count("lifecycle_deliveries_checked", len(alts[0]))
                if not any(same(x) for x in alts):
                    lost = len(got) < len(alts[0])
                    problem = ("group-subscriber-%s" % ("lost-notifications" if lost else "got-unexpected-notifications"),
                               {"group_key": key, "subscribed_at": g["t_sub"], "unsubscribed_at": g["t_unsub"], "expected": show([list(x) for x in alts[0]]), "got": show([list(x) for x in got])})
                    break
    res.case(key=desc, nontrivial=len(gsubs) >= 1, sample={"case": desc, "groups": [[g["key"], g["t_sub"], g["t_unsub"], show(g["obs"].timed())] for g in gsubs]} if idx % 40 == 0 else None)
    if problem is not None:
        problem[1]["case"] = desc
        problem[1]["trace"] = show([list(e[1:7]) for e in ev][:60])
        res.violation("C19:group_by:lifecycle:%s" % problem[0], problem[1], {"seed": seed, "idx": idx, "family": "lifecycle"})


def requeue_case(seed: int, idx: int, res: UnitResult) -> None:
    """group_by_until over a Subject source, groups expiring after their m-th element (duration derived from the group); a group
    subscriber reacts to the COMPLETION of its group by pushing further elements (same key / other key) into the source from
    inside that callback. Conservation per key: the elements pushed for a key are exactly the concatenation, in push order, of
    what the successive groups of that key received; a key seen again after its group expired starts a new group."""
    from reactivex.subject import Subject
    from ..vlab import SrcErr
    r = case_rng(seed, ID, "requeue", idx)
    m = r.randint(1, 3)
    nkeys = r.randint(1, 3)
    base = [r.randint(0, 11) for _ in range(r.randint(2, 8))]
    plan = [r.choice([None, "same", "same", "other"]) for _ in range(12)]
    budget = [r.randint(1, 4)]
    term = r.choice(["C", "C", "E", None])
    keyf = lambda v: v % nkeys  # noqa: E731
    source: Any = Subject()
    pushed: list = []
    groups: list = []
    top_events: list = []
    escaped: list = []
    state = {"terminating": False, "fresh": 0, "requeued": 0}

    def push(v: int) -> None:
        pushed.append(v)
        try:
            source.on_next(v)
        except Exception as e:  # noqa: BLE001
            escaped.append(repr(e))

    def on_group(g: Any) -> None:
        rec: list = [g.key, []]
        groups.append(rec)
        top_events.append("N")

        def done() -> None:
            rec[1].append(("C", None))
            if state["terminating"] or budget[0] <= 0 or not plan:
                return
            d = plan.pop(0)
            if d is None:
                return
            budget[0] -= 1
            state["fresh"] += 1
            state["requeued"] += 1
            key = g.key if d == "same" else (g.key + 1) % nkeys
            push(key + nkeys * (100 + state["fresh"]))
        g.subscribe(on_next=lambda v: rec[1].append(("N", v)), on_error=lambda e: rec[1].append(("E", e)), on_completed=done)

    o = source.pipe(ops.group_by_until(keyf, None, lambda g: g.pipe(ops.skip(m - 1))))
    sub = o.subscribe(on_next=on_group, on_error=lambda e: top_events.append("E"), on_completed=lambda: top_events.append("C"))
    for v in base:
        push(v)
    state["terminating"] = True
    if term == "C":
        source.on_completed()
    elif term == "E":
        source.on_error(SrcErr("requeue"))
    sub.dispose()
    desc = {"family": "requeue-on-group-completion", "expire_after": m, "keys": nkeys, "base": base, "terminal": term}
    res.case(key=desc, nontrivial=state["requeued"] > 0,
             sample={"case": desc, "pushed": pushed, "groups": [[k, show(tr)] for k, tr in groups]} if idx % 60 == 2 else None)
    res.count("requeue_cases")
    res.count("requeued_elements", state["requeued"])
    problem = None
    per_key: dict = {}
    for v in pushed:
        per_key.setdefault(keyf(v), []).append(v)
    got: dict = {}
    for k, tr in groups:
        got.setdefault(k, []).extend(v for (kind, v) in tr if kind == "N")
    for key, exp in per_key.items():
        g_ = got.get(key, [])
        if g_ != exp:
            lost = [v for v in exp if v not in g_]
            what = "element-lost" if lost else ("element-duplicated" if len(g_) > len(exp) else "order")
            problem = ("C19:group_by_until:requeue:%s" % what, {"key": key, "pushed_for_key": exp, "delivered_to_groups_of_key": g_})
            break
    if problem is None:
        for k, tr in groups:
            n_el = sum(1 for (kind, v) in tr if kind == "N")
            if any(keyf(v) != k for (kind, v) in tr if kind == "N"):
                problem = ("C19:group_by_until:requeue:element-on-group-of-other-key", {"group": k})
            elif n_el > m:
                problem = ("C19:group_by_until:requeue:group-outlived-its-duration", {"group": k, "elements": n_el})
            elif n_el == m and (len(tr) != m + 1 or tr[-1][0] != "C"):
                problem = ("C19:group_by_until:requeue:expired-group-not-completed", {"group": k, "trace": show(tr)})
            elif term is not None and (not tr or tr[-1][0] not in "EC"):
                problem = ("C19:group_by_until:requeue:group-left-open-after-source-terminal", {"group": k})
            elif term is not None and n_el < m and tr[-1][0] != term:
                problem = ("C19:group_by_until:requeue:open-group-ended-with-other-kind", {"group": k, "trace": show(tr)})
            if problem:
                break
    if problem is None and escaped:
        problem = ("C19:group_by_until:requeue:exception-escaped-into-the-source", {"escaped": escaped[:3]})
    if problem is None and term is not None and (not top_events or top_events[-1] != term or top_events.count("C") + top_events.count("E") != 1):
        problem = ("C19:group_by_until:requeue:subscriber-not-terminated-with-the-source", {"top": "".join(top_events), "terminal": term})
    if problem is None and len(groups) != top_events.count("N"):
        problem = ("C19:group_by_until:requeue:groups", {"groups": len(groups)})
    rebirths = sum(max(0, sum(1 for k, _ in groups if k == key) - 1) for key in per_key)
    res.count("requeue_groups_reborn", rebirths)
    if problem:
        problem[1]["case"] = desc
        problem[1]["pushed"] = pushed
        problem[1]["groups"] = [[k, show(tr)] for k, tr in groups]
        res.violation(problem[0], problem[1], {"seed": seed, "idx": idx, "family": "requeue"})


def run_unit(unit: dict, res: UnitResult) -> None:
    for idx in range(unit["lo"], unit["hi"]):
        run_case(unit["seed"], idx, res)
        if idx % 5 == 0:
            derived_duration_case(unit["seed"], idx, res)
        if idx % 4 == 1:
            lifecycle_case(unit["seed"], idx, res)
        if idx % 3 == 2:
            requeue_case(unit["seed"], idx, res)


def replay(rep: dict, res: UnitResult) -> None:
    if rep.get("family") == "derived":
        derived_duration_case(rep["seed"], rep["idx"], res)
        return
    if rep.get("family") == "lifecycle":
        lifecycle_case(rep["seed"], rep["idx"], res)
        return
    if rep.get("family") == "requeue":
        requeue_case(rep["seed"], rep["idx"], res)
        return
    run_case(rep["seed"], rep["idx"], res)
