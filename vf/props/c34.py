"""C34 Real-time schedulers never run an action early or after cancellation (dsched + virtual clock)."""
from __future__ import annotations

from typing import Any

from ..common import UnitResult, case_rng

ID = "C34"
LEVEL = "exploration"
KINDS = ("timeout", "newthread", "threadpool", "eventloop")
RULE = ("for TimeoutScheduler (threading.Timer), NewThreadScheduler, ThreadPoolScheduler (executor) and EventLoopScheduler: generated sets of 1-4 "
        "schedule / schedule_relative / schedule_absolute calls (delays 0, 0.1, 0.2, 0.5 as float, timedelta or absolute datetime, also negative "
        "and past) with cancellations issued by a second thread after a virtual sleep that is shorter than, equal to or longer than the delay "
        "(equal = the cancel races the timer thread), under the deterministic thread scheduler with a virtual clock (bounded-preemption "
        "enumeration of hand-written programs, random/PCT schedules of generated ones); oracle: action start clock >= due, an action whose "
        "dispose() returned at a logical time < due never starts, every non-cancelled action starts by quiescence; ImmediateScheduler: generated "
        "calls, action runs synchronously inside schedule*, positive delay raises WouldBlockException and does not run the action; distinct = "
        "(program, decision list); non-trivial = program has a timed item")
ASSUMPTIONS = ["trusted substitutions: threading.Timer/Thread/Event/Lock/Condition are instrumented equivalents on a virtual clock; "
               "ThreadPoolExecutor is replaced by a thread-per-task executor",
               "cancellation is asserted only when dispose() returned strictly before the due time on the logical clock (DESIGN §4 rule 4); a "
               "cancel at or after the due instant only has to keep 'no early start'",
               "line-granular serialisation"]
REQUIRED = {"decided_runs": {"quick": 500, "thorough": 5000}, "actions_started": {"quick": 800, "thorough": 8000},
            "cancelled_before_due": {"quick": 200, "thorough": 2000}, "cancel_races_at_due": {"quick": 60, "thorough": 600},
            "immediate_calls": {"quick": 300, "thorough": 5000}, "set:kinds": 4, "clock_advances": {"quick": 300, "thorough": 3000}}
UNIT_TIMEOUT = {"quick": 240, "thorough": 3000}
FILES = ("scheduler/timeoutscheduler.py", "scheduler/newthreadscheduler.py", "scheduler/threadpoolscheduler.py",
         "scheduler/eventloopscheduler.py", "scheduler/scheduleditem.py")


def gen_program(r: Any, kind: str) -> dict:
    items = []
    for _ in range(r.randint(1, 4)):
        mode = r.choice(["imm", "rel", "rel", "rel_td", "abs"])
        # (delays that are not whole milliseconds: a scheduler that rounds a delay down starts its action early)
        # ... or not whole MICROseconds (1/3 s, 0.4 us): a float delay must not take a detour through timedelta
        delay = 0.0 if mode == "imm" else r.choice([-0.1, 0.0, 0.1, 0.2, 0.2, 0.5, 0.0004, 0.0105, 0.2345, 1.0 / 3.0, 4e-7])
        eff = max(0.0, delay)
        cancel = r.choice([None, None, 0.0, eff / 2, eff, eff, eff + 0.1]) if eff > 0 else r.choice([None, None, 0.0])
        items.append({"mode": mode, "delay": delay, "cancel_after": cancel})
    if not any(it["delay"] > 0 and (it["cancel_after"] is None or it["cancel_after"] >= it["delay"]) for it in items):
        # every program has at least one timed item that is allowed to run (the 'no early start' half needs one)
        items.append({"mode": r.choice(["rel", "rel_td", "abs"]), "delay": r.choice([0.1, 0.2, 0.5, 0.0105, 0.2345]), "cancel_after": None})
    r.shuffle(items)
    return {"kind": kind, "items": items}


HAND = [
    {"kind": "timeout", "items": [{"mode": "rel", "delay": 0.2, "cancel_after": 0.2}]},
    {"kind": "timeout", "items": [{"mode": "rel", "delay": 0.2, "cancel_after": 0.1}, {"mode": "imm", "delay": 0.0, "cancel_after": None}]},
    {"kind": "newthread", "items": [{"mode": "rel", "delay": 0.1, "cancel_after": 0.1}]},
    {"kind": "threadpool", "items": [{"mode": "abs", "delay": 0.1, "cancel_after": 0.05}, {"mode": "rel", "delay": 0.1, "cancel_after": None}]},
    {"kind": "eventloop", "items": [{"mode": "rel", "delay": 0.1, "cancel_after": 0.1}, {"mode": "rel", "delay": 0.2, "cancel_after": None}]},
    {"kind": "eventloop", "items": [{"mode": "rel", "delay": 0.2, "cancel_after": None}, {"mode": "imm", "delay": 0.0, "cancel_after": None}]},
    {"kind": "newthread", "items": [{"mode": "abs", "delay": 0.2, "cancel_after": None}, {"mode": "imm", "delay": 0.0, "cancel_after": None}]},
]


def scenario(c: Any, P: dict) -> dict:
    import datetime
    from reactivex.scheduler import EventLoopScheduler, NewThreadScheduler, ThreadPoolScheduler, TimeoutScheduler
    from .. import dsched as D
    kind = P["kind"]
    s: Any = {"timeout": TimeoutScheduler, "newthread": NewThreadScheduler, "threadpool": lambda: ThreadPoolScheduler(2),
              "eventloop": EventLoopScheduler}[kind]()
    info: dict = {}
    viol: list = []
    t0 = c.clock

    def make(i: int) -> Any:
        def act(sch: Any, st: Any) -> None:
            c.log("start", i)
            info[i]["starts"].append((len(c.events), c.clock, c.me().name))
            c.yp("in-action")
        return act

    for i, it in enumerate(P["items"]):
        # what the CALLER asked for: a float delay exactly; a timedelta / datetime argument only has microsecond resolution, so the
        # request itself is the rounded value (and an absolute time is compared with a microsecond-rounded `now`)
        # (the event-loop based schedulers keep due times as datetimes: up to a microsecond of rounding is their resolution, not
        #  an early start; TimeoutScheduler hands float seconds straight to its timer and has no such excuse)
        coarse = kind != "timeout"
        if it["mode"] == "rel_td":
            eff = max(0.0, datetime.timedelta(seconds=it["delay"]).total_seconds())
            tol = 1.5e-6 if coarse else 5e-9
        elif it["mode"] == "abs":
            eff, tol = max(0.0, it["delay"]), 1.5e-6
        else:
            eff, tol = max(0.0, it["delay"]), (1.5e-6 if coarse else 5e-9)
        due = c.clock + eff
        info[i] = {"due": due, "starts": [], "tol": tol}
        c.log("sched", i, it["mode"], due)
        if it["mode"] == "imm":
            d = s.schedule(make(i))
        elif it["mode"] == "rel":
            d = s.schedule_relative(it["delay"], make(i))
        elif it["mode"] == "rel_td":
            d = s.schedule_relative(datetime.timedelta(seconds=it["delay"]), make(i))
        else:
            # the same instant, written in another time zone for two items out of three
            when = datetime.datetime.fromtimestamp(c.clock + it["delay"], tz=D.UTC)
            hours = (None, -3, 5.5)[i % 3]
            if hours is not None:
                when = when.astimezone(datetime.timezone(datetime.timedelta(hours=hours)))
            d = s.schedule_absolute(when, make(i))
        info[i]["disp"] = d

    def canceller() -> None:
        order = sorted((it["cancel_after"], i) for i, it in enumerate(P["items"]) if it["cancel_after"] is not None)
        for after, i in order:
            wait = t0 + after - c.clock
            if wait > 0:
                c.sleep(wait)
            c.log("cancel_call", i)
            info[i]["disp"].dispose()
            c.log("cancel_ret", i)
            info[i]["cancel_ret"] = (len(c.events), c.clock)

    t = D.VThread(target=canceller, name="K")
    t.start()
    t.join()
    c.sleep(1.0)
    c.wait_quiescent()
    started = before = races = 0
    for i, it in info.items():
        if len(it["starts"]) > 1:
            viol.append(("C34:%s:action-ran-twice" % kind, {"item": i}))
        st = it["starts"][0] if it["starts"] else None
        cr = it.get("cancel_ret")
        if st is not None:
            started += 1
            if st[1] < it["due"] - it["tol"]:
                viol.append(("C34:%s:%s:started-before-due" % (kind, P["items"][i]["mode"]), {"item": i, "due": it["due"] - t0, "clock": st[1] - t0}))
        if cr is not None and cr[1] < it["due"] - 1e-6:
            before += 1
            if st is not None:
                viol.append(("C34:%s:%s:started-although-cancelled-before-due" % (kind, P["items"][i]["mode"]),
                             {"item": i, "due": it["due"] - t0, "cancel_ret_clock": cr[1] - t0, "start_clock": st[1] - t0}))
        elif cr is not None and abs(cr[1] - it["due"]) <= 1e-6:
            races += 1
        if cr is None and st is None:
            viol.append(("C34:%s:%s:never-started" % (kind, P["items"][i]["mode"]), {"item": i}))
    if hasattr(s, "dispose"):
        s.dispose()
    return {"viol": viol, "obs": {"actions_started": started, "cancelled_before_due": before, "cancel_races_at_due": races},
            "sig": {"started": sorted(i for i in info if info[i]["starts"])}, "decided": True}


def immediate_cases(seed: int, lo: int, hi: int, res: UnitResult) -> None:
    import datetime
    from reactivex.internal.exceptions import WouldBlockException
    from reactivex.scheduler import ImmediateScheduler
    for idx in range(lo, hi):
        r = case_rng(seed, ID, "imm", idx)
        s = ImmediateScheduler()
        mode = r.choice(["schedule", "rel", "rel_td", "abs"])
        d = r.choice([-1.0, -0.001, 0.0, 0.0, 0.001, 0.5, 3.0])
        ran: list = []
        done = [False]

        def act(sch: Any, st: Any) -> None:
            ran.append((st, done[0]))
        state = r.choice([None, 0, "x"])
        raised = None
        try:
            if mode == "schedule":
                s.schedule(act, state)
                d = 0.0
            elif mode == "rel":
                s.schedule_relative(d, act, state)
            elif mode == "rel_td":
                s.schedule_relative(datetime.timedelta(seconds=d), act, state)
            else:
                # positive offsets are generous so that the elapsed real time cannot turn them non-positive
                s.schedule_absolute(s.now + datetime.timedelta(seconds=d if d <= 0 else d + 5), act, state)
        except Exception as e:  # noqa: BLE001
            raised = e
        done[0] = True
        res.count("immediate_calls")
        case = {"mode": mode, "delay": d, "state": state}
        res.case(key=["imm", mode, d, state], nontrivial=True, sample={"immediate": case, "ran": len(ran), "raised": repr(raised)})
        problem = None
        if d > 0:
            if not isinstance(raised, WouldBlockException):
                problem = ("C34:immediate:positive-delay-accepted", {"raised": repr(raised)})
            elif ran:
                problem = ("C34:immediate:action-ran-despite-WouldBlock", {})
        else:
            if raised is not None:
                problem = ("C34:immediate:raised-for-nonpositive-delay", {"raised": repr(raised)})
            elif len(ran) != 1 or ran[0][1]:
                problem = ("C34:immediate:action-not-run-synchronously", {"ran": len(ran)})
            elif ran[0][0] != state:
                problem = ("C34:immediate:state-not-passed", {"got": ran[0][0]})
        if problem:
            problem[1]["case"] = case
            res.violation(problem[0], problem[1], {"scenario": "imm", "params": {"seed": seed, "idx": idx}, "decisions": []})


def units(tier: str, seed: int) -> list[dict]:
    q = tier == "quick"
    us: list[dict] = []
    for hi, _ in enumerate(HAND):
        us.append({"mode": "dfs", "hand": hi, "bound": 1 if q else 2, "seed": seed, "max_runs": 1200 if q else 60000, "hot_runs": 60 if q else 1000})
    nprog = 4 if q else 40
    for kind in KINDS:
        for lo in range(0, nprog, 2 if q else 5):
            us.append({"mode": "random", "kind": kind, "progs": [lo, lo + (2 if q else 5)], "runs": 40 if q else 300, "seed": seed})
    us.append({"mode": "imm", "lo": 0, "hi": 400 if q else 8000, "seed": seed})
    return us


def run_unit(unit: dict, res: UnitResult) -> None:
    if unit["mode"] == "imm":
        immediate_cases(unit["seed"], unit["lo"], unit["hi"], res)
        return
    from .. import dcheck, dsched as D
    D.install(D.repo_file(*FILES))
    D.DEFAULT_MAX_STEPS = 50000      # runs of this check take < 1000 steps (evidence: steps_per_run_below); no progress within 50000 is reported
    if not dcheck.check_install(res):
        return
    if unit["mode"] == "dfs":
        P = HAND[unit["hand"]]
        res.note("kinds", P["kind"])
        name = "hand%d-%s" % (unit["hand"], P["kind"])
        dcheck.explore(res, ID, name, scenario, P, "dfs", bound=unit["bound"], max_runs=unit["max_runs"], on_failed="violation")
        dcheck.explore(res, ID, name, scenario, P, "hot", seed=unit["seed"], runs=unit["hot_runs"], hot=("in-action",), on_failed="violation")
        return
    for pi in range(*unit["progs"]):
        P = gen_program(case_rng(unit["seed"], ID, unit["kind"], pi), unit["kind"])
        res.note("kinds", P["kind"])
        name = "gen%d-%s" % (pi, P["kind"])
        dcheck.explore(res, ID, name, scenario, P, "random", seed=unit["seed"], runs=unit["runs"], on_failed="violation")
        dcheck.explore(res, ID, name, scenario, P, "pct", seed=unit["seed"], runs=unit["runs"] // 2, on_failed="violation")


def replay(rep: dict, res: UnitResult) -> None:
    if rep["scenario"] == "imm":
        immediate_cases(rep["params"]["seed"], rep["params"]["idx"], rep["params"]["idx"] + 1, res)
        return
    from .. import dcheck, dsched as D
    D.install(D.repo_file(*FILES))
    D.DEFAULT_MAX_STEPS = 50000      # runs of this check take < 1000 steps (evidence: steps_per_run_below); no progress within 50000 is reported
    dcheck.replay(res, ID, scenario, rep)
