"""Shared catalog for C04 / C44: operator factories and cold-observable factories with generated arguments.

An entry describes ONE way of calling ONE library function:

    Entry(name, group, kind, srcs, gen, make, ...)

* name   unique id of the call shape ("catch_list", "window_with_time_shift" ...)
* group  the library function it exercises (used in the mechanism key of a violation)
* kind   "op":     make(env, P) returns an operator function  (source -> observable); C04 applies it to env.src(0),
                   C44 applies it to each of its independent upstream sources
         "create": make(env, P) returns an observable built from env.src(0..n-1) (C04 only)
* srcs   one spec per cold probe source the entry uses (index 0 = upstream of an "op" entry)
* gen    gen(r) -> JSON-able parameter dict P (callbacks are referred to by registry name)
* since  the callbacks read env.since() = virtual time since THIS subscription began (C04 sequential mode only)
* stage  usable as an additional downstream stage of a C04 pipeline (single-source, no extra sources)
* prep   C44 only: per-source preparation applied FRESH to every source before the operator under test
         (ref_count needs a connectable upstream)

All callbacks are pure functions of their arguments (plus env.since() where `since` is set, plus state that is
created per subscription inside defer/using factories).
"""
from __future__ import annotations

import datetime as _dt
from typing import Any, Callable

import reactivex as rx
import reactivex.operators as ops
from reactivex import abc
from reactivex.disposable import Disposable
from reactivex.scheduler import VirtualTimeScheduler
from reactivex.subject import AsyncSubject, BehaviorSubject, ReplaySubject, Subject

from .. import registry as R
from ..common import show, strict
from ..vlab import Lab, ProbeObserver, SrcErr, gen_timeline

ACTION_BUDGET = 2500


# ------------------------------------------------------------------------------------------ environment

class Env:
    """What an entry may use while building: cold probe sources (one object per index), the virtual-time
    scheduler, and the per-subscription clock offset."""

    def __init__(self, lab: Lab, tls: list, prefix: str = "s", kinds: list | None = None) -> None:
        self.lab, self.ts, self.tls, self.prefix = lab, lab.ts, tls, prefix
        self.kinds = kinds or ["cold"] * len(tls)
        self._src: dict[int, Any] = {}
        self.cur_start: float | None = None   # set by C04 in sequential mode at every subscription
        self.since_calls = 0
        self.since_misuse = 0
        self.resources: list = []

    def src(self, i: int) -> Any:
        if i not in self._src:
            self._src[i] = getattr(self.lab, self.kinds[i])("%s%d" % (self.prefix, i), self.tls[i])
        return self._src[i]

    def since(self) -> float:
        if self.cur_start is None:
            self.since_misuse += 1
            raise AssertionError("harness: since() used outside sequential mode")
        self.since_calls += 1
        return self.lab.now() - self.cur_start

    def pick(self, lo: int, n: int) -> Callable[[Any], Any]:
        """pure mapper value -> one of the cold sources lo..lo+n-1"""
        return lambda v, *_: self.src(lo + int(R.num(v)) % n)

    def pick_ix(self, lo: int, n: int) -> Callable[[Any, int], Any]:
        """pure indexed mapper: the chosen inner depends on the INDEX, its values are tagged with the index"""
        return lambda v, i: self.src(lo + i % n).pipe(ops.map(lambda x: (i, x)))


def new_lab() -> Lab:
    lab = Lab("num")
    lab.over_budget = False  # type: ignore[attr-defined]

    def hook(n: int) -> None:
        if n > lab.budget and not lab.over_budget:  # type: ignore[attr-defined]
            lab.over_budget = True  # type: ignore[attr-defined]
            lab.ts.stop()
    lab.budget = ACTION_BUDGET  # type: ignore[attr-defined]
    lab.action_hook = hook
    # plain virtual-time run: TestScheduler.start() would add its create/subscribe/dispose actions at 100/200/1000
    lab.ts.start = lambda: VirtualTimeScheduler.start(lab.ts)  # type: ignore[method-assign]
    return lab


# ------------------------------------------------------------------------------------------ traces

def canon(v: Any) -> Any:
    """Type-strict canonical form. Exceptions are compared by type and arguments (operators create a new exception
    object per subscription); observables that are not top-level elements are opaque."""
    if isinstance(v, BaseException):
        return ("exc", type(v).__qualname__, repr(v.args))
    if isinstance(v, tuple) and hasattr(v, "_fields"):
        return (type(v).__name__, tuple(canon(x) for x in v))
    if isinstance(v, (list, tuple)):
        return (type(v).__name__, tuple(canon(x) for x in v))
    if isinstance(v, dict):
        return ("dict", tuple((canon(k), canon(x)) for k, x in v.items()))
    if isinstance(v, abc.ObservableBase):
        return ("observable",)
    if type(v).__module__ == "reactivex.notification":
        kind = getattr(v, "kind", "?")
        if kind == "N":
            return ("notification", "N", canon(v.value))
        if kind == "E":
            return ("notification", "E", canon(v.exception))
        return ("notification", kind)
    if isinstance(v, _dt.timedelta):
        return ("timedelta", v.total_seconds())
    if isinstance(v, _dt.datetime):
        return ("datetime", v.isoformat())
    if isinstance(v, (set, frozenset)):
        return (type(v).__name__, tuple(sorted((canon(x) for x in v), key=repr)))
    fields = getattr(type(v), "__dataclass_fields__", None)
    if fields is not None:   # TimeInterval, Timestamp
        return (type(v).__name__, tuple((f, canon(getattr(v, f))) for f in fields))
    if v is None or isinstance(v, (bool, int, float, str, bytes)):
        return strict(v)
    return ("obj", type(v).__qualname__)   # per-subscription objects: identity is not comparable


def tree_trace(obs: ProbeObserver, t0: float, before: float | None = None) -> list:
    """[(t - t0, kind, value)] of a probe observer; an element that is an observable (window, group) is replaced by
    ('obs', key, <trace of the child probe that was subscribed to it on arrival>), times relative to t0 as well.
    before: keep only notifications whose relative time is < before."""
    out = []
    k = 0
    for (kind, value, t, _seq) in obs.recv:
        is_obs = kind == "N" and obs.inner and isinstance(value, abc.ObservableBase)
        child = None
        if is_obs:
            child = obs.children[k]
            k += 1
        if before is not None and not (t - t0 < before):
            continue
        if child is not None:
            out.append((t - t0, "N", ("obs", canon(getattr(value, "key", None)), tuple(tree_trace(child, t0, before)))))
        else:
            out.append((t - t0, kind, canon(value)))
    return out


def show_tree(obs: ProbeObserver, t0: float) -> list:
    out = []
    k = 0
    for (kind, value, t, _seq) in obs.recv:
        if kind == "N" and obs.inner and isinstance(value, abc.ObservableBase):
            child = obs.children[k]
            k += 1
            out.append([t - t0, "N", {"inner": show_tree(child, t0), "key": show(getattr(value, "key", None))}])
        else:
            out.append([t - t0, kind, show(value)])
    return out


def count_children(obs: ProbeObserver) -> int:
    return len(obs.tree()) - 1


# ------------------------------------------------------------------------------------------ sources

def S(term: Any = "auto", lo: int = 0, hi: int = 5, mindur: int = 0, domain: str | None = None, minstart: int = 0) -> dict:
    """term: 'C' | 'E' | 'CE' (either) | None (never ends) | 'auto'; lo/hi: number of elements; mindur: the terminal
    notification is at offset >= mindur; minstart: the first notification is at offset >= minstart (loops that
    re-subscribe such a source always advance virtual time)"""
    return {"term": term, "lo": lo, "hi": hi, "mindur": mindur, "domain": domain, "minstart": minstart}


ANY = S()
COMP = S("C")
COMP1 = S("C", lo=1)
ERR = S("E")
ERR1 = S("E", lo=1)
TERM = S("CE")


def gen_source(r: Any, spec: dict, domain: str) -> list:
    term = spec["term"]
    if term == "CE":
        term = r.choice(["C", "C", "E"])
    dom = spec["domain"] or domain
    tl: list = []
    for _ in range(60):
        tl = gen_timeline(r, dom, maxlen=spec["hi"], term=term)
        if sum(1 for m in tl if m[1] == "N") >= spec["lo"]:
            break
    else:
        tl = [(5 * (i + 1), "N", i) for i in range(spec["lo"])] + [(m[0] + 5 * spec["lo"], m[1], m[2]) for m in tl if m[1] != "N"]
    if spec["mindur"] and tl and tl[-1][0] < spec["mindur"]:
        shift = spec["mindur"] - tl[-1][0]
        tl = [(t + shift, k, v) for (t, k, v) in tl]
    if spec["minstart"] and tl and tl[0][0] < spec["minstart"]:
        shift = spec["minstart"] - tl[0][0]
        tl = [(t + shift, k, v) for (t, k, v) in tl]
    return tl


# ------------------------------------------------------------------------------------------ entries

class Entry:
    def __init__(self, name: str, group: str, kind: str, srcs: list, gen: Callable, make: Callable, since: bool = False,
                 stage: bool = False, c04: bool = True, c44: bool | None = None, prep: Callable | None = None,
                 domain: str | None = None) -> None:
        self.name, self.group, self.kind, self.srcs, self.gen, self.make = name, group, kind, srcs, gen, make
        self.since, self.stage, self.c04, self.prep, self.domain = since, stage, c04, prep, domain
        self.c44 = (kind == "op" and not since) if c44 is None else c44


ENTRIES: dict[str, Entry] = {}


def E(name: str, group: str, kind: str, srcs: list, gen: Callable, make: Callable, **kw: Any) -> None:
    assert name not in ENTRIES, name
    ENTRIES[name] = Entry(name, group, kind, srcs, gen, make, **kw)


# key_repr of the registry uses repr(), which shows the address of objects created per subscription (notifications,
# windows): not a pure function of the value. The catalog uses the canonical form instead.
KEYS = dict(R.KEYS)
KEYS["key_repr"] = lambda v: repr(canon(v))


def ch(r: Any, d: dict) -> str:
    return r.choice(sorted(d))


def none(r: Any) -> dict:
    return {}


def shaped(shape: str, items: list) -> Any:
    """the same items as a list or a tuple (both are accepted wherever an Iterable is)"""
    return list(items) if shape == "list" else tuple(items)


SEEDS = {"absent": None, "zero": 0, "none": None, "tuple": (), "five": 5}


def seed_kw(P: dict) -> tuple:
    return () if P["seed"] == "absent" else (SEEDS[P["seed"]],)


def small(r: Any) -> int:
    return r.choice([0, 1, 1, 2, 2, 3, 4])


# ---- element-wise, single source (usable as downstream stages)
E("map", "map", "op", [ANY], lambda r: {"f": ch(r, R.MAPPERS)}, lambda env, P: ops.map(R.MAPPERS[P["f"]]), stage=True)
E("map_indexed", "map_indexed", "op", [S(lo=1)], lambda r: {"f": ch(r, R.MAPPERS_IX)},
  lambda env, P: ops.map_indexed(R.MAPPERS_IX[P["f"]]), stage=True)
E("filter", "filter", "op", [ANY], lambda r: {"p": ch(r, R.PREDICATES)}, lambda env, P: ops.filter(R.PREDICATES[P["p"]]), stage=True)
E("filter_indexed", "filter_indexed", "op", [S(lo=1)], lambda r: {"p": ch(r, R.PREDICATES_IX)},
  lambda env, P: ops.filter_indexed(R.PREDICATES_IX[P["p"]]), stage=True)
E("take_while", "take_while", "op", [ANY], lambda r: {"p": ch(r, R.PREDICATES), "incl": r.random() < 0.5},
  lambda env, P: ops.take_while(R.PREDICATES[P["p"]], P["incl"]), stage=True)
E("take_while_indexed", "take_while_indexed", "op", [S(lo=1)], lambda r: {"p": ch(r, R.PREDICATES_IX), "incl": r.random() < 0.5},
  lambda env, P: ops.take_while_indexed(R.PREDICATES_IX[P["p"]], P["incl"]), stage=True)
E("skip_while", "skip_while", "op", [ANY], lambda r: {"p": ch(r, R.PREDICATES)},
  lambda env, P: ops.skip_while(R.PREDICATES[P["p"]]), stage=True)
E("skip_while_indexed", "skip_while_indexed", "op", [S(lo=2)], lambda r: {"p": ch(r, R.PREDICATES_IX)},
  lambda env, P: ops.skip_while_indexed(R.PREDICATES_IX[P["p"]]), stage=True)
E("starmap", "starmap", "op", [ANY], none,
  lambda env, P: rx.compose(ops.map(lambda v: (v, 1)), ops.starmap(lambda a, b: (b, a))), stage=True)
E("starmap_indexed", "starmap_indexed", "op", [ANY], none,
  lambda env, P: rx.compose(ops.map(lambda v: (v, "x", 3)), ops.starmap_indexed(lambda a, b, i: (i, a))), stage=True)
E("scan", "scan", "op", [S(lo=1)], lambda r: {"acc": ch(r, R.ACCUMULATORS), "seed": ch(r, SEEDS)},
  lambda env, P: ops.scan(R.ACCUMULATORS[P["acc"]], *seed_kw(P)), stage=True)
E("reduce", "reduce", "op", [S("C", lo=1)], lambda r: {"acc": ch(r, R.ACCUMULATORS), "seed": ch(r, SEEDS)},
  lambda env, P: ops.reduce(R.ACCUMULATORS[P["acc"]], *seed_kw(P)), stage=True)
E("distinct", "distinct", "op", [S(lo=2, domain="dups")],
  lambda r: {"key": r.choice([None, None] + sorted(KEYS)), "cmp": r.choice([None, None] + sorted(R.COMPARERS))},
  lambda env, P: ops.distinct(KEYS[P["key"]] if P["key"] else None, R.COMPARERS[P["cmp"]] if P["cmp"] else None), stage=True)
E("distinct_until_changed", "distinct_until_changed", "op", [S(lo=2, domain="dups")],
  lambda r: {"key": r.choice([None, None] + sorted(KEYS)), "cmp": r.choice([None, None] + sorted(R.COMPARERS))},
  lambda env, P: ops.distinct_until_changed(KEYS[P["key"]] if P["key"] else None, R.COMPARERS[P["cmp"]] if P["cmp"] else None),
  stage=True)
E("buffer_with_count", "buffer_with_count", "op", [S(lo=2)], lambda r: {"count": r.randint(1, 3), "skip": r.choice([None, 1, 2, 4])},
  lambda env, P: ops.buffer_with_count(P["count"], P["skip"]), stage=True)
E("window_with_count", "window_with_count", "op", [S(lo=2)], lambda r: {"count": r.randint(1, 3), "skip": r.choice([None, 1, 2, 4])},
  lambda env, P: ops.window_with_count(P["count"], P["skip"]))
E("take", "take", "op", [S(lo=1)], lambda r: {"n": small(r)}, lambda env, P: ops.take(P["n"]), stage=True)
E("skip", "skip", "op", [S(lo=1)], lambda r: {"n": small(r)}, lambda env, P: ops.skip(P["n"]), stage=True)
E("take_last", "take_last", "op", [S("C", lo=1)], lambda r: {"n": small(r)}, lambda env, P: ops.take_last(P["n"]), stage=True)
E("skip_last", "skip_last", "op", [S(lo=1)], lambda r: {"n": small(r)}, lambda env, P: ops.skip_last(P["n"]), stage=True)
E("take_last_buffer", "take_last_buffer", "op", [S("C", lo=1)], lambda r: {"n": small(r)},
  lambda env, P: ops.take_last_buffer(P["n"]), stage=True)
E("pairwise", "pairwise", "op", [S(lo=2)], none, lambda env, P: ops.pairwise(), stage=True)
E("start_with", "start_with", "op", [ANY], lambda r: {"args": [r.choice([None, 0, "", 5, 7]) for _ in range(r.randint(0, 3))]},
  lambda env, P: ops.start_with(*P["args"]), stage=True)
E("default_if_empty", "default_if_empty", "op", [S("C", hi=1)], lambda r: {"d": r.choice([None, 0, "d", False])},
  lambda env, P: ops.default_if_empty(P["d"]), stage=True)
E("ignore_elements", "ignore_elements", "op", [TERM], none, lambda env, P: ops.ignore_elements(), stage=True)
E("element_at_or_default", "element_at_or_default", "op", [ANY], lambda r: {"n": small(r), "d": r.choice([None, 0, "d"])},
  lambda env, P: ops.element_at_or_default(P["n"], P["d"]), stage=True)
E("element_at", "element_at", "op", [ANY], lambda r: {"n": small(r)}, lambda env, P: ops.element_at(P["n"]), stage=True)
E("first", "first", "op", [ANY], lambda r: {"p": r.choice([None] + sorted(R.PREDICATES))},
  lambda env, P: ops.first(R.PREDICATES[P["p"]] if P["p"] else None), stage=True)
E("first_or_default", "first_or_default", "op", [ANY], lambda r: {"p": r.choice([None] + sorted(R.PREDICATES)), "d": r.choice([None, 0])},
  lambda env, P: ops.first_or_default(R.PREDICATES[P["p"]] if P["p"] else None, P["d"]), stage=True)
E("last", "last", "op", [TERM], lambda r: {"p": r.choice([None] + sorted(R.PREDICATES))},
  lambda env, P: ops.last(R.PREDICATES[P["p"]] if P["p"] else None), stage=True)
E("last_or_default", "last_or_default", "op", [TERM], lambda r: {"p": r.choice([None] + sorted(R.PREDICATES)), "d": r.choice([None, 0])},
  lambda env, P: ops.last_or_default(P["d"], R.PREDICATES[P["p"]] if P["p"] else None), stage=True)
E("single", "single", "op", [S("CE", hi=2)], lambda r: {"p": r.choice([None] + sorted(R.PREDICATES))},
  lambda env, P: ops.single(R.PREDICATES[P["p"]] if P["p"] else None), stage=True)
E("single_or_default", "single_or_default", "op", [S("CE", hi=2)], lambda r: {"p": r.choice([None] + sorted(R.PREDICATES)), "d": r.choice([None, 0])},
  lambda env, P: ops.single_or_default(R.PREDICATES[P["p"]] if P["p"] else None, P["d"]), stage=True)
E("find", "find", "op", [ANY], lambda r: {"p": ch(r, R.PREDICATES)},
  lambda env, P: ops.find(lambda x, i, s: R.PREDICATES[P["p"]](x)), stage=True)
E("find_index", "find_index", "op", [ANY], lambda r: {"p": ch(r, R.PREDICATES)},
  lambda env, P: ops.find_index(lambda x, i, s: R.PREDICATES[P["p"]](x)), stage=True)
E("count", "count", "op", [TERM], lambda r: {"p": r.choice([None] + sorted(R.PREDICATES))},
  lambda env, P: ops.count(R.PREDICATES[P["p"]] if P["p"] else None), stage=True)
E("sum", "sum", "op", [TERM], none, lambda env, P: ops.sum(R.num), stage=True)
E("average", "average", "op", [TERM], none, lambda env, P: ops.average(R.num), stage=True)
E("min", "min", "op", [TERM], lambda r: {"c": ch(r, R.SUBCOMPARERS)}, lambda env, P: ops.min(R.SUBCOMPARERS[P["c"]]), stage=True)
E("max", "max", "op", [TERM], lambda r: {"c": ch(r, R.SUBCOMPARERS)}, lambda env, P: ops.max(R.SUBCOMPARERS[P["c"]]), stage=True)
E("min_by", "min_by", "op", [TERM], lambda r: {"k": ch(r, KEYS)}, lambda env, P: ops.min_by(lambda v: R.num(KEYS[P["k"]](v))), stage=True)
E("max_by", "max_by", "op", [TERM], lambda r: {"k": ch(r, KEYS)}, lambda env, P: ops.max_by(lambda v: R.num(KEYS[P["k"]](v))), stage=True)
E("all", "all", "op", [TERM], lambda r: {"p": ch(r, R.PREDICATES)}, lambda env, P: ops.all(R.PREDICATES[P["p"]]), stage=True)
E("some", "some", "op", [TERM], lambda r: {"p": r.choice([None] + sorted(R.PREDICATES))},
  lambda env, P: ops.some(R.PREDICATES[P["p"]] if P["p"] else None), stage=True)
E("contains", "contains", "op", [TERM], lambda r: {"v": r.choice([0, 1, 2, None]), "cmp": r.choice([None] + sorted(R.COMPARERS))},
  lambda env, P: ops.contains(P["v"], R.COMPARERS[P["cmp"]] if P["cmp"] else None), stage=True)
E("is_empty", "is_empty", "op", [S("CE", hi=1)], none, lambda env, P: ops.is_empty(), stage=True)
E("to_list", "to_list", "op", [TERM], none, lambda env, P: ops.to_list(), stage=True)
E("to_set", "to_set", "op", [S("CE", domain="hfalsy")], none, lambda env, P: ops.to_set(), stage=True)
E("to_dict", "to_dict", "op", [TERM], lambda r: {"k": ch(r, KEYS), "m": r.choice([None] + sorted(R.MAPPERS))},
  lambda env, P: ops.to_dict(KEYS[P["k"]], R.MAPPERS[P["m"]] if P["m"] else None), stage=True)
E("materialize", "materialize", "op", [ANY], none, lambda env, P: ops.materialize(), stage=True)
E("dematerialize", "dematerialize", "op", [ANY], none, lambda env, P: rx.compose(ops.materialize(), ops.dematerialize()), stage=True)
E("do_action", "do_action", "op", [ANY], none,
  lambda env, P: ops.do_action(lambda v: None, lambda e: None, lambda: None), stage=True)
E("finally_action", "finally_action", "op", [ANY], none, lambda env, P: ops.finally_action(lambda: None), stage=True)
E("as_observable", "as_observable", "op", [ANY], none, lambda env, P: ops.as_observable(), stage=True)
E("slice", "slice", "op", [S(lo=2)],
  lambda r: {"a": r.choice([None, 0, 1, 2, -1, -2, -2, -3]), "b": r.choice([None, 1, 2, 3, 3, -1]), "c": r.choice([None, 1, 2])},
  lambda env, P: ops.slice(P["a"], P["b"], P["c"]), stage=True)
E("sequence_equal_iterable", "sequence_equal", "op", [S("CE", hi=3, domain="dups")],
  lambda r: {"shape": r.choice(["list", "tuple"]), "xs": [r.choice([0, 1, 2, 3]) for _ in range(r.randint(0, 3))]},
  lambda env, P: ops.sequence_equal(shaped(P["shape"], P["xs"])), stage=True)
E("zip_with_iterable", "zip_with_iterable", "op", [S(lo=1)],
  lambda r: {"shape": r.choice(["list", "tuple", "range", "str"]), "n": r.randint(0, 6)},
  lambda env, P: ops.zip_with_iterable({"list": list, "tuple": tuple, "range": lambda x: x, "str": lambda x: "abcdefgh"[:len(x)]}[P["shape"]](range(P["n"]))),
  stage=True)
E("expand", "expand", "op", [S(hi=2, domain="ints")], lambda r: {"lim": r.randint(1, 6)},
  lambda env, P: rx.compose(ops.expand(lambda v: rx.of(R.num(v) + 1) if R.num(v) < P["lim"] else rx.empty()), ops.take(12)))

# ---- retry / repeat with counts (believed correct; the mutation targets)
E("retry_count", "retry", "op", [S("E", mindur=1)], lambda r: {"n": r.randint(0, 3)}, lambda env, P: ops.retry(P["n"]))
E("retry_forever_take", "retry", "op", [S("E", lo=1, mindur=1)], lambda r: {"k": r.randint(1, 7)},
  lambda env, P: rx.compose(ops.retry(), ops.take(P["k"])))
E("repeat_count", "repeat", "op", [S("C", mindur=1)], lambda r: {"n": r.randint(0, 3)}, lambda env, P: ops.repeat(P["n"]))
E("repeat_forever_take", "repeat", "op", [S("C", lo=1, mindur=1)], lambda r: {"k": r.randint(1, 7)},
  lambda env, P: rx.compose(ops.repeat(), ops.take(P["k"])))
E("retry_then_repeat", "retry", "op", [S("CE", mindur=1)], lambda r: {"n": r.randint(1, 3), "m": r.randint(1, 3)},
  lambda env, P: rx.compose(ops.retry(P["n"]), ops.catch(lambda ex, src: rx.empty()), ops.repeat(P["m"])))
E("retry_flaky_since", "retry", "create", [S("E", mindur=2), S("C")], lambda r: {"lim": r.choice([3, 8, 15, 25]), "n": r.choice([None, 2, 4])},
  lambda env, P: rx.defer(lambda sch: env.src(0) if env.since() < P["lim"] else env.src(1)).pipe(ops.retry(P["n"])), since=True)
E("repeat_until_since", "repeat", "op", [S("C", lo=1, mindur=2)], lambda r: {"lim": r.choice([3, 8, 15, 25])},
  lambda env, P: rx.compose(ops.repeat(), ops.take_while(lambda v: env.since() < P["lim"])), since=True)

# ---- catch in all its shapes
E("catch_args", "catch", "create", [ERR, TERM, ANY], lambda r: {"n": r.randint(2, 3)},
  lambda env, P: rx.catch(*[env.src(i) for i in range(P["n"])]))
E("catch_iterable", "catch", "create", [ERR, TERM, ANY], lambda r: {"n": r.randint(1, 3), "shape": r.choice(["list", "tuple"])},
  lambda env, P: rx.catch_with_iterable(shaped(P["shape"], [env.src(i) for i in range(P["n"])])))
E("catch_op_observable", "catch", "op", [ERR, ANY], none, lambda env, P: ops.catch(env.src(1)))
E("catch_op_handler", "catch", "op", [ERR, ANY], lambda r: {"mode": r.choice(["other", "other", "source_once", "raise"])},
  lambda env, P: ops.catch({"other": lambda ex, src: env.src(1),
                            "source_once": lambda ex, src: src.pipe(ops.catch(env.src(1))),
                            "raise": lambda ex, src: (_ for _ in ()).throw(ValueError("handler"))}[P["mode"]]))

# ---- on_error_resume_next
E("oern_args", "on_error_resume_next", "create", [TERM, TERM, ANY], lambda r: {"n": r.randint(2, 3)},
  lambda env, P: rx.on_error_resume_next(*[env.src(i) for i in range(P["n"])]))
E("oern_factory", "on_error_resume_next", "create", [TERM, TERM, ANY], lambda r: {"n": r.randint(2, 3)},
  lambda env, P: rx.on_error_resume_next(env.src(0), *[(lambda ex, i=i: env.src(i).pipe(ops.start_with(type(ex).__name__)))
                                                       for i in range(1, P["n"])]))
E("oern_op", "on_error_resume_next", "op", [TERM, ANY], none, lambda env, P: ops.on_error_resume_next(env.src(1)))

# ---- concat family
E("concat_args", "concat", "create", [COMP, TERM, ANY], lambda r: {"n": r.randint(2, 3)},
  lambda env, P: rx.concat(*[env.src(i) for i in range(P["n"])]))
E("concat_iterable", "concat_with_iterable", "create", [COMP, TERM, ANY], lambda r: {"n": r.randint(1, 3), "shape": r.choice(["list", "tuple"])},
  lambda env, P: rx.concat_with_iterable(shaped(P["shape"], [env.src(i) for i in range(P["n"])])))
E("concat_op", "concat", "op", [COMP, TERM, ANY], lambda r: {"n": r.randint(1, 2)},
  lambda env, P: ops.concat(*[env.src(i) for i in range(1, 1 + P["n"])]))
E("for_in", "for_in", "create", [COMP, COMP, ANY],
  lambda r: {"shape": r.choice(["list", "tuple", "range"]), "vals": [r.randint(0, 2) for _ in range(r.randint(1, 4))]},
  lambda env, P: rx.for_in(range(len(P["vals"])) if P["shape"] == "range" else shaped(P["shape"], P["vals"]),
                           lambda v: env.src(v % 3).pipe(ops.map(lambda x: (v, x)))))
E("while_do_since", "while_do", "op", [S("C", mindur=2)], lambda r: {"lim": r.choice([1, 5, 12, 20, 30])},
  lambda env, P: ops.while_do(lambda _: env.since() < P["lim"]), since=True)
E("while_do_take", "while_do", "op", [S("C", lo=1, mindur=1)], lambda r: {"k": r.randint(1, 7)},
  lambda env, P: rx.compose(ops.while_do(lambda _: True), ops.take(P["k"])))
E("while_do_false", "while_do", "op", [ANY], none, lambda env, P: ops.while_do(lambda _: False))
E("do_while_since", "do_while", "op", [S("C", mindur=2)], lambda r: {"lim": r.choice([1, 5, 12, 20, 30])},
  lambda env, P: ops.do_while(lambda _: env.since() < P["lim"]), since=True)
E("do_while_take", "do_while", "op", [S("C", lo=1, mindur=1)], lambda r: {"k": r.randint(1, 7)},
  lambda env, P: rx.compose(ops.do_while(lambda _: True), ops.take(P["k"])))


class Counter:
    """per-subscription state: created inside a defer/using factory, never shared between subscriptions"""

    def __init__(self) -> None:
        self.n = 0
        self.disposed = 0

    def tick(self) -> int:
        self.n += 1
        return self.n

    def dispose(self) -> None:
        self.disposed += 1


def _defer_while(env: Env, P: dict) -> Any:
    def factory(sch: Any) -> Any:
        st = Counter()
        return env.src(0).pipe(ops.while_do(lambda _: st.tick() <= P["k"]))
    return rx.defer(factory)


def _defer_do_while(env: Env, P: dict) -> Any:
    def factory(sch: Any) -> Any:
        st = Counter()
        return env.src(0).pipe(ops.do_while(lambda _: st.tick() <= P["k"]))
    return rx.defer(factory)


def _defer_flaky(env: Env, P: dict) -> Any:
    def factory(sch: Any) -> Any:
        st = Counter()
        return rx.defer(lambda s: env.src(0) if st.tick() <= P["k"] else env.src(1)).pipe(ops.retry(P["n"]))
    return rx.defer(factory)


def _using(env: Env, P: dict) -> Any:
    def res_factory() -> Any:
        c = Counter()
        env.resources.append(c)
        return c if P["res"] else None

    def obs_factory(res: Any) -> Any:
        if P["raise"]:
            raise ValueError("factory")
        c = res if res is not None else Counter()
        return env.src(0).pipe(ops.map(lambda v: (v, c.tick())))
    return rx.using(res_factory, obs_factory)


E("defer_while_do_state", "defer", "create", [S("C", mindur=0)], lambda r: {"k": r.randint(0, 3)}, _defer_while)
E("defer_do_while_state", "defer", "create", [S("C", mindur=0)], lambda r: {"k": r.randint(0, 3)}, _defer_do_while)
E("defer_retry_flaky_state", "defer", "create", [S("E", mindur=1), S("C")], lambda r: {"k": r.randint(0, 3), "n": r.choice([None, 2, 3, 5])}, _defer_flaky)
E("defer_source", "defer", "create", [ANY, ANY], lambda r: {"i": r.randint(0, 1), "raise": r.random() < 0.15},
  lambda env, P: rx.defer(lambda sch: (_ for _ in ()).throw(ValueError("defer")) if P["raise"] else env.src(P["i"])))
E("using", "using", "create", [ANY], lambda r: {"res": r.random() < 0.8, "raise": r.random() < 0.15}, _using)
E("case_const", "case", "create", [ANY, ANY, ANY], lambda r: {"k": r.randint(0, 3), "default": r.random() < 0.7},
  lambda env, P: rx.case(lambda: P["k"], {0: env.src(0), 1: env.src(1)}, env.src(2) if P["default"] else None))
E("case_since_repeat", "case", "create", [S("C", mindur=3), S("C", mindur=3), S("C", mindur=3)], lambda r: {"n": r.randint(1, 4), "q": r.choice([4, 7, 10])},
  lambda env, P: rx.case(lambda: int(env.since() // P["q"]) % 3, {0: env.src(0), 1: env.src(1)}, env.src(2)).pipe(ops.repeat(P["n"])),
  since=True)
E("if_then_const", "if_then", "create", [ANY, ANY], lambda r: {"c": r.random() < 0.5, "else": r.random() < 0.6},
  lambda env, P: rx.if_then(lambda: P["c"], env.src(0), env.src(1) if P["else"] else None))
E("if_then_since_repeat", "if_then", "create", [S("C", mindur=3), S("C", mindur=3)], lambda r: {"n": r.randint(1, 4), "q": r.choice([4, 7, 10])},
  lambda env, P: rx.if_then(lambda: int(env.since() // P["q"]) % 2 == 0, env.src(0), env.src(1)).pipe(ops.repeat(P["n"])), since=True)

# ---- creation functions
E("generate", "generate", "create", [], lambda r: {"a": r.randint(0, 3), "n": r.randint(0, 6), "step": r.choice([1, 2])},
  lambda env, P: rx.generate(P["a"], lambda x: x < P["a"] + P["n"], lambda x: x + P["step"]))
E("generate_with_relative_time", "generate_with_relative_time", "create", [], lambda r: {"n": r.randint(0, 5), "d": r.choice([0, 1, 5])},
  lambda env, P: rx.generate_with_relative_time(0, lambda x: x < P["n"], lambda x: x + 1, lambda x: P["d"] * (x % 2 + 1)))
E("range", "range", "create", [], lambda r: {"a": r.randint(-2, 3), "b": r.choice([None, 0, 3, 6]), "c": r.choice([None, 1, 2])},
  lambda env, P: rx.range(P["a"], P["b"], P["c"]) if P["b"] is not None else rx.range(max(0, P["a"])))
E("from_iterable", "from_iterable", "create", [],
  lambda r: {"shape": r.choice(["list", "tuple", "range", "str", "dict"]), "vals": [r.choice([0, 1, None, "a", 2.5]) for _ in range(r.randint(0, 5))]},
  lambda env, P: rx.from_iterable({"list": list, "tuple": tuple, "range": lambda v: range(len(v)), "str": lambda v: "abcdef"[:len(v)],
                                   "dict": lambda v: {i: x for i, x in enumerate(v)}}[P["shape"]](P["vals"])))
E("of", "of", "create", [], lambda r: {"vals": [r.choice([0, 1, None, "a", False]) for _ in range(r.randint(0, 5))]},
  lambda env, P: rx.of(*P["vals"]))
E("just_empty_throw_never", "just", "create", [], lambda r: {"which": r.choice(["just", "empty", "throw", "never", "repeat_value", "from_callable"])},
  lambda env, P: {"just": lambda: rx.just(0), "empty": rx.empty, "throw": lambda: rx.throw(SrcErr("t")), "never": rx.never,
                  "repeat_value": lambda: rx.repeat_value("v", 3), "from_callable": lambda: rx.from_callable(lambda: 42)}[P["which"]]())
E("timer", "timer", "create", [], lambda r: {"d": r.choice([0, 1, 5, 10]), "p": r.choice([None, 1, 5]), "k": r.randint(1, 4)},
  lambda env, P: rx.timer(P["d"], scheduler=env.ts) if P["p"] is None else rx.timer(P["d"], P["p"], scheduler=env.ts).pipe(ops.take(P["k"])))
E("interval", "interval", "create", [], lambda r: {"p": r.choice([1, 5, 10]), "k": r.randint(0, 4)},
  lambda env, P: rx.interval(P["p"], scheduler=env.ts).pipe(ops.take(P["k"])))

# ---- several cold sources
E("merge_args", "merge", "create", [ANY, ANY, ANY], lambda r: {"n": r.randint(2, 3)},
  lambda env, P: rx.merge(*[env.src(i) for i in range(P["n"])]))
E("merge_op", "merge", "op", [ANY, ANY, ANY], lambda r: {"n": r.randint(1, 2), "mc": r.choice([None, None, 1, 2])},
  lambda env, P: ops.merge(*[env.src(i) for i in range(1, 1 + P["n"])], max_concurrent=P["mc"]) if P["mc"] else
  ops.merge(*[env.src(i) for i in range(1, 1 + P["n"])]))
E("zip_args", "zip", "create", [S(lo=1), S(lo=1), ANY], lambda r: {"n": r.randint(2, 3)},
  lambda env, P: rx.zip(*[env.src(i) for i in range(P["n"])]))
E("zip_op", "zip", "op", [S(lo=1), S(lo=1), ANY], lambda r: {"n": r.randint(1, 2)},
  lambda env, P: ops.zip(*[env.src(i) for i in range(1, 1 + P["n"])]))
E("combine_latest_args", "combine_latest", "create", [S(lo=1), S(lo=1), ANY], lambda r: {"n": r.randint(2, 3)},
  lambda env, P: rx.combine_latest(*[env.src(i) for i in range(P["n"])]))
E("combine_latest_op", "combine_latest", "op", [S(lo=1), S(lo=1), ANY], lambda r: {"n": r.randint(1, 2)},
  lambda env, P: ops.combine_latest(*[env.src(i) for i in range(1, 1 + P["n"])]))
E("with_latest_from_op", "with_latest_from", "op", [S(lo=1), S(lo=1), ANY], lambda r: {"n": r.randint(1, 2)},
  lambda env, P: ops.with_latest_from(*[env.src(i) for i in range(1, 1 + P["n"])]))
E("with_latest_from_args", "with_latest_from", "create", [S(lo=1), S(lo=1)], none,
  lambda env, P: rx.with_latest_from(env.src(0), env.src(1)))
E("amb_args", "amb", "create", [ANY, ANY, ANY], lambda r: {"n": r.randint(2, 3)},
  lambda env, P: rx.amb(*[env.src(i) for i in range(P["n"])]))
E("amb_op", "amb", "op", [ANY, ANY], none, lambda env, P: ops.amb(env.src(1)))
E("fork_join_args", "fork_join", "create", [TERM, TERM, TERM], lambda r: {"n": r.randint(2, 3)},
  lambda env, P: rx.fork_join(*[env.src(i) for i in range(P["n"])]))
E("fork_join_op", "fork_join", "op", [TERM, TERM], none, lambda env, P: ops.fork_join(env.src(1)))
E("take_until", "take_until", "op", [ANY, ANY], none, lambda env, P: ops.take_until(env.src(1)))
E("skip_until", "skip_until", "op", [ANY, ANY], none, lambda env, P: ops.skip_until(env.src(1)))
E("sample_observable", "sample", "op", [ANY, ANY], none, lambda env, P: ops.sample(env.src(1)))
E("sequence_equal_observable", "sequence_equal", "op", [S("CE", hi=3, domain="dups"), S("CE", hi=3, domain="dups")], none,
  lambda env, P: ops.sequence_equal(env.src(1)))
E("buffer_boundaries", "buffer", "op", [ANY, ANY], none, lambda env, P: ops.buffer(env.src(1)))
E("window_boundaries", "window", "op", [ANY, ANY], none, lambda env, P: ops.window(env.src(1)))
E("buffer_when", "buffer_when", "op", [S("CE", lo=1), S(lo=1, hi=2, minstart=1)], none, lambda env, P: ops.buffer_when(lambda: env.src(1)))
E("window_when", "window_when", "op", [S("CE", lo=1), S(lo=1, hi=2, minstart=1)], none, lambda env, P: ops.window_when(lambda: env.src(1)))
E("buffer_toggle", "buffer_toggle", "op", [S(lo=1), S(lo=1), S(hi=2)], none,
  lambda env, P: ops.buffer_toggle(env.src(1), lambda v: env.src(2)))
E("window_toggle", "window_toggle", "op", [S(lo=1), S(lo=1), S(hi=2)], none,
  lambda env, P: ops.window_toggle(env.src(1), lambda v: env.src(2)))
E("group_by", "group_by", "op", [S(lo=2)], lambda r: {"k": ch(r, KEYS), "m": r.choice([None] + sorted(R.MAPPERS))},
  lambda env, P: ops.group_by(KEYS[P["k"]], R.MAPPERS[P["m"]] if P["m"] else None))
E("group_by_until", "group_by_until", "op", [S(lo=2), S(hi=2)], lambda r: {"k": ch(r, KEYS)},
  lambda env, P: ops.group_by_until(KEYS[P["k"]], None, lambda g: env.src(1)))
E("join", "join", "op", [S(lo=1), S(lo=1), S(hi=1), S(hi=1)], none,
  lambda env, P: ops.join(env.src(1), lambda v: env.src(2), lambda v: env.src(3)))
E("delay_with_mapper", "delay_with_mapper", "op", [S(lo=1), S(hi=1), S(hi=1)], lambda r: {"sub": r.random() < 0.5},
  lambda env, P: ops.delay_with_mapper(env.src(1), lambda v: env.src(2)) if P["sub"] else ops.delay_with_mapper(lambda v: env.src(2)))
E("throttle_with_mapper", "throttle_with_mapper", "op", [S(lo=1), S(hi=1)], none,
  lambda env, P: ops.throttle_with_mapper(lambda v: env.src(1)))
E("timeout_with_mapper", "timeout_with_mapper", "op", [S(lo=1), S(hi=1), S(hi=1), ANY], lambda r: {"other": r.random() < 0.6},
  lambda env, P: ops.timeout_with_mapper(env.src(1), lambda v: env.src(2), env.src(3) if P["other"] else None))

# ---- higher-order over cold inners
E("flat_map", "flat_map", "op", [S(lo=1), ANY, ANY], none, lambda env, P: ops.flat_map(env.pick(1, 2)))
E("flat_map_observable", "flat_map", "op", [S(lo=1), ANY], none, lambda env, P: ops.flat_map(env.src(1)))
E("flat_map_iterable", "flat_map", "op", [S(lo=1)], lambda r: {"shape": r.choice(["list", "tuple"])},
  lambda env, P: ops.flat_map(lambda v: shaped(P["shape"], [v, (v,)])))
E("flat_map_indexed", "flat_map_indexed", "op", [S(lo=1), ANY, ANY], none, lambda env, P: ops.flat_map_indexed(env.pick_ix(1, 2)))
E("concat_map", "concat_map", "op", [S(lo=1), TERM, TERM], none, lambda env, P: ops.concat_map(env.pick(1, 2)))
E("switch_map", "switch_map", "op", [S(lo=1), ANY, ANY], none, lambda env, P: ops.switch_map(env.pick(1, 2)))
E("switch_map_indexed", "switch_map_indexed", "op", [S(lo=1), ANY, ANY], none, lambda env, P: ops.switch_map_indexed(env.pick_ix(1, 2)))
E("flat_map_latest", "flat_map_latest", "op", [S(lo=1), ANY, ANY], none, lambda env, P: ops.flat_map_latest(env.pick(1, 2)))
E("merge_all", "merge_all", "op", [S(lo=1), ANY, ANY], none, lambda env, P: rx.compose(ops.map(env.pick(1, 2)), ops.merge_all()))
E("switch_latest", "switch_latest", "op", [S(lo=1), ANY, ANY], none, lambda env, P: rx.compose(ops.map(env.pick(1, 2)), ops.switch_latest()))
E("exclusive", "exclusive", "op", [S(lo=1), ANY, ANY], none, lambda env, P: rx.compose(ops.map(env.pick(1, 2)), ops.exclusive()))

# ---- time operators on cold sources (relative times only)
TIMES = [0, 1, 3, 5, 5, 8, 10, 12, 20]


def tm(r: Any) -> dict:
    return {"d": r.choice(TIMES)}


def tm_pos(r: Any) -> dict:
    return {"d": r.choice([1, 3, 5, 5, 8, 10, 12, 20])}


E("delay", "delay", "op", [ANY], tm, lambda env, P: ops.delay(P["d"], scheduler=env.ts), stage=True)
E("delay_subscription", "delay_subscription", "op", [ANY], tm, lambda env, P: ops.delay_subscription(P["d"], scheduler=env.ts), stage=True)
E("debounce", "debounce", "op", [S(lo=1)], tm, lambda env, P: ops.debounce(P["d"], scheduler=env.ts), stage=True)
E("throttle_first", "throttle_first", "op", [S(lo=1)], tm, lambda env, P: ops.throttle_first(P["d"], scheduler=env.ts), stage=True)
E("timeout", "timeout", "op", [ANY], tm_pos, lambda env, P: ops.timeout(P["d"], scheduler=env.ts), stage=True)
E("timeout_other", "timeout", "op", [ANY, ANY], tm_pos, lambda env, P: ops.timeout(P["d"], env.src(1), scheduler=env.ts))
E("sample_time", "sample", "op", [S("CE", lo=1)], tm_pos, lambda env, P: ops.sample(P["d"], scheduler=env.ts), stage=True)
E("window_with_time", "window_with_time", "op", [S("CE", lo=1)], lambda r: {"d": r.choice([3, 5, 10, 12]), "shift": r.choice([None, None, 3, 5, 10, 15])},
  lambda env, P: ops.window_with_time(P["d"], P["shift"], scheduler=env.ts))
E("buffer_with_time", "buffer_with_time", "op", [S("CE", lo=1)], lambda r: {"d": r.choice([3, 5, 10, 12]), "shift": r.choice([None, None, 3, 5, 10, 15])},
  lambda env, P: ops.buffer_with_time(P["d"], P["shift"], scheduler=env.ts), stage=True)
E("window_with_time_or_count", "window_with_time_or_count", "op", [S("CE", lo=1)], lambda r: {"d": r.choice([3, 5, 10, 12]), "n": r.randint(1, 3)},
  lambda env, P: ops.window_with_time_or_count(P["d"], P["n"], scheduler=env.ts))
E("buffer_with_time_or_count", "buffer_with_time_or_count", "op", [S("CE", lo=1)], lambda r: {"d": r.choice([3, 5, 10, 12]), "n": r.randint(1, 3)},
  lambda env, P: ops.buffer_with_time_or_count(P["d"], P["n"], scheduler=env.ts), stage=True)
E("take_with_time", "take_with_time", "op", [ANY], tm, lambda env, P: ops.take_with_time(P["d"], scheduler=env.ts), stage=True)
E("skip_with_time", "skip_with_time", "op", [ANY], tm, lambda env, P: ops.skip_with_time(P["d"], scheduler=env.ts), stage=True)
E("take_last_with_time", "take_last_with_time", "op", [TERM], tm, lambda env, P: ops.take_last_with_time(P["d"], scheduler=env.ts), stage=True)
E("skip_last_with_time", "skip_last_with_time", "op", [TERM], tm, lambda env, P: ops.skip_last_with_time(P["d"], scheduler=env.ts), stage=True)
E("take_until_with_time", "take_until_with_time", "op", [ANY], tm, lambda env, P: ops.take_until_with_time(P["d"], scheduler=env.ts), stage=True)
E("skip_until_with_time", "skip_until_with_time", "op", [ANY], tm, lambda env, P: ops.skip_until_with_time(P["d"], scheduler=env.ts), stage=True)
E("time_interval", "time_interval", "op", [ANY], none, lambda env, P: ops.time_interval(scheduler=env.ts), stage=True)
E("observe_on", "observe_on", "op", [ANY], none, lambda env, P: ops.observe_on(env.ts), stage=True)
E("subscribe_on", "subscribe_on", "op", [ANY], none, lambda env, P: ops.subscribe_on(env.ts), stage=True)

# ---- multicasting operator factories: C44 only (C04 excludes them by statement)
MC_SRC = [S(lo=1)]


def _publish_conn(env: Env, src: Any) -> Any:
    return src.pipe(ops.publish())


def _mapper_twice(shared: Any) -> Any:
    return rx.merge(shared, shared.pipe(ops.map(lambda v: ("dup", v))))


SUBJECTS = {"subject": lambda sch: Subject(), "replay2": lambda sch: ReplaySubject(2, scheduler=sch),
            "behavior": lambda sch: BehaviorSubject("init"), "async": lambda sch: AsyncSubject()}

E("publish", "publish", "op", MC_SRC, none, lambda env, P: ops.publish(), c04=False, c44=True)
E("publish_mapper", "publish", "op", MC_SRC, none, lambda env, P: ops.publish(_mapper_twice), c04=False, c44=True)
E("share", "share", "op", MC_SRC, none, lambda env, P: ops.share(), c04=False, c44=True)
E("ref_count", "ref_count", "op", MC_SRC, none, lambda env, P: ops.ref_count(), c04=False, c44=True, prep=_publish_conn)
E("replay", "replay", "op", MC_SRC, lambda r: {"n": r.choice([None, None, 1, 2]), "w": r.choice([None, None, 10])},
  lambda env, P: ops.replay(buffer_size=P["n"], window=P["w"], scheduler=env.ts), c04=False, c44=True)
# (no scheduler argument: the ReplaySubjects fall back to the current thread's trampoline; no window, which would read real time)
E("replay_default_scheduler", "replay", "op", MC_SRC, lambda r: {"n": r.choice([None, 1, 2, 3])},
  lambda env, P: ops.replay(buffer_size=P["n"]), c04=False, c44=True)
E("replay_mapper", "replay", "op", MC_SRC, lambda r: {"n": r.choice([None, 1, 2])},
  lambda env, P: ops.replay(buffer_size=P["n"], mapper=_mapper_twice, scheduler=env.ts), c04=False, c44=True)
E("publish_value", "publish_value", "op", MC_SRC, lambda r: {"v": r.choice([None, 0, "init"])},
  lambda env, P: ops.publish_value(P["v"]), c04=False, c44=True)
E("publish_value_mapper", "publish_value", "op", MC_SRC, lambda r: {"v": r.choice([None, 0, "init"])},
  lambda env, P: ops.publish_value(P["v"], _mapper_twice), c04=False, c44=True)
E("multicast_factory", "multicast", "op", MC_SRC, lambda r: {"s": ch(r, SUBJECTS)},
  lambda env, P: ops.multicast(subject_factory=SUBJECTS[P["s"]]), c04=False, c44=True)
E("multicast_factory_mapper", "multicast", "op", MC_SRC, lambda r: {"s": ch(r, SUBJECTS)},
  lambda env, P: ops.multicast(subject_factory=SUBJECTS[P["s"]], mapper=_mapper_twice), c04=False, c44=True)
E("publish_ref_count", "ref_count", "op", MC_SRC, none, lambda env, P: rx.compose(ops.publish(), ops.ref_count()), c04=False, c44=True)
E("replay_ref_count", "replay_ref_count", "op", MC_SRC, lambda r: {"n": r.choice([None, 1, 2])},
  lambda env, P: rx.compose(ops.replay(buffer_size=P["n"], scheduler=env.ts), ops.ref_count()), c04=False, c44=True)


C04_ENTRIES = sorted(n for n, e in ENTRIES.items() if e.c04)
C04_STAGES = sorted(n for n, e in ENTRIES.items() if e.c04 and e.stage and not e.since and len(e.srcs) == 1)
C44_ENTRIES = sorted(n for n, e in ENTRIES.items() if e.c44)


def disposable_of(x: Any) -> Any:
    return x if x is not None else Disposable()
