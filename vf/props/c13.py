"""C13 Multi-source combinators follow their pairing rules (virtual time, event models over the merged observed trace).

Every model consumes the `emit` events of the probe sources in their observed (seq) order, so the order of two sources
at one virtual instant is an input.  zip, fork_join and amb are compared exactly (values, tuple order, virtual times,
terminal).  For combine_latest and with_latest_from the statement fixes elements and errors but leaves the completion
rule open: a completion is accepted anywhere between "the model can emit nothing more" and "all sources (resp. the
primary) completed" and is required by the latter; an error observed while the operator has not completed must be
delivered.  amb additionally: every losing subscription is closed before the end of the scheduler action in which the
winner first notified (a loser that is only subscribed after that point must be closed within the action of its own
subscription).
"""
from __future__ import annotations

from typing import Any

import reactivex as rx
import reactivex.operators as ops

from ..common import UnitResult, case_rng, chunks, show
from ..vlab import Lab
from ._c1x_common import (SUB_AT, action_end_seq, build_source, gen_source, match_exact, new_lab, run_pipeline, show_source,
                          show_timed, show_trace)

ID = "C13"
LEVEL = "exploration"
RULE = ("seeded random cases: combinator (zip / combine_latest / with_latest_from / fork_join / amb), call form (factory, "
        "operator, for amb also a chain of binary operators), 1..4 probe sources (cold, hot, synchronous) with 0..4 "
        "elements ending in C / E / never on a coarse time grid (simultaneous notifications frequent), subscription with "
        "scheduler=TestScheduler or without a scheduler argument; non-trivial = at "
        "least two sources notified; distinct = digest of (combinator, form, timelines)")
ASSUMPTIONS = ["reactivex.testing.TestScheduler is the clock (checked by C28)", "probe sources are harness code (conforming)"]
CASES = {"quick": 6000, "thorough": 360000}
UNIT_TIMEOUT = {"quick": 300, "thorough": 3600}
OPS = ["zip", "combine_latest", "with_latest_from", "fork_join", "amb"]
REQUIRED = {"set:ops": len(OPS), "set:forms": 11, "tuples_compared": {"quick": 4000, "thorough": 80000},
            "zip_completed_with_other_source_buffering": {"quick": 60, "thorough": 1200},
            "zip_completed_after_draining_completed_source": {"quick": 60, "thorough": 1200},
            "fork_join_tuple": {"quick": 60, "thorough": 1200}, "fork_join_completed_empty": {"quick": 100, "thorough": 2000},
            "amb_losers_checked": {"quick": 600, "thorough": 12000}, "amb_simultaneous_first_notifications": {"quick": 40, "thorough": 800},
            "window_completions_checked": {"quick": 300, "thorough": 6000},
            "window_closed_by_required_completion": {"quick": 40, "thorough": 800}, "same_instant_multi_source": {"quick": 600, "thorough": 12000},
            "error_terminations": {"quick": 500, "thorough": 10000}}


def units(tier: str, seed: int) -> list[dict]:
    return [{"lo": lo, "hi": hi, "seed": seed} for lo, hi in chunks(CASES[tier], 16 if tier == "quick" else 64)]


def gen_case(r: Any, idx: int) -> dict:
    op = OPS[idx % len(OPS)]
    if op == "amb":
        form = r.choice(["factory", "operator", "operator_chain"])
        k = 2 if form == "operator" else (r.randint(3, 4) if form == "operator_chain" else r.randint(1, 4))
    else:
        form = r.choice(["factory", "operator"])
        k = r.randint(1, 4)
    domain = r.choice(["ints", "dups", "falsy", "uniq"])
    uniq = [100] if domain == "uniq" else None
    srcs = []
    for i in range(k):
        if op == "fork_join":
            term = r.choice(["C", "C", "C", "C", "C", "E", None])
        elif op == "amb":
            term = r.choice(["C", "C", "E", None])
        else:
            term = r.choice(["C", "C", "C", "E", None])
        srcs.append(gen_source(r, "s%d" % i, domain=domain, maxlen=4, term=term, uniq=uniq,
                               kinds=("cold", "cold", "cold", "hot", "hot", "sync"), hot_base=SUB_AT + r.choice([-5, 0, 0, 5, 10])))
    return {"op": op, "form": form, "srcs": srcs, "domain": domain, "scheduler_arg": r.random() < 0.7}


def build(case: dict, L: list) -> Any:
    op, form = case["op"], case["form"]
    if op == "amb":
        if form == "factory":
            return rx.amb(*L)
        o = L[0]
        for x in L[1:]:
            o = o.pipe(ops.amb(x))
        return o
    fac = {"zip": rx.zip, "combine_latest": rx.combine_latest, "with_latest_from": rx.with_latest_from, "fork_join": rx.fork_join}[op]
    opf = {"zip": ops.zip, "combine_latest": ops.combine_latest, "with_latest_from": ops.with_latest_from, "fork_join": ops.fork_join}[op]
    if form == "factory":
        return fac(*L)
    return L[0].pipe(opf(*L[1:]))


# ------------------------------------------------------------------------------------------ models

class Out:
    """Expected output; `window` = (start_seq, deadline) describes an open completion rule (see module docstring)."""

    def __init__(self) -> None:
        self.items: list = []
        self.open = True
        self.window_start: int | None = None      # seq of the event after which the model can emit nothing more
        self.deadline: tuple | None = None        # (seq, time, 'C' | 'E', error) : decisive event inside the window
        self.stats: dict = {}

    def put(self, t: float, k: str, v: Any = None) -> None:
        if self.open:
            self.items.append((t, k, v))
            if k != "N":
                self.open = False

    def bump(self, name: str) -> None:
        self.stats[name] = self.stats.get(name, 0) + 1


def emits(lab: Lab, index: dict, sid: int = 0) -> list:
    """(seq, time, source position, kind, value) of the sid-th subscription of every source, in observed order."""
    return [(e[0], e[1], index[e[3]], e[5], e[6]) for e in lab.ev if e[2] == "emit" and e[3] in index and e[4] == sid]


def resubscription_case(case: dict, res: UnitResult, seed: int, idx: int) -> None:
    """The combinator observable is built ONCE and subscribed a second time after every source timeline is over:
    the pairing rules must hold for the second subscriber on its own (no buffered element, flag or choice may be
    left over from the first subscription)."""
    lab = new_lab()
    L = [build_source(lab, s) for s in case["srcs"]]
    last = max([SUB_AT] + [(m[0] if s["kind"] == "hot" else SUB_AT + m[0]) for s in case["srcs"] for m in s["tl"]])
    t2 = last + 40.0
    first, second = lab.observer("first", inner=False), lab.observer("second", inner=False)
    holder: dict = {}

    def sub1() -> None:
        holder["o"] = build(case, L)
        first.subscribe_to(holder["o"])
    lab.at(SUB_AT, sub1)
    lab.at(t2, lambda: second.subscribe_to(holder["o"]))
    lab.run()
    index = {s["name"]: i for i, s in enumerate(case["srcs"])}
    out2 = MODELS[case["op"]](emits(lab, index, 1), len(L))
    res.count("second_subscriptions_checked")
    why = judge(out2, second, lab)
    if why is not None:
        res.violation("C13:%s:second-subscription" % case["op"], {"why": why, "case": describe(case), "expected": show_timed(out2.items),
                                                                  "observed": show_timed(second.timed()), "trace": show_trace(lab)},
                      {"seed": seed, "idx": idx})


def model_zip(evs: list, n: int) -> Out:
    out = Out()
    queues: list = [[] for _ in range(n)]
    done = [False] * n
    for (seq, t, i, k, v) in evs:
        if not out.open:
            break
        if k == "N":
            queues[i].append(v)
            if all(queues):
                out.put(t, "N", tuple(q.pop(0) for q in queues))
                out.bump("tuples")
                if any(done[j] and not queues[j] for j in range(n)):
                    if any(queues):
                        out.bump("zip_completed_with_other_source_buffering")
                    out.bump("zip_completed_after_draining_completed_source")
                    out.put(t, "C")
        elif k == "C":
            done[i] = True
            if not queues[i]:
                if any(queues):
                    out.bump("zip_completed_with_other_source_buffering")
                out.put(t, "C")
        else:
            out.bump("errors")
            out.put(t, "E", v)
    return out


def model_fork_join(evs: list, n: int) -> Out:
    out = Out()
    last: list = [None] * n
    has = [False] * n
    done = [False] * n
    for (seq, t, i, k, v) in evs:
        if not out.open:
            break
        if k == "N":
            last[i], has[i] = v, True
        elif k == "C":
            done[i] = True
            if not has[i]:
                out.bump("fork_join_completed_empty")
                out.put(t, "C")
            elif all(done):
                out.bump("tuples")
                out.bump("fork_join_tuple")
                out.put(t, "N", tuple(last))
                out.put(t, "C")
        else:
            out.bump("errors")
            out.put(t, "E", v)
    return out


def _window_walk(evs: list, n: int, on_next: Any, nothing_more: Any, must_complete: Any) -> Out:
    out = Out()
    done = [False] * n
    has = [False] * n
    for (seq, t, i, k, v) in evs:
        if not out.open:
            break
        in_window = out.window_start is not None
        if k == "N":
            has[i] = True
            if not in_window:
                r = on_next(i, v, has)
                if r is not None:
                    out.bump("tuples")
                    out.put(t, "N", r)
        elif k == "C":
            done[i] = True
        else:
            if in_window:
                out.deadline = (seq, t, "E", v)
                out.open = False
            else:
                out.bump("errors")
                out.put(t, "E", v)
            continue
        if must_complete(done):
            if in_window:
                out.deadline = (seq, t, "C", None)
                out.open = False
            else:
                out.put(t, "C")
                out.bump("exact_completion")
        elif not in_window and nothing_more(done, has):
            out.window_start = seq
    return out


def model_combine_latest(evs: list, n: int) -> Out:
    vals: list = [None] * n

    def on_next(i: int, v: Any, has: list) -> Any:
        vals[i] = v
        return tuple(vals) if all(has) else None
    return _window_walk(evs, n, on_next, lambda done, has: any(d and not h for d, h in zip(done, has)), lambda done: all(done))


def model_with_latest_from(evs: list, n: int) -> Out:
    vals: list = [None] * n

    def on_next(i: int, v: Any, has: list) -> Any:
        vals[i] = v
        if i == 0 and all(has[1:]):
            return tuple(vals)
        return None
    return _window_walk(evs, n, on_next, lambda done, has: any(d and not h for d, h in list(zip(done, has))[1:]), lambda done: done[0])


def model_amb(evs: list, n: int) -> Out:
    out = Out()
    if not evs:
        return out
    w = evs[0][2]
    out.stats["winner"] = w
    out.stats["first_seq"] = evs[0][0]
    for (seq, t, i, k, v) in evs:
        if i == w:
            out.put(t, k, v)
    return out


MODELS = {"zip": model_zip, "fork_join": model_fork_join, "combine_latest": model_combine_latest,
          "with_latest_from": model_with_latest_from, "amb": model_amb}


def judge(out: Out, top: Any, lab: Lab) -> str | None:
    actual = top.timed()
    if out.window_start is None:
        return match_exact(out.items, actual)
    body = out.items
    why = match_exact(body, actual[:len(body)])
    if why is not None:
        return why
    tail = top.recv[len(body):]            # (kind, value, time, seq)
    if len(tail) > 1:
        return "more than one notification after the last expected element: %s" % (show_timed([(r[2], r[0], r[1]) for r in tail]),)
    dl = out.deadline
    if not tail:
        if dl is None:
            return None
        return ("no terminal notification although the %s at seq %d (time %s) requires one"
                % ("completion of all required sources" if dl[2] == "C" else "error", dl[0], dl[1]))
    kind, value, t, seq = tail[0]
    if kind == "N":
        return "element %r at %s after the model could emit nothing more (window opened at seq %d)" % (value, t, out.window_start)
    if kind == "C":
        if seq < out.window_start:
            return "completed at seq %d, before the model could emit nothing more (seq %d)" % (seq, out.window_start)
        if dl is not None:
            if dl[2] == "E" and seq > dl[0]:
                return "completed at seq %d after the error at seq %d that was observed while the operator was still open" % (seq, dl[0])
            if dl[2] == "C" and seq > action_end_seq(lab, dl[0]):
                return "completed at seq %d, later than the action in which the last required source completed (seq %d)" % (seq, dl[0])
        return None
    # kind == "E"
    if dl is None or dl[2] != "E":
        return "error %r delivered, none expected" % (value,)
    if value is not dl[3] or abs(t - dl[1]) > 1e-9:
        return "error %r at %s, expected %r at %s" % (value, t, dl[3], dl[1])
    return None


def check_amb_losers(case: dict, lab: Lab, out: Out) -> tuple[list, int]:
    problems = []
    n = 0
    if "winner" not in out.stats:
        return problems, n
    w = "s%d" % out.stats["winner"]
    first = out.stats["first_seq"]
    limit = action_end_seq(lab, first)
    for (name, sid), (sub, unsub) in lab.open_subscriptions().items():
        if name == w:
            continue
        n += 1
        lim = limit if sub[0] < first else action_end_seq(lab, sub[0])
        if unsub is None or unsub[0] > lim:
            problems.append(("loser_not_unsubscribed", "losing source %s#%d still subscribed after the scheduler action (ending at seq %d) in "
                             "which the winner %s first notified (seq %d); unsub: %s" % (name, sid, lim, w, first, unsub[0] if unsub else None)))
    return problems, n


def first_due(spec: dict) -> float | None:
    """virtual time at which the source would first notify a subscriber that arrives at SUB_AT"""
    if spec["kind"] == "sync":
        return SUB_AT if spec["tl"] else None
    if spec["kind"] == "cold":
        return SUB_AT + spec["tl"][0][0] if spec["tl"] else None
    later = [t for (t, k, v) in spec["tl"] if t > SUB_AT]
    return later[0] if later else None


def describe(case: dict) -> dict:
    return {"op": case["op"], "form": case["form"], "scheduler_arg": case["scheduler_arg"], "sources": [show_source(s) for s in case["srcs"]]}


def run_case(seed: int, idx: int, res: UnitResult) -> None:
    r = case_rng(seed, ID, idx)
    case = gen_case(r, idx)
    lab = new_lab()
    L = [build_source(lab, s) for s in case["srcs"]]
    top = run_pipeline(lab, lambda: build(case, L), with_scheduler=case["scheduler_arg"])
    index = {s["name"]: i for i, s in enumerate(case["srcs"])}
    evs = emits(lab, index)
    out = MODELS[case["op"]](evs, len(L))
    actual = top.timed()
    desc = describe(case)
    notified = len({e[2] for e in evs})
    res.case(key=desc, nontrivial=notified >= 2,
             sample={"case": desc, "expected": show_timed(out.items), "window": [out.window_start, show(out.deadline)],
                     "observed": show_timed(actual), "trace": show_trace(lab, 40)})
    res.note("ops", case["op"])
    res.note("forms", "%s:%s" % (case["op"], case["form"]))
    for k, v in out.stats.items():
        if k not in ("winner", "first_seq"):
            res.count({"tuples": "tuples_compared", "errors": "error_terminations"}.get(k, k), v)
    res.count("outputs_compared", len(out.items))
    if not case["scheduler_arg"]:
        res.count("cases_subscribed_without_scheduler_argument")
    times: dict = {}
    for e in evs:
        times.setdefault(e[1], set()).add(e[2])
    res.count("same_instant_multi_source", sum(1 for s in times.values() if len(s) >= 2))
    problems: list = []
    why = judge(out, top, lab)
    if out.window_start is not None:
        res.count("window_completions_checked")
        if out.deadline is not None:
            res.count("window_closed_by_%s" % ("required_completion" if out.deadline[2] == "C" else "error"))
        elif top.terminal is not None and top.terminal[0] == "C":
            res.count("window_completed_early_by_operator")
        else:
            res.count("window_left_open")
    if why is not None:
        problems.append(("output", why))
    if case["op"] == "amb":
        firsts = sorted(t for t in (first_due(s) for s in case["srcs"]) if t is not None)
        if len(firsts) >= 2 and firsts[0] == firsts[1]:
            res.count("amb_simultaneous_first_notifications")      # by the source descriptions: the loser never shows in the trace
        p, n = check_amb_losers(case, lab, out)
        res.count("amb_losers_checked", n)
        problems.extend(p)
    if lab.escaped_to_scheduler:
        problems.append(("escaped", "exception escaped to the scheduler: %r" % (lab.escaped_to_scheduler[0],)))
    if lab.events("escaped"):
        res.count("obs:exception_escaped_into_a_source")
    if getattr(lab, "over_budget", False):
        problems.append(("budget", "more than the action budget of scheduler actions"))
    if not problems and case["scheduler_arg"] and r.random() < 0.35:
        resubscription_case(case, res, seed, idx)
    if problems:
        res.violation("C13:%s:%s" % (case["op"], problems[0][0]),
                      {"problems": [p[1] for p in problems[:4]], "case": desc, "expected": show_timed(out.items),
                       "window": [out.window_start, show(out.deadline)], "observed": show_timed(actual), "trace": show_trace(lab)},
                      {"seed": seed, "idx": idx})


def run_unit(unit: dict, res: UnitResult) -> None:
    for idx in range(unit["lo"], unit["hi"]):
        run_case(unit["seed"], idx, res)


def replay(rep: dict, res: UnitResult) -> None:
    run_case(rep["seed"], rep["idx"], res)
