"""C32 observe_on / ScheduledObserver: once, in order, serially (dsched: producer thread x loop thread)."""
from __future__ import annotations

from typing import Any

from ..common import UnitResult, case_rng

ID = "C32"
LEVEL = "exploration"
RULE = ("a producer thread emits a generated sequence of unique ids (0..6 elements, then completion / error / nothing, optionally with virtual "
        "sleeps) through (a) source.pipe(observe_on(EventLoopScheduler)), (b) an ObserveOnObserver built directly (so that queue/is_acquired can "
        "be read at quiescence), (c) ReplaySubject(scheduler=EventLoopScheduler) with a subscriber arriving before/between emissions; the "
        "consumer probe yields inside each delivery and may raise at its k-th delivery; under the deterministic thread scheduler: all schedules "
        "with <= b preemptions for small programs, random/PCT/hotspot schedules for generated ones; oracle at quiescence: delivered == received "
        "(same order, none missing, none duplicated), all deliveries on the loop thread, no overlap, nothing delivered after a raising "
        "delivery, queue empty and is_acquired false; distinct = (program, decision list); non-trivial = preemptive switch happened")
ASSUMPTIONS = ["line-granular serialisation; threading primitives replaced by instrumented equivalents",
               "yield points: every line of observer/scheduledobserver.py, observer/observeonobserver.py, subject/replaysubject.py and every lock "
               "operation (including the event loop's); the loop's own lines are covered by C31",
               "the abstract enqueue/drain model over all interleavings mentioned by the quantifier is not claimed (out of family)"]
REQUIRED = {"decided_runs": {"quick": 800, "thorough": 8000}, "preemptive_switches": {"quick": 1500, "thorough": 15000},
            "deliveries": {"quick": 2500, "thorough": 25000}, "raising_deliveries": {"quick": 60, "thorough": 600},
            "dfs_complete_scenarios": {"quick": 3, "thorough": 4}}
UNIT_TIMEOUT = {"quick": 240, "thorough": 3000}
FILES = ("observer/scheduledobserver.py", "observer/observeonobserver.py", "subject/replaysubject.py")

HAND = [
    {"kind": "direct", "seq": [["N"], ["N"], ["C"]], "raise_at": None},
    {"kind": "direct", "seq": [["N"], ["S", 0.1], ["N"], ["C"]], "raise_at": None},
    {"kind": "pipe", "seq": [["N"], ["N"], ["E"]], "raise_at": None},
    {"kind": "direct", "seq": [["N"], ["N"], ["N"]], "raise_at": 1},
    {"kind": "replay", "seq": [["N"], ["SUB"], ["N"], ["C"]], "raise_at": None, "buffer": 2},
]


def gen_program(r: Any) -> dict:
    seq: list = []
    for _ in range(r.randint(0, 6)):
        if r.random() < 0.25:
            seq.append(["S", r.choice([0.0, 0.05, 0.1])])
        seq.append(["N"])
    t = r.choice(["C", "C", "E", None])
    if t:
        seq.append([t])
    kind = r.choice(["direct", "direct", "pipe", "replay"])
    P = {"kind": kind, "seq": seq, "raise_at": r.choice([None, None, None, 1, 2, 3])}
    if kind == "pipe":
        P["sub_scheduler"] = r.choice([None, "immediate", "other_loop"])
    if kind == "replay":
        P["buffer"] = r.choice([None, 1, 2, 10])
        seq.insert(r.randint(0, len(seq)), ["SUB"])
    return P


def scenario(c: Any, P: dict) -> dict:
    import reactivex.operators as ops
    from reactivex.observer.observeonobserver import ObserveOnObserver
    from reactivex.scheduler import EventLoopScheduler
    from reactivex.subject import ReplaySubject, Subject
    from .. import dsched as D
    loop = EventLoopScheduler()
    viol: list = []
    got: list = []           # (kind, value, thread)
    state = {"inside": None, "raised": False, "n": 0}

    class Consumer:
        def _deliver(self, kind: str, value: Any) -> None:
            me = c.me().name
            if state["inside"] is not None and state["inside"] != me:
                viol.append(("C32:%s:overlapping-deliveries" % P["kind"], {"inside": state["inside"], "entering": me}))
            if state["raised"]:
                viol.append(("C32:%s:delivery-after-raising-delivery" % P["kind"], {"kind": kind, "value": value}))
            prev = state["inside"]
            state["inside"] = me
            c.log("deliver", kind, value)
            c.yp("in-delivery")
            got.append((kind, value, me))
            state["n"] += 1
            c.yp("in-delivery")
            state["inside"] = prev
            if P["raise_at"] is not None and state["n"] == P["raise_at"]:
                state["raised"] = True
                raise RuntimeError("consumer failed at delivery %d" % state["n"])

        def on_next(self, v: Any) -> None:
            self._deliver("N", v)

        def on_error(self, e: Exception) -> None:
            self._deliver("E", None)

        def on_completed(self) -> None:
            self._deliver("C", None)

    consumer = Consumer()
    cleanup: list = []
    so = None
    if P["kind"] == "direct":
        so = ObserveOnObserver(loop, consumer)
        target: Any = so
    elif P["kind"] == "pipe":
        target = Subject()
        if P.get("sub_scheduler") == "immediate":
            # a different scheduler arrives at subscribe time: observe_on(loop) still delivers on `loop`
            from reactivex.scheduler import ImmediateScheduler
            target.pipe(ops.observe_on(loop)).subscribe(consumer, scheduler=ImmediateScheduler())
        elif P.get("sub_scheduler") == "other_loop":
            other_loop = EventLoopScheduler()
            cleanup.append(other_loop.dispose)
            target.pipe(ops.observe_on(loop)).subscribe(consumer, scheduler=other_loop)
        else:
            target.pipe(ops.observe_on(loop)).subscribe(consumer)
    else:
        target = ReplaySubject(P["buffer"], scheduler=loop)
    sent: list = []
    sub_at: list = []

    def producer() -> None:
        i = 0
        for step in P["seq"]:
            if step[0] == "N":
                i += 1
                sent.append(("N", i))
                c.log("send", "N", i)
                target.on_next(i)
            elif step[0] == "S":
                c.sleep(step[1])
            elif step[0] == "SUB":
                sub_at.append(len(sent))
                target.subscribe(consumer)
            elif step[0] == "C":
                sent.append(("C", None))
                c.log("send", "C")
                target.on_completed()
            elif step[0] == "E":
                sent.append(("E", None))
                c.log("send", "E")
                target.on_error(RuntimeError("source error"))

    t = D.VThread(target=producer, name="P")
    t.start()
    t.join()
    c.wait_quiescent()
    # expected deliveries
    if P["kind"] == "replay":
        if not sub_at:
            expected = []
        else:
            k = sub_at[0]
            before = [s for s in sent[:k] if s[0] == "N"]
            b = P["buffer"]
            retained = before if b is None else before[-b:] if b > 0 else []
            term_before = [s for s in sent[:k] if s[0] in "CE"]
            expected = retained + term_before + sent[k:] if not term_before else retained + term_before[:1]
    else:
        expected = list(sent)
    cut = []
    for e in expected:
        cut.append(e)
        if e[0] in "CE":
            break
    expected = cut
    if P["raise_at"] is not None and len(expected) >= P["raise_at"]:
        expected = expected[:P["raise_at"]]
    delivered = [(k, v) for k, v, _ in got]
    if delivered != expected:
        if len(delivered) < len(expected) and delivered == expected[:len(delivered)]:
            what = "notification-stranded-at-quiescence"
        elif len(set(delivered)) < len(delivered):
            what = "duplicate-delivery"
        elif sorted(map(str, delivered)) == sorted(map(str, expected)):
            what = "out-of-order"
        else:
            what = "wrong-deliveries"
        viol.append(("C32:%s:%s" % (P["kind"], what), {"expected": expected, "delivered": delivered}))
    bad_threads = sorted({th for _, _, th in got if not th.startswith("T")})
    if bad_threads:
        viol.append(("C32:%s:delivery-not-on-scheduler-thread" % P["kind"], {"threads": bad_threads}))
    if len({th for _, _, th in got}) > 1:
        viol.append(("C32:%s:deliveries-on-several-threads" % P["kind"], {"threads": sorted({th for _, _, th in got})}))
    if so is not None and not state["raised"]:
        if so.queue:
            viol.append(("C32:direct:queue-not-empty-at-quiescence", {"pending": len(so.queue)}))
        if so.is_acquired:
            viol.append(("C32:direct:is_acquired-true-at-quiescence", {}))
    loop.dispose()
    for f in cleanup:
        f()
    return {"viol": viol, "obs": {"deliveries": len(got), "raising_deliveries": 1 if state["raised"] else 0, "sent": len(sent)},
            "sig": {"delivered": delivered}, "decided": True}


def units(tier: str, seed: int) -> list[dict]:
    q = tier == "quick"
    us: list[dict] = []
    for hi, _ in enumerate(HAND):
        us.append({"mode": "dfs", "hand": hi, "bound": 1 if q else 2, "seed": seed, "max_runs": 1500 if q else 80000, "hot_runs": 100 if q else 1500})
    nprog, per = (24, 2) if q else (240, 6)
    for lo in range(0, nprog, per):
        us.append({"mode": "random", "progs": [lo, lo + per], "runs": 30 if q else 250, "seed": seed})
    return us


def run_unit(unit: dict, res: UnitResult) -> None:
    from .. import dcheck, dsched as D
    D.install(D.repo_file(*FILES))
    D.DEFAULT_MAX_STEPS = 50000      # runs of this check take < 1000 steps (evidence: steps_per_run_below); no progress within 50000 is reported
    if not dcheck.check_install(res):
        return
    if unit["mode"] == "dfs":
        P = HAND[unit["hand"]]
        dcheck.explore(res, ID, "hand%d-%s" % (unit["hand"], P["kind"]), scenario, P, "dfs", bound=unit["bound"], max_runs=unit["max_runs"], on_failed="violation")
        dcheck.explore(res, ID, "hand%d-%s" % (unit["hand"], P["kind"]), scenario, P, "hot", seed=unit["seed"], runs=unit["hot_runs"], hot=("in-delivery",), on_failed="violation")
        return
    for pi in range(*unit["progs"]):
        P = gen_program(case_rng(unit["seed"], ID, "prog", pi))
        name = "gen%d-%s" % (pi, P["kind"])
        dcheck.explore(res, ID, name, scenario, P, "random", seed=unit["seed"], runs=unit["runs"], on_failed="violation")
        dcheck.explore(res, ID, name, scenario, P, "pct", seed=unit["seed"], runs=unit["runs"] // 2, on_failed="violation")
        dcheck.explore(res, ID, name, scenario, P, "hot", seed=unit["seed"], runs=unit["runs"] // 2, hot=("in-delivery",), on_failed="violation")


def replay(rep: dict, res: UnitResult) -> None:
    from .. import dcheck, dsched as D
    D.install(D.repo_file(*FILES))
    D.DEFAULT_MAX_STEPS = 50000      # runs of this check take < 1000 steps (evidence: steps_per_run_below); no progress within 50000 is reported
    dcheck.replay(res, ID, scenario, rep)
