"""C01 Every subscriber sees a well-formed notification sequence  N* (E|C)?  (virtual time, generated pipelines)."""
from __future__ import annotations

from typing import Any

from ..catalog import CATALOG
from ..common import UnitResult, case_rng, chunks, show
from ..vlab import grammar_ok
from . import _c01_pipeline as P

ID = "C01"
LEVEL = "exploration"
RULE = ("seeded random pipelines: depth 0-4 drawn from a catalog of %d operator configurations (all families, arguments "
        "generated) over 1-3 probe sources (cold/hot/synchronous/library from_iterable; each non-conforming with "
        "probability 1/3: notifications after the terminal one, second terminal, keeps emitting after dispose, subscribe "
        "function raising after its synchronous burst), "
        "numeric or datetime virtual clock, observer passed as object or as callbacks, one injected exception per case "
        "(k-th call of one user callback, or the subscriber's / a window subscriber's own on_next/on_error/on_completed); "
        "in half of the cases the subscribers make every hot source emit re-entrantly from inside their terminal callback; "
        "every emitted window/group gets its own probe; oracle = grammar N*(E|C)? on every probe. non-trivial = some probe "
        "received a notification AND a stressor fired (late emission of a non-conforming source, or the injected fault); "
        "distinct = digest of (sources, pipeline with arguments, fault, observer form)" % len(CATALOG))
ASSUMPTIONS = ["TestScheduler / HistoricalScheduler are the clock (ordering checked by C28)",
               "probe sources and probe observers are harness code; non-conforming sources misbehave on purpose",
               "the run is cut at virtual time 600 (never-ending pipelines with periodic timers)"]
CASES = {"quick": 3200, "thorough": 800000}
REQUIRED = {"set:ops": len(CATALOG) - 6,
            "late_emissions": {"quick": 300, "thorough": 100000},
            "faults_fired": {"quick": 300, "thorough": 100000},
            "probes_checked": {"quick": 1900, "thorough": 800000},
            "window_probes": {"quick": 100, "thorough": 40000},
            "reentrant_kicks": {"quick": 100, "thorough": 40000},
            "subscribe_functions_raising_after_terminal": {"quick": 30, "thorough": 10000},
            "terminated_probes": {"quick": 800, "thorough": 300000}}


def units(tier: str, seed: int) -> list[dict]:
    return [{"lo": lo, "hi": hi, "seed": seed} for lo, hi in chunks(CASES[tier], 16 if tier == "quick" else 64)]


def gen(seed: int, idx: int) -> tuple:
    r = case_rng(seed, ID, idx)
    depth = r.choice([0, 1, 1, 2, 2, 3, 3, 4, 4])
    clock = "dt" if r.random() < 0.12 else "num"
    b = P.build(r, depth, clock=clock, p_nonconf=1 / 3)
    # ---- plan of the subscription and the fault (drawn after the build, so independent of `keep`)
    as_callbacks = r.random() < 0.5
    c = r.random()
    fault: Any = None
    top_opts: dict = {}
    if c < 0.2:
        fault = None
    elif c < 0.55 and b.g.callbacks:
        i = r.randrange(len(b.g.callbacks))
        k = r.choice([1, 1, 2, 3])
        fault = ("callback", b.g.callbacks[i].name, k)
        b.g.callbacks[i].raise_at = k
    else:
        kind = r.choice("NNNCCE")
        k = r.choice([1, 1, 2, 3]) if kind == "N" else 1
        where = r.choice(["top", "top", "child", "both"])
        fault = ("observer", where, kind, k)
        if where in ("top", "both"):
            top_opts["raise_at"] = (kind, k)
        if where in ("child", "both"):
            top_opts["inner_opts"] = {"raise_at": (kind, k)}
    if r.random() < 0.5:
        # re-entrant stressor: from inside a subscriber's terminal callback every hot source is made to emit once more,
        # synchronously (what a subscriber does that feeds a subject from its on_error / on_completed)
        hots = [s for s in b.g.sources if s.kind == "hot"]
        state = {"kicks": 0}

        def kick(kind: str, value: Any, obs: Any) -> None:
            if kind in "EC" and state["kicks"] < 4:
                state["kicks"] += 1
                b.lab.add("note", "kick", obs.name)
                for s in hots:
                    s._hot_action("N", "kick")(None, None)
            if kind in "EC" and obs.name == "top" and b.term_action is None:
                b.term_action = b.lab.nactions

        if hots:
            top_opts["on_recv"] = kick
            top_opts.setdefault("inner_opts", {})["on_recv"] = kick
    return b, as_callbacks, fault, top_opts


def run(seed: int, idx: int, keep: list | None) -> tuple:
    b, as_callbacks, fault, top_opts = gen(seed, idx)
    top = b.lab.observer("top", **top_opts)
    P.execute(b, keep, top=top, as_callbacks=as_callbacks, end_children=False)
    bad = [(o.name, o.kinds) for o in b.lab.observers if not grammar_ok(o.kinds)]
    return b, top, as_callbacks, fault, bad


def late_emissions(lab: Any) -> int:
    """emissions a source made to a subscription after its own terminal notification or after it was disposed"""
    done: set = set()
    n = 0
    for e in lab.ev:
        if e[2] == "emit":
            key = (e[3], e[4])
            if key in done:
                n += 1
            if e[5] in "EC":
                done.add(key)
        elif e[2] == "unsub":
            done.add((e[3], e[4]))
    return n


def run_case(seed: int, idx: int, res: UnitResult, keep: list | None = None) -> None:
    b, top, as_callbacks, fault, bad = run(seed, idx, keep)
    lab = b.lab
    late = late_emissions(lab)
    fired = sum(1 for e in lab.ev if e[2] == "inject")
    received = sum(len(o.recv) for o in lab.observers)
    desc = b.describe(keep)
    desc.update({"fault": show(fault), "observer": "callbacks" if as_callbacks else "object"})
    sample = {"case": desc, "received": {o.name: o.kinds for o in lab.observers[:6]}, "late_emissions": late, "faults_fired": fired}
    nontrivial = received > 0 and (late > 0 or fired > 0)
    res.case(key=desc, nontrivial=nontrivial, sample=sample if nontrivial else None)
    for n in b.opnames(keep):
        res.note("ops", n)
    res.count("depth_%d" % len(b.kept(keep)))
    res.count("late_emissions", late)
    res.count("faults_fired", fired)
    res.count("probes_checked", len(lab.observers))
    res.count("window_probes", len(lab.observers) - 1)
    res.count("terminated_probes", sum(1 for o in lab.observers if o.terminal is not None))
    res.count("notifications_checked", received)
    res.count("exceptions_escaped_to_source_or_scheduler", sum(1 for e in lab.ev if e[2] in ("escaped", "escaped_sched")))
    res.count("clock_" + lab.clock_kind)
    if b.livelock:
        res.count("livelock_cut")
    res.count("subscribe_functions_raising_after_terminal", sum(1 for e in lab.ev if e[2] == "note" and e[3] == "subscribe_raises"))
    res.count("reentrant_kicks", sum(1 for e in lab.ev if e[2] == "note" and e[3] == "kick"))
    res.count("observer_as_callbacks" if as_callbacks else "observer_as_object")
    if fault is not None:
        res.count("fault_" + fault[0] + ("_" + fault[2] if fault[0] == "observer" else ""))
    if any(d["nonconf"] for d in desc["sources"]):
        res.count("cases_with_nonconforming_source")
    if not bad:
        return
    kept = keep
    if keep is None:
        kept = P.minimize(lambda: gen(seed, idx)[0], lambda cand: bool(run(seed, idx, cand)[4]))
        b, top, as_callbacks, fault, bad2 = run(seed, idx, kept)
        bad = bad2 or bad
        desc = b.describe(kept)
        desc.update({"fault": show(fault), "observer": "callbacks" if as_callbacks else "object"})
    who = "top" if any(n == "top" for n, _ in bad) else "window"
    opn = "+".join(sorted(set(b.opnames(kept)))) or "source-only"
    res.violation("C01:grammar:%s:%s" % (who, opn),
                  {"why": "a subscriber received a notification after its terminal one",
                   "expected": "N*(E|C)? at every subscriber", "observed": dict(bad), "case": desc,
                   "trace_tail": [show(e) for e in b.lab.ev[-25:]]},
                  {"seed": seed, "idx": idx, "keep": kept})


def run_unit(unit: dict, res: UnitResult) -> None:
    for idx in range(unit["lo"], unit["hi"]):
        run_case(unit["seed"], idx, res)


def replay(rep: dict, res: UnitResult) -> None:
    run_case(rep["seed"], rep["idx"], res, keep=rep.get("keep"))
