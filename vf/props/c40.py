"""C40 Resources and finally-actions are released exactly once; do_* stages only observe.

One *base case* = (family, inner source kind cold/hot/sync, generated timeline, 1..3 subscriptions of the SAME built
observable, fault / callback-raise position, dispose options of the non-focus subscribers). It is first run without
disposing the focus subscriber; then once per *dispose point* of the focus subscriber:
  - every distinct virtual time of the baseline run, twice: the dispose action placed before everything else of
    that instant ("early", registered first) and after the subscription's own events of that instant ("late",
    registered right after subscribe) -- this is how termination and disposal at the same instant are reached in
    both orders;
  - from inside the subscriber's k-th on_next, for every k it received in the baseline.

Everything is judged per subscription. Events of the one ordered log are attributed to a subscription by call
context (inside its subscribe call / inside its dispose call / inside a source delivery to it); contexts are reset
at every scheduler action.

Oracles (statement + DESIGN.md C40):
  using        one resource per subscription; dispose count == 1 iff the subscription terminated or was disposed,
               at the virtual time of whichever came first, not before the source produced the terminal / not
               outside the dispose() call; == 1 as well when the observable factory raised (any time up to the
               delivery of the error); 0 while the subscription is live; resource-factory raise: subscriber gets
               exactly that error.
  finally_action / do_finally
               action count == 1 iff terminated or disposed, strictly after the terminal notification reached the
               subscriber (same instant) or inside the dispose() call, whichever came first; 0 while live.
  do_action, do, do_after_next, do_on_subscribe, do_on_dispose, do_on_terminate, do_after_terminate
               received trace == trace the source emitted to this subscription (values by type-strict equality,
               errors by identity, same virtual times) unless a callback raised: then the received trace is a
               prefix of the input followed by E(that exception) at the time of the raise; callbacks are called
               for every input notification of their kind, in order, at the input's time.
Left open by the statement, accepted both ways and counted: whether the raising callback's own element is still
delivered; whether an "after" callback still runs when the subscriber unsubscribed inside that very delivery;
whether do_on_dispose fires when the subscription ends by termination instead of dispose().
"""
from __future__ import annotations

from typing import Any

import reactivex as rx
import reactivex.operators as ops
from reactivex import abc
from reactivex.operators import _do
from reactivex.scheduler import ImmediateScheduler

from ..common import UnitResult, case_rng, chunks, show, strict
from ..vlab import Injected, Lab, gen_timeline, show_timeline

ID = "C40"
LEVEL = "exploration"
RULE = ("seeded base cases (family idx mod 12 over using x3, finally_action, do_finally, do_action, do, do_after_next, "
        "do_on_subscribe, do_on_dispose, do_on_terminate, do_after_terminate; inner source cold/hot/sync with a generated "
        "timeline of 0..4 elements ending in C/E/never; 1..3 subscriptions of the same observable at equal or later times; "
        "faults: resource factory raises / returns None, observable factory raises, inner source error, each do_* callback "
        "raising at its k-th call; finally stages optionally followed by take(k)) x every dispose point of the focus "
        "subscriber (each distinct virtual time of the baseline run placed first and last within that instant, and from "
        "inside its k-th on_next); plus a family in which the SUBSCRIBER's own callback raises, over cold, synchronous probe and plain "
        "reactivex.create sources that notify from inside subscribe() and let the exception travel back out of it; non-trivial = the focus subscription terminated, was disposed or received an element; "
        "distinct = digest of (base case, dispose point)")
ASSUMPTIONS = ["reactivex.testing.TestScheduler is used as the clock (its ordering is checked independently by C28)",
               "probe sources, probe observers and probe resources are harness code (conforming here)",
               "Observable.subscribe's auto-detach (terminal notification => subscription disposed) is part of the system under test"]
FAMILIES = ["using", "finally_action", "do_finally", "do_action", "using", "do", "do_after_next", "do_on_subscribe",
            "using", "do_on_dispose", "do_on_terminate", "do_after_terminate"]
CASES = {"quick": 720, "thorough": 36000}
REQUIRED = {
    "set:families": 10,
    "subscriber_raises_cases": {"quick": 700, "thorough": 35000}, "subscriber_raises_inline": {"quick": 200, "thorough": 10000},
    "dispose_at_termination_instant:early": {"quick": 150, "thorough": 6000},
    "dispose_at_termination_instant:late": {"quick": 150, "thorough": 6000},
    "dispose_inside_on_next": {"quick": 300, "thorough": 12000},
    "resubscribed_runs": {"quick": 1500, "thorough": 60000},
    "using:observable_factory_raised": {"quick": 100, "thorough": 4000},
    "using:resource_factory_raised": {"quick": 60, "thorough": 2500},
    "using:resource_disposed_once": {"quick": 1500, "thorough": 60000},
    "finally:action_ran_once": {"quick": 1000, "thorough": 40000},
    "do:callback_raised": {"quick": 250, "thorough": 10000},
    "do:traces_compared": {"quick": 3000, "thorough": 120000},
}
SUB_AT = 200.0
AFTER_ROLES = ("afterN", "afterterm")


# ---------------------------------------------------------------------------------- probes

class Resource(abc.DisposableBase):
    def __init__(self, lab: Lab, rid: int) -> None:
        self.lab, self.rid = lab, rid
        lab.add("res_new", rid)

    def dispose(self) -> None:
        self.lab.add("res_dispose", self.rid)


class FalsyResource(Resource):
    """a resource whose truth value is False when the factory returns it (like a still-empty CompositeDisposable, which
    has __len__): whether it is released must not depend on that"""

    def __len__(self) -> int:
        return 0


def probe(lab: Lab, name: str, impl: Any, raise_calls: Any = ()) -> Any:
    state = {"n": 0}

    def f(*a: Any) -> Any:
        state["n"] += 1
        lab.add("cb", name, state["n"], a)
        if state["n"] in raise_calls:
            exc = Injected("%s#%d" % (name, state["n"]))
            lab.add("inject", name, exc)
            raise exc
        return impl(*a)
    return f


class Tap(abc.ObserverBase):
    """observer handed to ops.do(); its three methods are callback probes"""

    def __init__(self, lab: Lab, raise_at: Any) -> None:
        self._n = probe(lab, "N", lambda x: None, {raise_at[1]} if raise_at and raise_at[0] == "N" else ())
        self._e = probe(lab, "E", lambda e: None, {raise_at[1]} if raise_at and raise_at[0] == "E" else ())
        self._c = probe(lab, "C", lambda: None, {raise_at[1]} if raise_at and raise_at[0] == "C" else ())

    def on_next(self, value: Any) -> None:
        self._n(value)

    def on_error(self, error: Exception) -> None:
        self._e(error)

    def on_completed(self) -> None:
        self._c()


# ---------------------------------------------------------------------------------- case generation

def gen_case(r: Any, idx: int) -> dict:
    fam = FAMILIES[idx % len(FAMILIES)]
    src_kind = r.choice(["cold", "cold", "hot", "sync"])
    domain = r.choice(["ints", "falsy"])
    tl = gen_timeline(r, domain, maxlen=4)
    nN = sum(1 for m in tl if m[1] == "N")
    nsubs = r.choice([1, 1, 2, 2, 3])
    sub_times = [SUB_AT]
    for _ in range(nsubs - 1):
        sub_times.append(sub_times[-1] + r.choice([0, 0, 5, 10, 50, 100]))
    focus = r.randrange(nsubs)
    others: dict = {}
    for i in range(nsubs):
        if i == focus:
            continue
        c = r.random()
        if c < 0.4:
            others[i] = None
        elif c < 0.75:
            others[i] = ("time", sub_times[i] + r.choice([0, 5, 10, 15, 20, 30]), r.choice(["early", "late"]))
        else:
            others[i] = ("incb", r.randint(1, 3))
    case: dict = {"fam": fam, "src": src_kind, "tl": tl, "sub_times": sub_times, "focus": focus, "others": others,
                  "hot_start": SUB_AT - r.choice([0, 0, 10]), "sub_sched": "ts"}
    if fam == "using":
        c = r.random()
        case["fault"] = "none" if c < 0.5 else ("obsfac" if c < 0.72 else ("resfac" if c < 0.88 else "resnone"))
        if case["fault"] != "none":
            case["fault_calls"] = sorted(set(r.choice([[1], [nsubs], list(range(1, nsubs + 1)), [r.randint(1, nsubs)]])))
        if r.random() < 0.3:
            case["sub_sched"] = "immediate"     # scheduler handed to subscribe (used by using's internal throw())
        case["falsy_resource"] = r.random() < 0.4
    elif fam in ("finally_action", "do_finally"):
        case["take"] = r.choice([None, None, 1, 2, max(1, nN), nN + 1])
    elif fam == "do_action":
        roles = [k for k in "NEC" if r.random() < 0.75] or [r.choice("NEC")]
        case["roles"] = roles
        case["raise"] = None
        if r.random() < 0.45:
            role = r.choice(roles)
            case["raise"] = (role, r.randint(1, 3) if role == "N" else r.randint(1, nsubs))
    elif fam == "do":
        case["roles"] = ["N", "E", "C"]
        role = r.choice("NNEC")
        case["raise"] = (role, r.randint(1, 3) if role == "N" else r.randint(1, nsubs)) if r.random() < 0.45 else None
    elif fam == "do_after_next":
        case["raise"] = ("afterN", r.randint(1, 3)) if r.random() < 0.45 else None
    elif fam == "do_on_subscribe":
        case["raise"] = ("onsub", r.randint(1, nsubs)) if r.random() < 0.4 else None
    elif fam == "do_on_terminate":
        case["raise"] = ("onterm", r.randint(1, nsubs)) if r.random() < 0.45 else None
    elif fam == "do_after_terminate":
        case["raise"] = ("afterterm", r.randint(1, nsubs)) if r.random() < 0.4 else None
    else:
        case["raise"] = None
    return case


def describe(case: dict) -> dict:
    d = {k: show(v) for k, v in case.items() if k not in ("tl",)}
    d["timeline"] = show_timeline(case["tl"])
    return d


# ---------------------------------------------------------------------------------- building / running

def build(case: dict, lab: Lab, src: Any) -> Any:
    fam = case["fam"]
    rz = case.get("raise")

    def rc(role: str) -> Any:
        return {rz[1]} if rz and rz[0] == role else ()

    if fam == "using":
        fault, calls = case["fault"], set(case.get("fault_calls", ()))
        rid = [0]

        def make_resource() -> Any:
            if fault == "resnone" and resfac_state["n"] in calls:
                return None
            rid[0] += 1
            if case.get("falsy_resource") and rid[0] % 2 == 1:
                lab.add("note", "falsy_resource")
                return FalsyResource(lab, rid[0])
            return Resource(lab, rid[0])
        resfac_state = {"n": 0}

        def resfac_impl() -> Any:
            return make_resource()
        inner = probe(lab, "resfac", resfac_impl, calls if fault == "resfac" else ())

        def resfac() -> Any:
            resfac_state["n"] += 1
            return inner()
        obsfac = probe(lab, "obsfac", lambda res: src, calls if fault == "obsfac" else ())
        return rx.using(resfac, obsfac)
    if fam == "finally_action":
        o = src.pipe(ops.finally_action(probe(lab, "fin", lambda: None)))
        return o.pipe(ops.take(case["take"])) if case["take"] else o
    if fam == "do_finally":
        o = src.pipe(_do.do_finally(probe(lab, "fin", lambda: None)))
        return o.pipe(ops.take(case["take"])) if case["take"] else o
    if fam == "do_action":
        roles = case["roles"]
        cbn = probe(lab, "N", lambda x: None, rc("N")) if "N" in roles else None
        cbe = probe(lab, "E", lambda e: None, rc("E")) if "E" in roles else None
        cbc = probe(lab, "C", lambda: None, rc("C")) if "C" in roles else None
        return src.pipe(ops.do_action(cbn, cbe, cbc))
    if fam == "do":
        return src.pipe(ops.do(Tap(lab, rz)))
    if fam == "do_after_next":
        return _do.do_after_next(src, probe(lab, "afterN", lambda x: None, rc("afterN")))
    if fam == "do_on_subscribe":
        return _do.do_on_subscribe(src, probe(lab, "onsub", lambda: None, rc("onsub")))
    if fam == "do_on_dispose":
        return _do.do_on_dispose(src, probe(lab, "ondisp", lambda: None))
    if fam == "do_on_terminate":
        return _do.do_on_terminate(src, probe(lab, "onterm", lambda: None, rc("onterm")))
    if fam == "do_after_terminate":
        return _do.do_after_terminate(src, probe(lab, "afterterm", lambda: None, rc("afterterm")))
    raise KeyError(fam)


def run_variant(case: dict, variant: Any) -> tuple[Lab, list]:
    """variant: dispose point of the focus subscriber: None | ('time', T, 'early'|'late') | ('incb', k)"""
    lab = Lab()
    lab.action_hook = lambda n: lab.add("x_action")
    nsubs = len(case["sub_times"])
    plan = dict(case["others"])
    plan[case["focus"]] = variant
    obs = []
    for i in range(nsubs):
        p = plan.get(i)
        obs.append(lab.observer("o%d" % i, dispose_at=p[1] if p and p[0] == "incb" else None))
    # "early" disposes are registered before anything else, so they run first within their instant
    for i in range(nsubs):
        p = plan.get(i)
        if p and p[0] == "time" and p[2] == "early":
            lab.at(p[1], obs[i].dispose)
    if case["src"] == "hot":
        src = lab.hot("s", [(case["hot_start"] + t, k, v) for (t, k, v) in case["tl"]])
    elif case["src"] == "sync":
        src = lab.sync("s", case["tl"])
    else:
        src = lab.cold("s", case["tl"])
    built = build(case, lab, src)
    sched = ImmediateScheduler.singleton() if case["sub_sched"] == "immediate" else None

    def do_sub(i: int) -> None:
        lab.add("x_sub_begin", i)
        try:
            obs[i].subscribe_to(built, scheduler=sched)
        finally:
            lab.add("x_sub_end", i)
        p = plan.get(i)
        if p and p[0] == "time" and p[2] == "late":
            lab.at(max(p[1], lab.now()), obs[i].dispose)
    for i, t in enumerate(case["sub_times"]):
        lab.at(t, lambda i=i: do_sub(i))
    lab.run()
    return lab, obs


# ---------------------------------------------------------------------------------- attribution

class Rec:
    def __init__(self, idx: int, obs: Any) -> None:
        self.idx, self.obs = idx, obs
        self.sub_seq: int | None = None
        self.sub_time: float | None = None
        self.src_subs: list = []
        self.emits: list = []        # (seq, t, kind, value)
        self.cbs: list = []          # (seq, t, name, callno, args)
        self.injects: list = []      # (seq, t, name, exc)
        self.resources: dict = {}    # rid -> {"new": seq, "disposes": [(seq, t)]}
        self.term: tuple | None = None       # (seq, t, kind, value) first terminal received
        self.disp_call: tuple | None = None  # (seq, t)
        self.disp_ret: int | None = None
        self.disp_nested_in_emit = False

    def trigger(self) -> tuple | None:
        c = []
        if self.term is not None:
            c.append((self.term[0], self.term[1], "term"))
        if self.disp_call is not None:
            c.append((self.disp_call[0], self.disp_call[1], "disp"))
        return min(c) if c else None

    def out(self) -> list:
        return [(t, k, v) for (k, v, t, _s) in self.obs.recv]


def attribute(lab: Lab, obs: list) -> tuple[list, list]:
    recs = [Rec(i, o) for i, o in enumerate(obs)]
    by_name = {o.name: i for i, o in enumerate(obs)}
    sidmap: dict = {}
    res_owner: dict = {}
    orphans: list = []
    stack: list = []

    def owner() -> int | None:
        return stack[-1][1] if stack else None

    for e in lab.ev:
        seq, t, kind = e[0], e[1], e[2]
        if kind == "x_action":
            stack = []
        elif kind == "x_sub_begin":
            stack.append(("sub", e[3]))
            recs[e[3]].sub_seq, recs[e[3]].sub_time = seq, t
        elif kind == "x_sub_end":
            while stack and stack.pop() != ("sub", e[3]):
                pass
        elif kind == "dispose_call":
            i = by_name[e[3]]
            recs[i].disp_call = (seq, t)
            recs[i].disp_nested_in_emit = any(c == ("emit", i) for c in stack)
            stack.append(("disp", i))
        elif kind == "dispose_ret":
            i = by_name[e[3]]
            recs[i].disp_ret = seq
            while stack and stack.pop() != ("disp", i):
                pass
        elif kind == "sub":
            o = owner()
            sidmap[(e[3], e[4])] = o
            if o is not None:
                recs[o].src_subs.append((seq, e[3], e[4]))
            else:
                orphans.append(e)
        elif kind == "emit":
            while stack and stack[-1][0] == "emit":
                stack.pop()
            o = sidmap.get((e[3], e[4]))
            stack.append(("emit", o))
            if o is not None:
                recs[o].emits.append((seq, t, e[5], e[6]))
        elif kind == "recv":
            i = by_name.get(e[3])
            if i is not None and e[4] in "EC" and recs[i].term is None:
                recs[i].term = (seq, t, e[4], e[5])
        elif kind == "cb":
            o = owner()
            if o is None:
                orphans.append(e)
            else:
                recs[o].cbs.append((seq, t, e[3], e[4], e[5]))
        elif kind == "inject":
            o = owner()
            if o is None:
                orphans.append(e)
            else:
                recs[o].injects.append((seq, t, e[3], e[4]))
        elif kind == "res_new":
            o = owner()
            res_owner[e[3]] = o
            if o is None:
                orphans.append(e)
            else:
                recs[o].resources[e[3]] = {"new": seq, "disposes": []}
        elif kind == "res_dispose":
            o = res_owner.get(e[3])
            if o is not None:
                recs[o].resources[e[3]]["disposes"].append((seq, t))
    return recs, orphans


# ---------------------------------------------------------------------------------- oracles

def show_out(xs: list) -> list:
    return [[t, k, show(v)] for (t, k, v) in xs]


def same_note(a: tuple, b: tuple) -> bool:
    """(t, kind, value) equality: values type-strict, errors by identity"""
    if a[1] != b[1] or abs(a[0] - b[0]) > 1e-9:
        return False
    if a[1] == "N":
        return strict(a[2]) == strict(b[2])
    if a[1] == "E":
        return a[2] is b[2]
    return True


def same_trace(a: list, b: list) -> bool:
    return len(a) == len(b) and all(same_note(x, y) for x, y in zip(a, b))


def check_using(case: dict, rec: Rec, V: Any, res: UnitResult) -> None:
    inj = rec.injects[0] if rec.injects else None
    trig = rec.trigger()
    out = rec.out()
    if inj is not None and inj[2] == "resfac":
        res.count("using:resource_factory_raised")
        if rec.resources:
            V("C40:using:resource-after-factory-raise", "a resource exists although the resource factory raised")
        if rec.term is not None:
            if not (rec.term[2] == "E" and rec.term[3] is inj[3]):
                V("C40:using:factory-error", "resource factory raised %r but the subscriber got %s" % (inj[3], show_out(out)))
        elif rec.disp_call is None:
            V("C40:using:factory-error", "resource factory raised %r, the subscriber was never told" % (inj[3],))
        return
    made_none = not rec.resources and any(c[2] == "resfac" for c in rec.cbs)
    if case["fault"] == "resnone" and made_none:
        res.count("using:resource_is_None")
        return
    if len(rec.resources) != 1:
        V("C40:using:resource-factory-calls", "%d resources were created for one subscription" % len(rec.resources))
        return
    r0 = list(rec.resources.values())[0]
    disposes = r0["disposes"]
    obsfac_failed = inj is not None and inj[2] == "obsfac"
    if obsfac_failed:
        res.count("using:observable_factory_raised")
        if rec.term is not None and not (rec.term[2] == "E" and rec.term[3] is inj[3]):
            V("C40:using:factory-error", "observable factory raised %r but the subscriber got %s" % (inj[3], show_out(out)))
        if rec.term is None and rec.disp_call is None:
            V("C40:using:factory-error", "observable factory raised %r, the subscriber was never told" % (inj[3],))
    if trig is None:
        if disposes:
            V("C40:using:resource-disposed-while-live", "resource disposed at %s although the subscription neither terminated nor was disposed" % (disposes,))
        else:
            res.count("using:resource_live_not_disposed")
        return
    if len(disposes) == 0:
        V("C40:using:resource-not-disposed", "subscription ended by %s at t=%s, resource dispose count 0" % (trig[2], trig[1]))
        return
    if len(disposes) > 1:
        V("C40:using:resource-disposed-twice", "resource dispose count %d (at %s)" % (len(disposes), disposes))
        return
    res.count("using:resource_disposed_once")
    dseq, dt = disposes[0]
    if obsfac_failed:
        if not (rec.sub_time <= dt <= trig[1]) or (dt == trig[1] and trig[2] == "disp" and rec.disp_ret is not None and dseq > rec.disp_ret):
            V("C40:using:resource-dispose-time", "observable factory failed at t=%s; resource disposed at t=%s, subscription ended (%s) at t=%s"
              % (rec.sub_time, dt, trig[2], trig[1]))
        return
    ok = abs(dt - trig[1]) < 1e-9
    if ok and trig[2] == "disp":
        ok = rec.disp_call[0] < dseq and (rec.disp_ret is None or dseq < rec.disp_ret)
    elif ok:
        term_emit = [x for x in rec.emits if x[2] in "EC"]
        ok = not term_emit or dseq > term_emit[0][0]
    if not ok:
        V("C40:using:resource-dispose-time", "subscription ended by %s at t=%s (seq %d); resource disposed at t=%s (seq %d)"
          % (trig[2], trig[1], trig[0], dt, dseq))


def check_finally(case: dict, rec: Rec, V: Any, res: UnitResult) -> None:
    fam = case["fam"]
    calls = [c for c in rec.cbs if c[2] == "fin"]
    if not rec.src_subs:
        if calls:
            V("C40:%s:action-without-subscription" % fam, "action ran %d times although the stage was never subscribed" % len(calls))
        return
    trig = rec.trigger()
    if trig is None:
        if calls:
            V("C40:%s:action-while-live" % fam, "action ran at %s although the subscription neither terminated nor was disposed"
              % ([(c[0], c[1]) for c in calls],))
        else:
            res.count("finally:live_no_action")
        return
    if not calls:
        V("C40:%s:action-missing" % fam, "subscription ended by %s at t=%s, action count 0" % (trig[2], trig[1]))
        return
    if len(calls) > 1:
        V("C40:%s:action-twice" % fam, "subscription ended by %s at t=%s, action count %d (t=%s)" % (trig[2], trig[1], len(calls), [c[1] for c in calls]))
        return
    res.count("finally:action_ran_once")
    res.count("finally:action_after_%s" % ("termination" if trig[2] == "term" else "dispose"))
    c = calls[0]
    ok = abs(c[1] - trig[1]) < 1e-9 and c[0] > trig[0]
    if ok and trig[2] == "disp":
        ok = rec.disp_ret is None or c[0] < rec.disp_ret
    if not ok:
        what = "the terminal notification reached the subscriber" if trig[2] == "term" else "dispose() was called"
        V("C40:%s:action-order" % fam, "%s at t=%s (seq %d); the action ran at t=%s (seq %d)" % (what, trig[1], trig[0], c[1], c[0]))


def expected_calls(case: dict, inp: list) -> list:
    """[(role, args, time, input index)] the callbacks of this stage must observe for the given input"""
    fam = case["fam"]
    out = []
    for j, (_s, t, k, v) in enumerate(inp):
        if fam in ("do_action", "do"):
            if k in case["roles"]:
                out.append((k, () if k == "C" else (v,), t, j))
        elif fam == "do_after_next":
            if k == "N":
                out.append(("afterN", (v,), t, j))
        elif fam == "do_on_terminate":
            if k in "EC":
                out.append(("onterm", (), t, j))
        elif fam == "do_after_terminate":
            if k in "EC":
                out.append(("afterterm", (), t, j))
    return out


def same_args(a: tuple, b: tuple) -> bool:
    if len(a) != len(b):
        return False
    for x, y in zip(a, b):
        if isinstance(x, BaseException) or isinstance(y, BaseException):
            if x is not y:
                return False
        elif strict(x) != strict(y):
            return False
    return True


def check_do(case: dict, rec: Rec, V: Any, res: UnitResult) -> None:
    fam = case["fam"]
    inp = rec.emits
    out = rec.out()
    inj = rec.injects[0] if rec.injects else None
    inp_notes = [(t, k, v) for (_s, t, k, v) in inp]
    res.count("do:traces_compared")
    j = -1
    if inj is not None:
        res.count("do:callback_raised")
        res.note("raising_roles", "%s:%s" % (fam, inj[2]))
        j = max([i for i, x in enumerate(inp) if x[0] < inj[0]], default=-1)
    # ---- the sequence
    if inj is None or fam == "do_after_terminate":
        if inj is not None:
            res.count("do:after_terminate_raise_cannot_be_delivered")
        if not same_trace(inp_notes, out):
            V("C40:%s:sequence-changed" % fam, "no callback raised (or only after the terminal) but received != emitted",
              {"emitted": show_out(inp_notes), "received": show_out(out)})
    elif rec.disp_call is not None and rec.disp_call[0] < inj[0]:
        res.count("do:raise_after_unsubscribe")
        if not same_trace(inp_notes[:j + 1], out):
            V("C40:%s:sequence-changed" % fam, "callback raised after the subscriber had unsubscribed; received != emitted",
              {"emitted": show_out(inp_notes), "received": show_out(out)})
    else:
        err = (inj[1], "E", inj[3])
        accepted = [inp_notes[:max(j, 0)] + [err]]
        if j >= 0 and inp[j][2] == "N":
            accepted.append(inp_notes[:j + 1] + [err])
        hit = [i for i, a in enumerate(accepted) if same_trace(a, out)]
        if not hit:
            V("C40:%s:callback-raise" % fam, "callback %s raised %r while handling input #%d: expected a prefix of the input then E(that exception)"
              % (inj[2], inj[3], j), {"emitted": show_out(inp_notes), "received": show_out(out)})
        else:
            res.count("do:raising_element_%s" % ("dropped" if hit[0] == 0 else "delivered"))
    # ---- what the callbacks saw
    if fam in ("do_action", "do", "do_after_next", "do_on_terminate", "do_after_terminate"):
        roles = {"do_after_next": ["afterN"], "do_on_terminate": ["onterm"], "do_after_terminate": ["afterterm"]}.get(fam) or case["roles"]
        seen = [c for c in rec.cbs if c[2] in roles]
        exp = expected_calls(case, inp)
        if inj is not None:
            # up to the raising call everything must have been observed; a source that cannot be stopped (synchronous
            # emission inside subscribe) keeps feeding the stage afterwards: further calls are neither required nor
            # forbidden, but must still follow the input
            need = len(expected_calls(case, inp[:j + 1]))
            if need <= len(seen) <= len(exp):
                if len(seen) > need:
                    res.count("do:callbacks_still_fed_after_raise")
                exp = exp[:len(seen)]
            else:
                exp = exp[:need]
        alts = [exp]
        if (inj is None and exp and exp[-1][0] in AFTER_ROLES and rec.disp_call is not None and rec.disp_nested_in_emit
                and exp[-1][3] == len(inp) - 1 and inp[-1][0] < rec.disp_call[0]):
            alts.append(exp[:-1])

        def match(ex: list) -> bool:
            return len(ex) == len(seen) and all(c[2] == x[0] and same_args(tuple(c[4]), x[1]) and abs(c[1] - x[2]) < 1e-9 for c, x in zip(seen, ex))
        ok = [i for i, a in enumerate(alts) if match(a)]
        if not ok:
            V("C40:%s:callbacks-missed" % fam, "callbacks did not observe every notification in order",
              {"emitted": show_out(inp_notes), "expected_calls": [[x[0], show(x[1]), x[2]] for x in exp],
               "observed_calls": [[c[2], show(c[4]), c[1]] for c in seen]})
        else:
            res.count("do:callback_invocations_checked", len(seen))
            if len(alts) == 2:
                res.count("do:after_callback_when_unsubscribed_inside:%s" % ("called" if ok[0] == 0 else "skipped"))
    elif fam == "do_on_subscribe":
        seen = [c for c in rec.cbs if c[2] == "onsub"]
        if len(seen) != 1 or abs(seen[0][1] - rec.sub_time) > 1e-9:
            V("C40:do_on_subscribe:callbacks-missed", "on_subscribe ran %d times for one subscription (at %s, subscribed at %s)"
              % (len(seen), [c[1] for c in seen], rec.sub_time))
        else:
            res.count("do:callback_invocations_checked")
    elif fam == "do_on_dispose":
        seen = [c for c in rec.cbs if c[2] == "ondisp"]
        explicit_first = rec.disp_call is not None and (rec.term is None or rec.disp_call[0] < rec.term[0])
        if explicit_first:
            c0 = seen[0] if seen else None
            if len(seen) != 1 or not (rec.disp_call[0] < c0[0] and (rec.disp_ret is None or c0[0] < rec.disp_ret)):
                V("C40:do_on_dispose:callbacks-missed", "subscription disposed at t=%s: on_dispose ran %d times (%s)"
                  % (rec.disp_call[1], len(seen), [(c[0], c[1]) for c in seen]))
            else:
                res.count("do:callback_invocations_checked")
        elif rec.term is not None:
            if len(seen) > 1 or (seen and abs(seen[0][1] - rec.term[1]) > 1e-9):
                V("C40:do_on_dispose:callbacks-missed", "terminated at t=%s: on_dispose ran %d times (%s)" % (rec.term[1], len(seen), [c[1] for c in seen]))
            else:
                res.count("do:on_dispose_at_termination:%s" % ("called" if seen else "not called"))
        elif seen:
            V("C40:do_on_dispose:callbacks-missed", "on_dispose ran although the subscription is live")


def check_variant(case: dict, variant: Any, lab: Lab, obs: list, res: UnitResult, rep: dict, desc: dict) -> None:
    fam = case["fam"]
    recs, orphans = attribute(lab, obs)

    def mk(rec: Rec | None) -> Any:
        def V(mech: str, why: str, extra: dict | None = None) -> None:
            d = {"why": why, "case": desc, "dispose_point_of_focus": show(variant)}
            if rec is not None:
                d["subscription"] = rec.idx
                d["received"] = show_out(rec.out())
                d["emitted_to_it"] = show_out([(t, k, v) for (_s, t, k, v) in rec.emits])
                d["ended"] = show(rec.trigger())
            d.update(extra or {})
            res.violation(mech, d, rep)
        return V
    any_inject = any(e[2] == "inject" for e in lab.ev)
    bad_orphans = [e for e in orphans if e[2] in ("cb", "inject", "res_new")]
    if bad_orphans:
        mk(None)("C40:%s:unattributed-callback" % fam, "callback ran outside any subscribe call, dispose call or delivery: %s"
                 % ([(e[0], e[1], e[2], e[3]) for e in bad_orphans[:4]],))
    if not any_inject and (lab.escaped_to_scheduler or lab.events("escaped")):
        mk(None)("C40:%s:exception-escaped" % fam, "an exception escaped although nothing raised: %r" % (lab.escaped_to_scheduler[:1] or lab.events("escaped")[:1],))
    elif any_inject and (lab.escaped_to_scheduler or lab.events("escaped")):
        res.count("observed:injected_exception_escaped_to_caller")
    for rec in recs:
        if rec.sub_seq is None:
            continue
        V = mk(rec)
        if fam == "using":
            check_using(case, rec, V, res)
        elif fam in ("finally_action", "do_finally"):
            check_finally(case, rec, V, res)
        else:
            check_do(case, rec, V, res)


# ---------------------------------------------------------------------------------- driver

def dispose_points(case: dict, lab: Lab, obs: list) -> list:
    f = case["focus"]
    t0 = case["sub_times"][f]
    times = sorted({e[1] for e in lab.ev if e[1] >= t0} | {t0})[:10]
    pts: list = []
    for t in times:
        pts.append(("time", t, "early"))
        pts.append(("time", t, "late"))
    for k in range(1, min(obs[f].counts["N"], 4) + 1):
        pts.append(("incb", k))
    return pts


def run_case(seed: int, idx: int, res: UnitResult) -> None:
    r = case_rng(seed, ID, idx)
    case = gen_case(r, idx)
    desc = describe(case)
    rep = {"seed": seed, "idx": idx}
    res.note("families", case["fam"])
    lab0, obs0 = run_variant(case, None)
    f = case["focus"]
    term0 = obs0[f].terminal
    variants = [None] + dispose_points(case, lab0, obs0)
    for v in variants:
        lab, obs = (lab0, obs0) if v is None else run_variant(case, v)
        o = obs[f]
        nontrivial = o.terminal is not None or o.dispose_seq is not None or o.counts["N"] > 0
        sample = None
        if v is not None and len(res.samples) < res.max_samples and idx % 7 == 0:
            sample = {"case": desc, "dispose_point": show(v), "received": [show_out([(t, k, x) for (k, x, t, _s) in ob.recv]) for ob in obs],
                      "log": [[e[0], e[1], e[2]] + [show(x) for x in e[3:]] for e in lab.ev if e[2] in ("cb", "res_new", "res_dispose", "dispose_call", "dispose_ret", "recv")][:30]}
        res.case(key={"case": desc, "variant": show(v)}, nontrivial=nontrivial, sample=sample)
        if len(case["sub_times"]) > 1:
            res.count("resubscribed_runs")
        if v is not None and v[0] == "incb":
            res.count("dispose_inside_on_next")
        if v is not None and v[0] == "time" and term0 is not None and abs(term0[2] - v[1]) < 1e-9:
            res.count("dispose_at_termination_instant:%s" % v[2])
        check_variant(case, v, lab, obs, res, rep, desc)


def subscriber_raises_case(seed: int, idx: int, res: UnitResult) -> None:
    """The SUBSCRIBER's own callback raises (its k-th on_next, its on_error or on_completed handler; also: no on_error handler at
    all, so that the library's default handler re-raises): the subscription is over either way, and the resource / finally action
    must have been released exactly once by the end of the run."""
    from reactivex.disposable import Disposable
    r = case_rng(seed, ID, "subscriber-raises", idx)
    fam = r.choice(["using", "finally_action", "do_finally"])
    term = r.choice(["E", "C"])
    n = r.randint(0, 3)
    tl = [(5.0 * (i + 1), "N", i) for i in range(n)] + [(5.0 * (n + 1), term, RuntimeError("source failed") if term == "E" else None)]
    where = r.choice([(term, 1), (term, 1), ("N", r.randint(1, n)) if n else (term, 1)])
    style = r.choice(["observer", "callbacks", "no_error_handler"]) if where[0] == "E" else r.choice(["observer", "callbacks"])
    lab = Lab()
    kind = r.choice(["cold", "cold", "sync", "inline", "inline"])
    if kind == "inline":
        # a plain reactivex.create source that emits everything from inside subscribe() and does NOT absorb what its observer
        # raises (the probe sources record and swallow it): the subscriber's exception travels back out through every subscribe()
        # call of the pipeline, before any of them has returned its disposable
        def inline_subscribe(obs: Any, sch: Any = None) -> Any:
            for (_t, k, v) in tl:
                if k == "N":
                    obs.on_next(v)
                elif k == "E":
                    obs.on_error(v)
                else:
                    obs.on_completed()
            return Disposable()
        src = rx.create(inline_subscribe)
    else:
        src = (lab.sync if kind == "sync" else lab.cold)("s", tl)
    released = [0]

    def release() -> None:
        released[0] += 1
    if fam == "using":
        o = rx.using(lambda: Disposable(release), lambda _res: src)
    elif fam == "finally_action":
        o = src.pipe(ops.finally_action(release))
    else:
        o = src.pipe(_do.do_finally(release))
    top = lab.observer("top", raise_at=None if style == "no_error_handler" else where, inner=False)

    def do_sub() -> None:
        if style == "observer":
            top.subscribe_to(o)
        elif style == "callbacks":
            top.subscribe_to(o, as_callbacks=True)
        else:
            top.subscription = o.subscribe(top.on_next, None, top.on_completed, scheduler=lab.ts)
    def guarded() -> None:
        try:
            do_sub()
        except Exception:     # the raise came back out of subscribe() (synchronous source): expected, recorded by the probes
            pass
    lab.at(200.0, guarded)
    lab.run()
    desc = {"family": fam, "subscriber_raises_in": list(where), "style": style, "source_kind": kind, "source": show_timeline(tl)}
    res.count("subscriber_raises_cases")
    res.count("subscriber_raises_" + kind)
    res.case(key=desc, nontrivial=True)
    if released[0] != 1:
        res.violation("C40:%s:subscriber-callback-raised%s:released-%s" % (fam, ":inline-source" if kind == "inline" else "", "never" if released[0] == 0 else "twice"),
                      {"why": "the subscriber's own callback raised; the resource / finally action was released %d time(s), expected exactly 1" % released[0],
                       "case": desc, "received": show(top.timed())}, {"seed": seed, "idx": idx, "family": "subscriber-raises"})


def run_unit(unit: dict, res: UnitResult) -> None:
    for idx in range(unit["lo"], unit["hi"]):
        run_case(unit["seed"], idx, res)
        subscriber_raises_case(unit["seed"], idx, res)


def units(tier: str, seed: int) -> list[dict]:
    return [{"lo": lo, "hi": hi, "seed": seed} for lo, hi in chunks(CASES[tier], 16 if tier == "quick" else 64)]


def replay(rep: dict, res: UnitResult) -> None:
    if rep.get("family") == "subscriber-raises":
        subscriber_raises_case(rep["seed"], rep["idx"], res)
        return
    run_case(rep["seed"], rep["idx"], res)
