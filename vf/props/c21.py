"""C21 A BehaviorSubject hands its current value to every new subscriber (sequential-model differential)."""
from __future__ import annotations

from typing import Any

from reactivex.subject import BehaviorSubject

from ..common import UnitResult, chunks, show
from ._subjects import gen_history, is_falsy_value, sync_case

ID = "C21"
LEVEL = "exploration"
RULE = ("call histories as for C20 (1..14 calls from subscribe/unsubscribe/on_next/on_error/on_completed/dispose, "
        "observers that unsubscribe self/other or subscribe a new observer inside a callback, unique values) on a "
        "BehaviorSubject(initial) with initial drawn from None/0/False/''/0.0/() (half of the cases) or a unique int; "
        "sequential model = C20 model plus a `current` cell updated before the broadcast: a new subscriber first "
        "receives `current` (also when it subscribes from inside a callback of the broadcast of that value: exactly "
        "once), after termination only the terminal; non-trivial = at least one delivery or one call that must raise; "
        "distinct = digest of (initial, history)")
ASSUMPTIONS = ["probe observers are harness code; reactions never raise and never emit re-entrantly",
               "the model visits observers in subscription order (DESIGN.md C20)"]
CASES = {"quick": 4000, "thorough": 300000}
REQUIRED = {"deliveries": {"quick": 4000, "thorough": 150000},
            "late_subscribers": {"quick": 200, "thorough": 5000},
            "unsub_in_callback": {"quick": 100, "thorough": 3000},
            "sub_in_callback": {"quick": 100, "thorough": 3000},
            "disposed_calls": {"quick": 300, "thorough": 8000},
            "falsy_delivered": {"quick": 1000, "thorough": 30000},
            "falsy_initial_cases": {"quick": 500, "thorough": 20000},
            "set:initial_values": 7,
            "runs:free": {"quick": 1000, "thorough": 20000}, "free_injected_yields": {"quick": 3000, "thorough": 60000}}


def units(tier: str, seed: int) -> list[dict]:
    from ._subjects_conc import conc_units
    return [{"lo": lo, "hi": hi, "seed": seed} for lo, hi in chunks(CASES[tier], 16 if tier == "quick" else 64)] + conc_units(tier, seed)


def gen(r: Any) -> dict:
    h = gen_history(r)
    h["initial"] = h["vg"].value(force_falsy=r.random() < 0.5)
    return h


def run_case(seed: int, idx: int, res: UnitResult) -> None:
    seen: dict = {}

    def make(h: dict) -> Any:
        seen["initial"] = h["initial"]
        return BehaviorSubject(h["initial"])

    sync_case(ID, "behavior", seed, idx, res, gen, make)
    init = seen["initial"]
    if is_falsy_value(init):
        res.count("falsy_initial_cases")
    res.note("initial_values", repr(show(init)) if is_falsy_value(init) else "int")


def run_unit(unit: dict, res: UnitResult) -> None:
    if unit.get("mode") == "conc":
        from ._subjects_conc import run_conc_unit
        run_conc_unit(ID, 'behavior', unit, res)
        return
    for idx in range(unit["lo"], unit["hi"]):
        run_case(unit["seed"], idx, res)


def replay(rep: dict, res: UnitResult) -> None:
    if "scenario" in rep:
        from ._subjects_conc import replay_conc
        replay_conc(ID, 'behavior', rep, res)
        return
    run_case(rep["seed"], rep["idx"], res)
